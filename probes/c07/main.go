package main

import (
	"errors"
	"fmt"
	"reflect"

	"github.com/traefik/yaegi/interp"
	"github.com/traefik/yaegi/stdlib"
)

type Pt struct{ X, Y int }
type Rec struct {
	Name string
	Pts  []Pt
	M    map[string]*Pt
}

func main() {
	var got [][]interface{}
	mk := func(in, out []reflect.Type, variadic bool, results func(args []reflect.Value) []reflect.Value) reflect.Value {
		return reflect.MakeFunc(reflect.FuncOf(in, out, variadic), func(args []reflect.Value) []reflect.Value {
			row := []interface{}{}
			for _, a := range args {
				row = append(row, a.Interface())
			}
			got = append(got, row)
			return results(args)
		})
	}
	tInt, tStr, tPt, tRec := reflect.TypeOf(0), reflect.TypeOf(""), reflect.TypeOf(Pt{}), reflect.TypeOf(&Rec{})
	tErr := reflect.TypeOf((*error)(nil)).Elem()
	tCb := reflect.TypeOf((func(Pt) int)(nil))
	f1 := mk([]reflect.Type{tInt, tStr, reflect.SliceOf(tPt)}, []reflect.Type{tPt, tErr}, true, func(a []reflect.Value) []reflect.Value {
		return []reflect.Value{reflect.ValueOf(Pt{7, 8}), reflect.ValueOf(errors.New("e1")).Convert(tErr)}
	})
	f2 := mk([]reflect.Type{tRec, tCb}, []reflect.Type{tInt}, false, func(a []reflect.Value) []reflect.Value {
		r := a[0].Interface().(*Rec)
		r.Name = "mutated"
		r.M["k"].X = 99
		n := a[1].Call([]reflect.Value{reflect.ValueOf(Pt{3, 4})})[0]
		return []reflect.Value{n}
	})
	i := interp.New(interp.Options{})
	i.Use(stdlib.Symbols)
	i.Use(interp.Exports{"host/host": {"F1": f1, "F2": f2, "Pt": reflect.ValueOf((*Pt)(nil)), "Rec": reflect.ValueOf((*Rec)(nil))}})
	_, err := i.Eval(`package main
import ("fmt"; "host")
func S1(a int8, p host.Pt, xs ...string) (host.Pt, int, error) { p.X += int(a); return p, len(xs), nil }
func S2(cb func(int) (int, error), m map[string][]int) (r int, err error) { m["z"] = append(m["z"], 1); return cb(len(m)) }
func main() {
	p, err := host.F1(1, "s", host.Pt{1,2}, host.Pt{3,4})
	fmt.Println(p, err)
	p, err = host.F1(2, "t")
	ps := []host.Pt{{5,6}}
	p, err = host.F1(3, "u", ps...)
	r := &host.Rec{Name: "n", M: map[string]*host.Pt{"k": {1,1}}}
	n := host.F2(r, func(q host.Pt) int { return q.X*10 + q.Y })
	fmt.Println(n, r.Name, r.M["k"].X)
}`)
	fmt.Println("err", err)
	for _, g := range got {
		fmt.Printf("%#v\n", g)
	}
	v, _ := i.Eval("S1")
	out := v.Call([]reflect.Value{reflect.ValueOf(int8(5)), reflect.ValueOf(Pt{1, 2}), reflect.ValueOf("a"), reflect.ValueOf("b")})
	fmt.Println(out[0], out[1], out[2])
	fmt.Println(v.Type())
	v, _ = i.Eval("S2")
	m := map[string][]int{"a": {1}}
	out = v.Call([]reflect.Value{reflect.ValueOf(func(k int) (int, error) { return k * 2, errors.New("cb") }), reflect.ValueOf(m)})
	fmt.Println(out[0], out[1], m)
}
