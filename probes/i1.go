package main

import "fmt"

var log []string

func mk(name string, v int) int { log = append(log, name); return v }

var a = mk("a", b+1)
var b = mk("b", f())
var c = mk("c", 1)

func f() int { return d + 1 }

var d = mk("d", c+1)

var e, g = mk("e", 1), mk("g", h)
var h = mk("h", 2)

type T struct{}

func (T) M() int { return k }

var j = mk("j", T{}.M())
var k = mk("k", 5)

func init() { log = append(log, "init1") }
func init() { log = append(log, "init2") }

func main() {
	fmt.Println(log, a, b, c, d, e, g, h, j, k)
}
