package main

import (
	"errors"
	"fmt"
	"sort"
	"strings"
)

type Namer interface{ Name() string }
type Sizer interface{ Size() int }
type NS interface {
	Namer
	Sizer
}

type Base struct{ id int }

func (b Base) Name() string { return fmt.Sprint("base", b.id) }
func (b *Base) SetID(i int)  { b.id = i }
func (b Base) Size() int     { return 1 }

type Mid struct {
	Base
	tag string
}

func (m Mid) Size() int { return 2 + m.Base.Size() }

type Top struct {
	*Mid
	extra int
}

func (t Top) Name() string { return "top:" + t.Mid.Name() }

type PtrOnly struct{ n int }

func (p *PtrOnly) Name() string { p.n++; return fmt.Sprint("ptr", p.n) }

type MyErr struct{ code int }

func (e *MyErr) Error() string { return fmt.Sprint("myerr ", e.code) }

type Str struct{ s string }

func (s Str) String() string { return "<" + s.s + ">" }

type byLen []string

func (b byLen) Len() int           { return len(b) }
func (b byLen) Less(i, j int) bool { return len(b[i]) < len(b[j]) }
func (b byLen) Swap(i, j int)      { b[i], b[j] = b[j], b[i] }

type W struct{ sb *strings.Builder }

func (w W) Write(p []byte) (int, error) { w.sb.WriteString(strings.ToUpper(string(p))); return len(p), nil }

func describe(i interface{}) string {
	switch v := i.(type) {
	case nil:
		return "nil"
	case NS:
		return "NS:" + v.Name() + fmt.Sprint(v.Size())
	case Namer:
		return "Namer:" + v.Name()
	case Sizer:
		return "Sizer"
	case error:
		return "error:" + v.Error()
	case fmt.Stringer:
		return "Stringer:" + v.String()
	case int, int8:
		return fmt.Sprint("int-ish ", v)
	default:
		return fmt.Sprintf("other %v", v)
	}
}

func mayFail(c int) error {
	if c == 0 {
		return nil
	}
	return &MyErr{c}
}

func main() {
	b := Base{1}
	m := Mid{Base{2}, "m"}
	t := Top{&Mid{Base{3}, "t"}, 9}
	p := &PtrOnly{}
	fmt.Println(b.Name(), m.Name(), t.Name(), m.Size(), t.Size(), p.Name())
	m.SetID(20)
	t.SetID(30)
	fmt.Println(m.Name(), t.Name(), t.Mid.Base.id)
	f1 := m.Name
	m.SetID(21)
	f2 := (&m).SetID
	f2(22)
	f3 := func(x Base) string { return x.Name() }
	b.SetID(11)

	fmt.Println(f1(), m.Name(), f3(b))
	var n Namer = m
	var ns NS = t
	var n2 Namer = p
	fmt.Println(n.Name(), ns.Name(), ns.Size(), n2.Name(), n2.Name())
	for _, x := range []interface{}{b, &b, m, &m, t, p, *p, nil, mayFail(0), mayFail(3), Str{"s"}, 7, int8(3), "str", 1.5} {
		fmt.Println(describe(x))
	}
	if s, ok := n.(Sizer); ok {
		fmt.Println("n is Sizer", s.Size())
	}
	if _, ok := n2.(Sizer); !ok {
		fmt.Println("n2 not Sizer")
	}
	mm, ok := n.(Mid)
	fmt.Println(mm.tag, ok)
	_, ok = n.(*Mid)
	fmt.Println(ok)
	var e error = mayFail(5)
	var me *MyErr
	fmt.Println(errors.As(e, &me), me.code, e)
	wrapped := fmt.Errorf("wrap: %w", e)
	fmt.Println(wrapped, errors.Unwrap(wrapped) == e)
	fmt.Println(Str{"x"}, &Str{"y"}, []Str{{"z"}})
	fmt.Printf("%v %s %d\n", Str{"q"}, Str{"r"}, b)
	words := byLen{"ccc", "a", "bb"}
	sort.Sort(words)
	fmt.Println(words)
	var sb strings.Builder
	fmt.Fprintf(W{&sb}, "hello %d", 5)
	fmt.Println(sb.String())
	var nn Namer
	defer func() { fmt.Println("recovered", recover() != nil) }()
	fmt.Println(nn.Name())
}
