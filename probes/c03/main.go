package main

import (
	"fmt"
	"go/ast"
	"go/importer"
	"go/parser"
	"go/token"
	"go/types"

	"github.com/traefik/yaegi/interp"
	"github.com/traefik/yaegi/stdlib"
)

func goCheck(expr string) (string, error) {
	src := "package p\nimport \"fmt\"\nvar _ = fmt.Sprint\nconst big = 1<<100\nvar X = " + expr + "\n"
	fset := token.NewFileSet()
	f, err := parser.ParseFile(fset, "p.go", src, 0)
	if err != nil {
		return "", err
	}
	conf := types.Config{Importer: importer.Default()}
	info := &types.Info{Types: map[ast.Expr]types.TypeAndValue{}}
	_, err = conf.Check("p", fset, []*ast.File{f}, info)
	if err != nil {
		return "", err
	}
	for e, tv := range info.Types {
		if fset.Position(e.Pos()).Line == 5 && fset.Position(e.Pos()).Column == 9 && tv.Value != nil {
			if fset.Position(e.End()).Column == 9+len(expr) {
				return fmt.Sprintf("%v:%s", tv.Type, tv.Value.ExactString()), nil
			}
		}
	}
	return "nonconst", nil
}

func main() {
	exprs := []string{
		`int8(200)`, `int8(127)+1`, `uint8(255)+1`, `uint8(1)<<8`, `int8(-128)/-1`, `-uint8(1)`, `^uint8(0)`, `uint(1)-2`,
		`1<<62*4`, `big>>98`, `big/big`, `int64(big>>40)`, `int32(big>>60)`, `float32(1e39)`, `float64(1e309)`, `1/0`, `1.0/0`, `5%0`, `10/4`, `10/4.0`, `7.0/2`, `'a'+1`, `'a'*1.5`, `"a"+"b"`, `len("héllo")`,
		`1<<3.0`, `1.5<<2`, `uint8(300-50)`, `int8(-129+1)`, `0.1+0.2`, `1e100*1e300/1e200`, `1<<100>>99`, `-1>>1`, `-5/2`, `-5%3`, `5.0%2`,
		`int(3.5)`, `int(3.0)`, `uint(-1)`, `string(rune(65))`, `float32(0.1)`, `float32(16777217)`, `complex(1,2)*complex(3,4)`, `real(complex(1,2))`, `1==1.0`, `"a"<"b"`, `!true`, `true&&false`,
		`^0`, `^uint16(5)`, `1 &^ 3`, `int8(1)<<7`, `int8(1)<<6`, `uint16(1)<<15`, `uint64(1)<<64`, `uint64(1)<<63`, `1<<63`, `int64(1<<63-1)`, `int64(-1<<63)`, `uint32(1<<32)`, `rune(0x110000)`, `byte(256)`, `byte('é')`,
		`1 + 2i`, `(1+2i)/(3+4i)`, `imag(3i)`, `math.MaxInt64 + 1`, `int64(math.MaxInt64)`, `uint64(math.MaxUint64)`, `math.MaxUint64`, `math.Pi`, `float32(math.Pi)`, `math.MaxFloat64*2`, `float64(math.MaxFloat64)*1`,
	}
	for _, e := range exprs {
		i := interp.New(interp.Options{})
		i.Use(stdlib.Symbols)
		i.Eval(`import "math"`)
		v, err := i.Eval(e)
		ys := ""
		if err != nil {
			ys = "ERR(" + err.Error() + ")"
		} else if v.IsValid() {
			ys = fmt.Sprintf("%v:%v", v.Type(), v)
		} else { ys = "invalid" }
		src := e
		g, gerr := goCheck2(src)
		gs := g
		if gerr != nil {
			gs = "ERR(" + gerr.Error() + ")"
		}
		fmt.Printf("%-32s yaegi=%-50s go=%s\n", e, ys, gs)
	}
}

func goCheck2(expr string) (string, error) {
	src := "package p\nimport \"math\"\nvar _ = math.Pi\nconst big = 1<<100\nvar X = " + expr + "\n"
	fset := token.NewFileSet()
	f, err := parser.ParseFile(fset, "p.go", src, 0)
	if err != nil {
		return "", err
	}
	conf := types.Config{Importer: importer.ForCompiler(fset, "source", nil)}
	info := &types.Info{Types: map[ast.Expr]types.TypeAndValue{}, Defs: map[*ast.Ident]types.Object{}}
	pkg, err := conf.Check("p", fset, []*ast.File{f}, info)
	if err != nil {
		return "", err
	}
	x := pkg.Scope().Lookup("X")
	vs := f.Decls[len(f.Decls)-1].(*ast.GenDecl).Specs[0].(*ast.ValueSpec)
	tv := info.Types[vs.Values[0]]
	val := "nonconst"
	if tv.Value != nil {
		val = tv.Value.ExactString()
	}
	return fmt.Sprintf("%v:%s", x.Type(), val), nil
}
