package main

import "fmt"

type P struct {
	X, Y int
}
type S struct {
	A  [3]int
	Sl []int
	M  map[string]int
	Pt *P
	In P
}

func mod(s S) S      { s.A[0] = 100; s.Sl[0] = 100; s.M["k"] = 100; s.Pt.X = 100; s.In.X = 100; return s }
func modp(s *S)      { s.A[1] = 200; s.In.Y = 200 }
func arr(a [3]int) [3]int { a[2] = 9; return a }

func main() {
	s := S{A: [3]int{1, 2, 3}, Sl: []int{1, 2, 3}, M: map[string]int{"k": 1}, Pt: &P{1, 2}, In: P{3, 4}}
	t := s
	t.A[0] = 50
	t.In.X = 51
	t.Sl[1] = 52
	fmt.Println(1, s.A, s.Sl, s.M, s.In, *s.Pt, t.A, t.Sl, t.In, *t.Pt)
	u := mod(s)
	fmt.Println(2, s.A, s.Sl, s.M, s.In, *s.Pt, u.A, u.Sl, u.In, *u.Pt)
	modp(&s)
	fmt.Println(3, s.A, s.In)
	a := s.A
	b := arr(a)
	fmt.Println(4, a, b, s.A)
	for i, v := range a {
		a[2] = 77
		fmt.Println(5, i, v)
	}
	for i, v := range s.Sl {
		s.Sl[2] = 88
		fmt.Println(6, i, v)
	}
	a[2] = 66
	sl := s.Sl[:2]
	sl = append(sl, 1000)
	fmt.Println(8, sl, s.Sl, len(sl), cap(sl))
	sl2 := s.Sl[:2:2]
	sl2 = append(sl2, 2000)
	fmt.Println(9, sl2, s.Sl, len(sl2), cap(sl2))
	x, y := 1, 2
	x, y = y, x
	fmt.Println(10, x, y)
	i := 0
	arr2 := []int{10, 20, 30}
	i, arr2[i] = 2, 99
	fmt.Println(11, i, arr2)
	arr2[0], arr2[1], arr2[2] = arr2[2], arr2[0], arr2[1]
	fmt.Println(12, arr2)
	ps := []P{{1, 2}, {3, 4}}
	for _, p := range ps {
		p.X = 99
	}
	for i := range ps {
		ps[i].Y *= 2
	}
	fmt.Println(13, ps)
	mp := map[string]P{"a": {1, 2}}
	p := mp["a"]
	p.X = 5
	fmt.Println(14, mp, p)
	mpp := map[string]*P{"a": {1, 2}}
	mpp["a"].X = 5
	fmt.Println(15, *mpp["a"])
	aa := [2][2]int{{1, 2}, {3, 4}}
	bb := aa
	bb[0][0] = 9
	row := aa[1]
	row[0] = 8
	fmt.Println(16, aa, bb, row)
	fn := func() { a[0] = 555; x = 556 }
	a2 := a
	fn()
	fmt.Println(17, a, a2, x)
	var iface interface{} = a
	a[1] = 444
	fmt.Println(18, iface, a)
	st := struct{ P; Z []int }{P{1, 2}, []int{1}}
	st2 := st
	st2.X = 7
	st2.Z[0] = 7
	fmt.Println(19, st, st2)
	n := copy(s.Sl, []int{7, 8, 9, 10})
	fmt.Println(20, n, s.Sl)
	delete(s.M, "k")
	_, ok := s.M["k"]
	fmt.Println(21, ok, len(s.M), t.M)
	pp := &s.In
	pp.X = 1234
	q := *pp
	q.X = 1
	fmt.Println(22, s.In, q)
	pe := &s.A[1]
	*pe = 4321
	*pe += 1
	fmt.Println(23, s.A)
	ss := [][]int{{1}, {2}}
	s0 := ss[0]
	ss[0] = append(ss[0], 5)
	s0[0] = 42
	fmt.Println(24, ss, s0)
}
