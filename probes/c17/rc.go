package main

import "io"

type ioReadCloser = io.ReadCloser
type nopCloser struct{ io.Reader }

func (nopCloser) Close() error { return nil }
