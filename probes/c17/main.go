package main

import (
	"fmt"
	"go/build"
	"strings"
	"testing/fstest"

	"github.com/traefik/yaegi/interp"
)

func try(name, hdr string, tags []string) {
	src := hdr + "package foo\n\nvar X = 1\n"
	fsys := fstest.MapFS{
		"src/foo/" + name: {Data: []byte(src)},
		"src/foo/base.go": {Data: []byte("package foo\n\nvar Base = 1\n")},
	}
	i := interp.New(interp.Options{GoPath: ".", SourcecodeFilesystem: fsys, BuildTags: tags})
	_, err := i.Eval(`import "foo"`)
	if err != nil {
		fmt.Println("import err", err)
		return
	}
	_, err = i.Eval(`foo.X`)
	got := err == nil
	c2 := build.Default
	c2.BuildTags = tags
	c2.OpenFile = func(p string) (rc ioReadCloser, err error) { return nopCloser{strings.NewReader(src)}, nil }
	want, err2 := c2.MatchFile("/d", name)
	fmt.Printf("name=%-22q hdr=%-40q tags=%v yaegi=%v go=%v %v %s\n", name, hdr, tags, got, want, err2, map[bool]string{true: "", false: "  <== DIFF"}[got == want])
}

func main() {
	try("x.go", "", nil)
	try("x.go", "//go:build ignore\n\n", nil)
	try("x.go", "//go:build linux\n\n", nil)
	try("x.go", "//go:build !linux\n\n", nil)
	try("x.go", "// +build !linux\n\n", nil)
	try("x.go", "// +build !linux\n", nil) // no blank line: attached to package → ignored by go
	try("x.go", "//go:build foo || bar\n\n", []string{"bar"})
	try("x.go", "// +build foo bar\n\n", []string{"bar"})
	try("x.go", "// +build unix\n\n", nil)
	try("x.go", "// +build gc\n\n", nil)
	try("x.go", "// +build cgo\n\n", nil)
	try("x.go", "// +build go1.23\n\n", nil)
	try("x.go", "// +build go1.24\n\n", nil)
	try("x.go", "// +build go1.9\n\n", nil)
	try("x.go", "// +build !go1.9\n\n", nil)
	try("x_linux.go", "", nil)
	try("x_windows.go", "", nil)
	try("x_linux_arm.go", "", nil)
	try("x_windows_amd64.go", "", nil)
	try("x_amd64.go", "", nil)
	try("x_arm_linux.go", "", nil)
	try("x_unix.go", "", nil)
	try("x_riscv64.go", "", nil)
	try("x_freebsd_riscv64.go", "", nil)
	try("x_hurd.go", "", nil)
	try("x_zos.go", "", nil)
	try("x_nacl.go", "", nil)
	try("linux.go", "", nil)
	try("windows.go", "", nil)
	try("x_android.go", "", nil)
	try("x_test.go", "", nil)
	try("x_linux_test.go", "", nil)
	try("x_windows_test.go", "", nil)
	try("x_amd64p32.go", "", nil)
	try("x_sparc64.go", "", nil)
	try("x_foo_linux.go", "", nil)
	try("windows_amd64.go", "", nil)
	try("_amd64.go", "", nil)
}
