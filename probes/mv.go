package main

import "fmt"

type Pt struct{ X, Y int }

func S1(a int8, p Pt, xs ...string) (Pt, int, error) { p.X += int(a); return p, len(xs), nil }

func main() {
	p, n, err := S1(5, Pt{1, 2}, "a", "b")
	fmt.Println(p, n, err)
}
