package main

import "fmt"

func T(n int) { fmt.Println("L", n) }

func fib(n int) int {
	T(8)
	if n < 2 {
		T(10)
		return n
	}
	T(13)
	return fib(n-1) + fib(n-2)
}

func main() {
	T(18)
	s := 0
	T(20)
	for i := 0; i < 3; i++ {
		T(22)
		s += fib(i + 1)
	}
	T(25)
	defer func() {
		T(27)
		fmt.Println("recovered", recover())
	}()
	T(30)
	var m map[string]int
	T(32)
	m["a"] = s
	T(34)
}
