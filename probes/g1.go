package main

import (
	"fmt"
	"sync"
)

func main() {
	var wg sync.WaitGroup
	var mu sync.Mutex
	total := 0
	res := make(chan int, 64)
	for i := 0; i < 32; i++ {
		wg.Add(1)
		go func(k int) {
			defer wg.Done()
			s := 0
			for j := 0; j < 200; j++ {
				s += j * k
			}
			mu.Lock()
			total += s
			mu.Unlock()
			res <- s
		}(i)
	}
	wg.Wait()
	close(res)
	sum := 0
	for v := range res {
		sum += v
	}
	fmt.Println(total, sum)
}
