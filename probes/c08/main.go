package main

import (
	"bytes"
	"fmt"
	"sync"

	"github.com/traefik/yaegi/interp"
	"github.com/traefik/yaegi/stdlib"
)

const src = `package main

import "sort"

type Acc struct{ sum int; seen map[int]bool }

func (a *Acc) add(v int) { a.sum += v; a.seen[v] = true }

func Work(n int) (r int) {
	defer func() { r += 1 }()
	a := &Acc{seen: map[int]bool{}}
	xs := []int{}
	for i := 0; i < n%17+3; i++ {
		xs = append(xs, (i*7+n)%13)
	}
	sort.Slice(xs, func(i, j int) bool { return xs[i] < xs[j] })
	f := func(k int) int { return k*2 + n }
	for _, x := range xs {
		a.add(f(x))
	}
	if n > 0 && n%5 == 0 {
		return a.sum + Work(n-1)
	}
	return a.sum + len(a.seen)
}
`

func model(n int) int {
	// computed by a sequential run of the same interpreter below
	return 0
}

func main() {
	i := interp.New(interp.Options{})
	i.Use(stdlib.Symbols)
	if _, err := i.Eval(src); err != nil {
		panic(err)
	}
	v, err := i.Eval("Work")
	if err != nil {
		panic(err)
	}
	work := v.Interface().(func(int) int)
	want := map[int]int{}
	for n := 0; n < 64; n++ {
		want[n] = work(n)
	}
	var wg sync.WaitGroup
	bad := 0
	var mu sync.Mutex
	for g := 0; g < 32; g++ {
		wg.Add(1)
		go func(g int) {
			defer wg.Done()
			for r := 0; r < 50; r++ {
				n := (g*7 + r) % 64
				if got := work(n); got != want[n] {
					mu.Lock()
					bad++
					mu.Unlock()
				}
			}
		}(g)
	}
	wg.Wait()
	fmt.Println("host-concurrent bad:", bad)

	// parallel interpreters
	var outs [8]bytes.Buffer
	for k := 0; k < 8; k++ {
		wg.Add(1)
		go func(k int) {
			defer wg.Done()
			j := interp.New(interp.Options{Stdout: &outs[k]})
			j.Use(stdlib.Symbols)
			j.Eval(src)
			j.Eval(fmt.Sprintf(`import "fmt"
func main() { fmt.Println(Work(%d)) }`, k*5))
		}(k)
	}
	wg.Wait()
	for k := 0; k < 8; k++ {
		if outs[k].String() != fmt.Sprintln(want[k*5]) {
			fmt.Println("parallel interp mismatch", k, outs[k].String(), want[k*5])
		}
	}
	fmt.Println("done")
}
