package main

import (
	"context"
	"fmt"
	"time"

	"github.com/traefik/yaegi/interp"
	"github.com/traefik/yaegi/stdlib"
)

func main() {
	i := interp.New(interp.Options{})
	i.Use(stdlib.Symbols)
	must := func(s string) {
		if _, err := i.Eval(s); err != nil {
			panic(err)
		}
	}
	must(`func Add(a, b int) int { return a + b }`)
	must(`type T struct{ N int }
func (t T) Get() int { return t.N * 2 }`)
	must(`var clo = func(x int) int { return x + 100 }`)
	must(`func mk(k int) func(int) int { return func(x int) int { return x + k } }
var clo2 = mk(7)`)
	must(`var mv = T{21}.Get`)
	v, _ := i.Eval(`Add`)
	add := v.Interface().(func(int, int) int)
	v, _ = i.Eval(`clo`)
	clo := v.Interface().(func(int) int)
	v, _ = i.Eval(`clo2`)
	clo2 := v.Interface().(func(int) int)
	show := func(tag string) {
		fmt.Println(tag, "host add", add(1, 2), "host clo", clo(1), "host clo2", clo2(1))
		for _, e := range []string{`Add(1,2)`, `clo(1)`, `clo2(1)`, `T{3}.Get()`, `mv()`} {
			r, err := i.Eval(e)
			fmt.Println(tag, e, "=>", r, err)
		}
	}
	show("before")
	ctx, cancel := context.WithTimeout(context.Background(), 50*time.Millisecond)
	_, err := i.EvalWithContext(ctx, `for {}`)
	cancel()
	fmt.Println("cancelled:", err)
	fmt.Println("after-host-first", "host add", add(1, 2), "host clo", clo(1), "host clo2", clo2(1))
	show("after")
}
