package main

import (
	"bytes"
	"fmt"
	"os"

	"github.com/traefik/yaegi/extract"
)

func main() {
	os.Chdir("/tmp/ex/src/rnd.test")
	e := extract.Extractor{Dest: "symtab"}
	var b bytes.Buffer
	ip, err := e.Extract("./pk", "", &b)
	fmt.Println(ip, err)
	fmt.Println(b.String())
}
