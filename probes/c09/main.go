package main

import (
	"context"
	"fmt"
	"os"
	"reflect"
	"runtime"
	"runtime/pprof"
	"sync/atomic"
	"time"

	"github.com/traefik/yaegi/interp"
	"github.com/traefik/yaegi/stdlib"
)

var ticks int64

func tick() { atomic.AddInt64(&ticks, 1) }

var progs = map[string]string{
	"busy":     `for { host.Tick() }`,
	"recvblock": `ch := make(chan int); go func(){ for { host.Tick(); <-ch; host.Tick() } }(); for { host.Tick() }`,
	"sendblock": `ch := make(chan int); go func(){ for { host.Tick(); ch <- 1; host.Tick() } }(); for { host.Tick() }`,
	"select":   `a, b := make(chan int), make(chan int); go func(){ for { select { case <-a: host.Tick(); case b <- 1: host.Tick() } } }(); for { host.Tick() }`,
	"rangechan": `ch := make(chan int); go func(){ for v := range ch { _ = v; host.Tick() }; host.Tick() }(); for { host.Tick() }`,
	"namedfn": `go worker(); for { host.Tick() }`,
	"recvmain": `ch := make(chan int); <-ch; host.Tick()`,
	"oldclosure": `go blocker(); for { host.Tick() }`,
	"wg": `var wg sync.WaitGroup; wg.Add(1); go func(){ defer wg.Done(); for { host.Tick() } }(); wg.Wait(); host.Tick()`,
	"mutex": `var mu sync.Mutex; go func(){ for { mu.Lock(); host.Tick(); mu.Unlock() } }(); for { mu.Lock(); host.Tick(); mu.Unlock() }`,
	"sleep": `go func(){ for { time.Sleep(time.Millisecond); host.Tick() } }(); for { host.Tick() }`,
	"recur": `var f func(n int) int; f = func(n int) int { host.Tick(); if n == 0 { return 0 }; return f(n-1) + 1 }; for { f(50) }`,
}

func main() {
	for name, p := range progs {
		base := runtime.NumGoroutine()
		i := interp.New(interp.Options{})
		i.Use(stdlib.Symbols)
		i.Use(interp.Exports{"host/host": {"Tick": reflect.ValueOf(tick)}})
		i.ImportUsed()
		if _, err := i.Eval(`func worker() { for { host.Tick() } }
var bch = make(chan int)
var blocker = func() { for { host.Tick(); <-bch } }`); err != nil {
			panic(err)
		}
		ctx, cancel := context.WithCancel(context.Background())
		go func() { time.Sleep(30 * time.Millisecond); cancel() }()
		t0 := time.Now()
		_, err := i.EvalWithContext(ctx, p)
		lat := time.Since(t0) - 30*time.Millisecond
		t1 := atomic.LoadInt64(&ticks)
		time.Sleep(100 * time.Millisecond)
		t2 := atomic.LoadInt64(&ticks)
		time.Sleep(100 * time.Millisecond)
		t3 := atomic.LoadInt64(&ticks)
		ng := runtime.NumGoroutine()
		fmt.Printf("%-10s err=%v latency=%v ticks-after-return=%d then=%d goroutines-leaked=%d\n", name, err, lat, t2-t1, t3-t2, ng-base)
		if ng-base > 0 && os.Getenv("DUMP") == name {
			pprof.Lookup("goroutine").WriteTo(os.Stdout, 1)
		}
	}
}
