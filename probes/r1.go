package main

import (
	"fmt"
	"log"
)

func main() {
	defer func() { fmt.Println("recovered:", recover()) }()
	l := log.Default()
	l.Fatal("boom")
	fmt.Println("after")
}
