package main

import (
	"fmt"
	"sync"
)

func worker(id int, in chan int, out chan int, quit chan bool, wg *sync.WaitGroup) {
	defer wg.Done()
	for {
		select {
		case v := <-in:
			out <- v*1000 + id
		case <-quit:
			return
		}
	}
}

func main() {
	const W = 8
	var wg sync.WaitGroup
	ins := make([]chan int, W)
	outs := make([]chan int, W)
	quit := make(chan bool)
	for i := 0; i < W; i++ {
		ins[i] = make(chan int)
		outs[i] = make(chan int, 1)
		wg.Add(1)
		go worker(i, ins[i], outs[i], quit, &wg)
	}
	bad := 0
	for r := 0; r < 200; r++ {
		for i := 0; i < W; i++ {
			ins[i] <- r
		}
		for i := 0; i < W; i++ {
			v := <-outs[i]
			if v != r*1000+i {
				bad++
			}
		}
	}
	close(quit)
	wg.Wait()
	fmt.Println("bad", bad)
}
