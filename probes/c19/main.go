package main

import (
	"bytes"
	"context"
	"fmt"
	"os"
	"strings"

	"github.com/traefik/yaegi/interp"
	"github.com/traefik/yaegi/stdlib"
)

func main() {
	src, _ := os.ReadFile(os.Args[1])
	var out bytes.Buffer
	i := interp.New(interp.Options{Stdout: &out})
	i.Use(stdlib.Symbols)
	prog, err := i.Compile(string(src))
	if err != nil {
		panic(err)
	}
	var dbg *interp.Debugger
	var evs []string
	step := 0
	dbg = i.Debug(context.Background(), prog, func(e *interp.DebugEvent) {
		r := e.Reason()
		switch r {
		case interp.DebugBreak, interp.DebugEntry, interp.DebugStepInto, interp.DebugStepOver, interp.DebugStepOut:
			fr := e.Frames(0, 1)
			line := 0
			if len(fr) > 0 {
				line = fr[0].Position().Line
			}
			evs = append(evs, fmt.Sprintf("%d@%d", r, line))
			step++
			mode := step % 4
			go func() {
				var err error
				switch {
				case os.Getenv("MIX") == "" || mode == 0:
					err = dbg.Continue(e.GoRoutine())
				case mode == 1:
					err = dbg.Step(e.GoRoutine(), interp.DebugStepOver)
				case mode == 2:
					err = dbg.Step(e.GoRoutine(), interp.DebugStepInto)
				default:
					err = dbg.Step(e.GoRoutine(), interp.DebugStepOut)
				}
				if err != nil {
					fmt.Println("resume err", err)
				}
			}()
		default:
			evs = append(evs, fmt.Sprintf("ev%d", r))
		}
	}, nil)
	var reqs []interp.BreakpointRequest
	for _, l := range []int{8, 10, 13, 18, 20, 22, 25, 27, 30, 32, 34} {
		reqs = append(reqs, interp.LineBreakpoint(l))
	}
	bps := dbg.SetBreakpoints(interp.ProgramBreakpointTarget(prog), reqs...)
	for _, b := range bps {
		fmt.Print(b.Valid, ":", b.Position.Line, " ")
	}
	fmt.Println()
	dbg.Continue(0)
	res, err := dbg.Wait()
	fmt.Println("res", res.IsValid(), "err", err)
	fmt.Println(strings.Join(evs, " "))
	fmt.Println(strings.ReplaceAll(out.String(), "\n", " "))
}
