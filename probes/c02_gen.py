import itertools, sys
kinds = {
 'int8': [-128,-127,-1,0,1,2,7,8,63,64,126,127],
 'uint8': [0,1,2,7,8,9,127,128,254,255],
 'int16': [-32768,-1,0,1,255,256,32767],
 'uint16': [0,1,255,256,65535],
 'int32': [-2147483648,-1,0,1,65536,2147483647],
 'uint32': [0,1,31,32,4294967295],
 'int64': [-9223372036854775808,-1,0,1,63,64,9223372036854775807],
 'uint64': [0,1,63,64,18446744073709551615],
 'int': [-9223372036854775808,-1,0,1,3,9223372036854775807],
 'uint': [0,1,3,18446744073709551615],
 'uintptr': [0,1,3,18446744073709551615],
 'float32': ['-1.5','0.0','1.0','3.4e38','1e-45','16777217.0'],
 'float64': ['-1.5','0.0','1.0','1.7e308','5e-324','0.1'],
}
arith = ['+','-','*','/','%','&','|','^','&^']
cmp_ = ['==','!=','<','<=','>','>=']
out = ['package main','','import "fmt"','']
fn = 0
body = []
def isf(k): return k.startswith('float')
for k, vals in kinds.items():
    for op in arith + cmp_:
        if isf(k) and op in ['%','&','|','^','&^']: continue
        fn += 1
        name = f'f{fn}'
        out.append(f'func {name}() {{')
        out.append(f'\tdefer func() {{ if r := recover(); r != nil {{ fmt.Println("{name} {k} {op} PANIC") }} }}()')
        out.append(f'\tvals := []{k}{{{", ".join(str(v) for v in vals)}}}')
        # var op var
        out.append('\tfor _, a := range vals { for _, b := range vals {')
        out.append(f'\t\tfunc() {{ defer func() {{ if r := recover(); r != nil {{ fmt.Println("{name} vv", a, b, "panic") }} }}(); r := a {op} b; fmt.Println("{name} vv", a, b, r) }}()')
        out.append('\t}}')
        # var op const  and const op var
        for c in vals:
            cs = f'{k}({c})' if not (isinstance(c,str)) else f'{k}({c})'
            lit = str(c)
            if op in ['/','%'] and (c == 0 or c == '0.0'):
                continue
            out.append(f'\tfor _, a := range vals {{ func() {{ defer func() {{ if r := recover(); r != nil {{ fmt.Println("{name} vc", a, "{lit}", "panic") }} }}(); r := a {op} {lit}; fmt.Println("{name} vc", a, "{lit}", r) }}() }}')
        for c in vals:
            lit = str(c)
            out.append(f'\tfor _, b := range vals {{ func() {{ defer func() {{ if r := recover(); r != nil {{ fmt.Println("{name} cv", "{lit}", b, "panic") }} }}(); r := {lit} {op} b; fmt.Println("{name} cv", "{lit}", b, r) }}() }}')
        # opassign
        if op in arith:
            out.append('\tfor _, a := range vals { for _, b := range vals {')
            out.append(f'\t\tfunc() {{ defer func() {{ if r := recover(); r != nil {{ fmt.Println("{name} oa", a, b, "panic") }} }}(); r := a; r {op}= b; fmt.Println("{name} oa", a, b, r) }}()')
            out.append('\t}}')
        # branch cond
        if op in cmp_:
            out.append('\tfor _, a := range vals { for _, b := range vals {')
            out.append(f'\t\tif a {op} b {{ fmt.Println("{name} if", a, b, "T") }} else {{ fmt.Println("{name} if", a, b, "F") }}')
            out.append('\t}}')
        out.append('}')
        body.append(f'\t{name}()')
    # shifts
    if not isf(k):
        for op in ['<<','>>']:
            for sk in ['uint8','int','uint64','int8']:
                fn += 1
                name = f'f{fn}'
                out.append(f'func {name}() {{')
                out.append(f'\tvals := []{k}{{{", ".join(str(v) for v in vals)}}}')
                sv = [0,1,7,8,31,32,63,64,65,100] + ([-1] if sk.startswith('int') else [])
                out.append(f'\tsh := []{sk}{{{", ".join(str(v) for v in sv)}}}')
                out.append('\tfor _, a := range vals { for _, b := range sh {')
                out.append(f'\t\tfunc() {{ defer func() {{ if r := recover(); r != nil {{ fmt.Println("{name} {k}{op}{sk} vv", a, b, "panic") }} }}(); r := a {op} b; fmt.Println("{name} {k}{op}{sk} vv", a, b, r) }}()')
                out.append('\t}}')
                for c in [0,1,7,8,31,32,63,64,65]:
                    out.append(f'\tfor _, a := range vals {{ r := a {op} {c}; fmt.Println("{name} {k}{op}{sk} vc", a, {c}, r) }}')
                out.append('}')
                body.append(f'\t{name}()')
out.append('func main() {')
out += body
out.append('}')
print('\n'.join(out))
