package main

import (
	"bytes"
	"fmt"

	"github.com/traefik/yaegi/interp"
	"github.com/traefik/yaegi/stdlib"
)

func run(chunks []string) (string, error) {
	var out bytes.Buffer
	i := interp.New(interp.Options{Stdout: &out})
	i.Use(stdlib.Symbols)
	for _, c := range chunks {
		if _, err := i.Eval(c); err != nil {
			return out.String(), fmt.Errorf("chunk %q: %w", c, err)
		}
	}
	return out.String(), nil
}

func main() {
	decls := []string{
		`import "fmt"`,
		`type T struct{ N int }`,
		`func (t *T) Inc() { t.N++ }`,
		`var g = 10`,
		`const K = 3`,
		`func add(a, b int) int { return a + b + K }`,
		`var t = &T{1}`,
		`var clo = func() int { g++; return g }`,
	}
	stmts := []string{
		`t.Inc()`,
		`fmt.Println(add(g, t.N))`,
		`x := clo() + clo()`,
		`fmt.Println(x, g)`,
		`for i := 0; i < 2; i++ { t.Inc(); fmt.Println(i, t.N) }`,
		`func add(a, b int) int { return a * b }`,
		`fmt.Println(add(g, t.N), clo())`,
		`y := x`,
		`x, z := 5, 6`,
		`fmt.Println(x, y, z)`,
	}
	whole := "package main\n"
	for _, d := range decls[:len(decls)] {
		whole += d + "\n"
	}
	all := append(append([]string{}, decls...), stmts...)
	o, err := run(all)
	fmt.Printf("piecewise: %q %v\n", o, err)
	// two chunks
	a, b := "", ""
	for _, d := range decls {
		a += d + "\n"
	}
	for _, s := range stmts {
		b += s + "\n"
	}
	o, err = run([]string{a, b})
	fmt.Printf("two chunks: %q %v\n", o, err)
	o, err = run([]string{a + b})
	fmt.Printf("one chunk: %q %v\n", o, err)
}
