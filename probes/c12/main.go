package main

import (
	"bytes"
	"fmt"
	"strings"

	"github.com/traefik/yaegi/interp"
	"github.com/traefik/yaegi/stdlib"
)

const base = `package main

import "fmt"

type Shape interface { Area() int }
type Sq struct{ S int }
func (s Sq) Area() int { return s.S * s.S }
type Pt struct{ X, Y int }

func two() (int, string) { return 1, "a" }
func take(a int, b string) int { return a + len(b) }
func variadic(p string, xs ...int) int { return len(xs) }

var G = initG()
func initG() int { fmt.Println("MARK-init"); return 1 }

func main() {
	fmt.Println("MARK-main")
	var i int = 1
	var s string = "x"
	var f float64 = 1.5
	var sh Shape = Sq{2}
	arr := [3]int{1, 2, 3}
	sl := []int{1, 2}
	m := map[string]int{"a": 1}
	ch := make(chan int, 1)
	var ro <-chan int = ch
	var so chan<- int = ch
	p := Pt{1, 2}
	_, _, _, _, _, _, _, _, _, _, _ = i, s, f, sh, arr, sl, m, ch, ro, so, p
	//MUT
}
`

var muts = []string{
	`i = s`, `i = f`, `s = i`, `i = "str"`, `i += s`, `_ = i + s`, `_ = i + f`, `_ = s - s`, `_ = f % f`, `_ = i << f`, `_ = !i`, `_ = -s`, `_ = i && i`,
	`_ = i == s`, `_ = sl == sl`, `_ = m == m`, `_ = p < p`,
	`take(1)`, `take(1, "a", 2)`, `take("a", 1)`, `take(two())`, `i = two()`, `i, s, f = two()`, `variadic(1, 2)`, `variadic("a", "b")`,
	`_ = undefinedName`, `_ = p.Z`, `p.Foo()`, `_ = fmt.Nope`, `sh = p`, `var _ Shape = Pt{}`, `_ = sh.(Pt)`,
	`var _ int8 = 200`, `var _ uint = -1`, `const c int8 = 128; _ = c`,
	`for i { }`, `if i { }`, `for s := range 5.5 { _ = s }`,
	`_ = Pt{1}`, `_ = Pt{1, 2, 3}`, `_ = Pt{Z: 1}`, `_ = Pt{X: 1, 2}`, `_ = [2]int{1, 2, 3}`, `_ = []int{"a"}`, `_ = map[string]int{1: 1}`, `_ = map[string]int{"a": "b"}`, `_ = [3]int{5: 1}`,
	`_ = len(i)`, `_ = cap(m)`, `_ = append(i, 1)`, `_ = append(sl, "a")`, `copy(i, sl)`, `delete(sl, 1)`, `close(i)`, `_ = make(int)`, `_ = new(1)`, `panic()`, `_ = len()`, `close(ro)`,
	`ro <- 1`, `_ = <-so`, `_ = <-i`, `i <- 1`,
	`_ = int(s)`, `_ = string(f)`, `_ = Pt(i)`, `_ = []int(s)`, `_ = Shape(i)`,
	`_ = arr[5]`, `_ = arr[-1]`, `_ = sl["a"]`, `_ = m[1]`, `_ = i[0]`, `_ = sl[2:1]`, `_ = s.x`, `i()`, `_ = *i`, `_ = &1`,
	`return 1`, `var x int; var x int`, `break`, `continue`, `goto nowhere`, `i := 1`, `x := 1; x := 2`, `_ = i.(int)`, `switch i { case "a": }`, `switch i { case 1: case 1: }`,
	`var u unknownT`, `_ = sl.len`, `i++; s++`, `defer i`, `go i`, `_ = func() int { }`, `_ = func() int { return "s" }()`, `_ = func() (int, int) { return 1 }`,
}

func main() {
	acc := 0
	for _, m := range muts {
		src := strings.Replace(base, "//MUT", m, 1)
		var out bytes.Buffer
		i := interp.New(interp.Options{Stdout: &out, Stderr: &out})
		i.Use(stdlib.Symbols)
		var err error
		func() {
			defer func() {
				if r := recover(); r != nil {
					err = fmt.Errorf("HOST PANIC %v", r)
				}
			}()
			_, err = i.Eval(src)
		}()
		ran := strings.Contains(out.String(), "MARK")
		status := "rejected"
		if err == nil {
			status = "ACCEPTED"
			acc++
		} else if ran {
			status = "RAN-THEN-ERR"
			acc++
		}
		if status != "rejected" || strings.Contains(err.Error(), "HOST PANIC") {
			fmt.Printf("%-45s %s %v\n", m, status, err)
		}
	}
	fmt.Println("accepted", acc, "of", len(muts))
}
