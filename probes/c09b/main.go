package main

import (
	"bytes"
	"context"
	"fmt"
	"os"
	"reflect"
	"runtime"
	"runtime/pprof"
	"strings"
	"sync"
	"sync/atomic"
	"time"

	"github.com/traefik/yaegi/interp"
	"github.com/traefik/yaegi/stdlib"
)

type mon struct {
	count   int64
	k       int64
	freeze  atomic.Bool
	post    atomic.Bool
	reached chan struct{}
	once    sync.Once
	gate    chan struct{} // closed to release
	mu      sync.Mutex
	postOps map[string]int
	ticks   map[string]int
}

func gid() string {
	var b [64]byte
	n := runtime.Stack(b[:], false)
	s := string(b[:n])
	s = strings.TrimPrefix(s, "goroutine ")
	return s[:strings.IndexByte(s, ' ')]
}

func (m *mon) step(ev interp.VerifStep) {
	c := atomic.AddInt64(&m.count, 1)
	if c == m.k {
		m.freeze.Store(true)
		m.once.Do(func() { close(m.reached) })
	}
	if m.freeze.Load() {
		<-m.gate
	}
	if m.post.Load() {
		g := gid()
		m.mu.Lock()
		m.postOps[g]++
		m.mu.Unlock()
	}
}

func (m *mon) tick() {
	if m.post.Load() {
		g := gid()
		m.mu.Lock()
		m.ticks[g]++
		m.mu.Unlock()
	}
}

var progs = map[string]string{
	"busy":      `func main() { for { host.Tick() } }`,
	"recvblock": `func main() { ch := make(chan int); go func(){ for { host.Tick(); <-ch; host.Tick() } }(); for { host.Tick() } }`,
	"select":    `func main() { a, b := make(chan int), make(chan int); go func(){ for { select { case <-a: host.Tick(); case b <- 1: host.Tick() } } }(); for { host.Tick() } }`,
	"rangechan": `func main() { ch := make(chan int); go func(){ for v := range ch { _ = v; host.Tick() }; host.Tick() }(); for { host.Tick() } }`,
	"namedfn":   `func main() { go worker(); go worker(); for { host.Tick() } }`,
	"oldclosure": `func main() { go blocker(); for { host.Tick() } }`,
	"recur":     `func f(n int) int { host.Tick(); if n == 0 { return 0 }; return f(n-1) + 1 }
func main() { for { f(5) } }`,
	"closurecall": `func main() { g := func(x int) int { host.Tick(); return x + 1 }; for { g(1) } }`,
}

func runOne(name, src string, k int64) string {
	base := runtime.NumGoroutine()
	m := &mon{k: k, reached: make(chan struct{}), gate: make(chan struct{}), postOps: map[string]int{}, ticks: map[string]int{}}
	var out bytes.Buffer
	i := interp.New(interp.Options{Stdout: &out, Stderr: &out})
	i.Use(stdlib.Symbols)
	i.Use(interp.Exports{"host/host": {"Tick": reflect.ValueOf(m.tick)}})
	if _, err := i.Eval(`package main
import "host"
func worker() { for { host.Tick() } }
var bch = make(chan int)
var blocker = func() { for { host.Tick(); <-bch } }
`); err != nil {
		return "setup err " + err.Error()
	}
	interp.VerifSetStep(m.step)
	defer interp.VerifSetStep(nil)
	ctx, cancel := context.WithCancel(context.Background())
	ret := make(chan error, 1)
	go func() { _, err := i.EvalWithContext(ctx, "package main\n"+src); ret <- err }()
	select {
	case <-m.reached:
	case err := <-ret:
		cancel()
		return fmt.Sprintf("finished before k: %v", err)
	case <-time.After(10 * time.Second):
		cancel()
		return "k never reached"
	}
	cancel()
	var err error
	select {
	case err = <-ret:
	case <-time.After(10 * time.Second):
		return "VIOLATION: EvalWithContext did not return while frozen"
	}
	m.post.Store(true)
	close(m.gate)
	// wait for quiescence
	leaked := 0
	for t := 0; t < 200; t++ {
		time.Sleep(10 * time.Millisecond)
		if leaked = runtime.NumGoroutine() - base; leaked <= 0 {
			break
		}
	}
	maxOps, maxTicks := 0, 0
	m.mu.Lock()
	for _, v := range m.postOps {
		if v > maxOps {
			maxOps = v
		}
	}
	for _, v := range m.ticks {
		if v > maxTicks {
			maxTicks = v
		}
	}
	ng := len(m.postOps)
	m.mu.Unlock()
	res := fmt.Sprintf("err=%v postGoroutines=%d maxPostOps=%d maxPostTicks=%d leaked=%d", err, ng, maxOps, maxTicks, leaked)
	if leaked > 0 && os.Getenv("DUMP") != "" {
		var b bytes.Buffer
		pprof.Lookup("goroutine").WriteTo(&b, 1)
		res += "\n" + b.String()
	}
	return res
}

func main() {
	for _, name := range []string{"busy", "recvblock", "select", "rangechan", "namedfn", "oldclosure", "recur", "closurecall"} {
		for _, k := range []int64{1, 2, 3, 5, 8, 13, 21, 40, 77} {
			fmt.Printf("%-12s k=%-3d %s\n", name, k, runOne(name, progs[name], k))
		}
	}
}
