package main

import "fmt"

type T struct{ n int }

func (t *T) Close() { fmt.Println("close", t.n) }

func helper() interface{} { return recover() }

func a() (r int) {
	defer func() {
		if e := recover(); e != nil {
			fmt.Println("recovered a:", e)
			r = 42
		}
	}()
	b()
	return 1
}

func b() {
	defer fmt.Println("b deferred 1")
	defer func() {
		fmt.Println("b deferred 2, helper recover:", helper())
	}()
	for i := 0; i < 3; i++ {
		defer func(k int) { fmt.Println("loop defer", k, i) }(i)
	}
	t := &T{7}
	defer t.Close()
	x := 5
	defer fmt.Println("x at defer", x)
	x = 6
	var m map[string]int
	m["a"] = 1
	fmt.Println("not reached")
}

func c() {
	defer func() {
		defer func() {
			fmt.Println("nested recover:", recover())
		}()
		panic("second")
	}()
	panic("first")
}

func d() {
	defer func() {
		fmt.Println("d recover:", recover())
		fmt.Println("d recover again:", recover())
	}()
	var a []int
	i := 3
	_ = a[i]
}

func e() {
	defer func() { fmt.Println("e:", recover()) }()
	z := 0
	fmt.Println(10 / z)
}

func f() {
	defer func() { fmt.Println("f:", recover()) }()
	var p *T
	fmt.Println(p.n)
}

func g() {
	defer func() { fmt.Println("g:", recover()) }()
	var i interface{} = "s"
	fmt.Println(i.(int))
}

func h() {
	defer func() { fmt.Println("h:", recover()) }()
	ch := make(chan int)
	close(ch)
	close(ch)
}

func k() {
	defer func() { fmt.Println("k outer:", recover()) }()
	func() {
		defer func() {
			func() { fmt.Println("k indirect:", recover()) }()
		}()
		panic("kp")
	}()
}

func main() {
	fmt.Println(a())

	d()
	e()
	f()
	g()
	h()
	k()
	fmt.Println("no panic recover:", recover())
	defer fmt.Println("main deferred")
	panic(fmt.Errorf("final %d", 1))
}
