import json,glob,collections,re,sys
prop=sys.argv[1]
c=collections.Counter(); ex={}
for f in glob.glob('/verif/replays/%s/*.json'%prop):
    d=json.load(open(f)); det=d.get('detail',d); cell=d.get('cell')
    diff=det.get('diff','')
    k=re.sub(r'\d+','N',diff)[:int(sys.argv[2]) if len(sys.argv)>2 else 110]
    c[k]+=1
    if k not in ex or len(json.dumps(det))<ex[k][1]: ex[k]=(cell,len(json.dumps(det)))
for k,v in c.most_common(25): print(v,ex[k][0],k)
