#!/usr/bin/env python3
# Regenerates /verif/MANIFEST.json from the table below (single source of truth for registrations).
import json, subprocess
CHECKS = {
 "C02": dict(technique="differential runtime monitoring: enumerated operator/kind/form/context cross product run under yaegi and the gc-built binary, per-cell stream comparison",
   text="Every cell of the finite cross product (operator or conversion x operand kind(s) x operand forms x result context) is executed with its whole boundary-value set by the real interpreter (child processes, tag verif) and by the gc-built binary of the same source; a monitor compares the printed result / panic flag of every evaluation. thorough enumerates the whole universe (about 13 000 cells, 2 M evaluations), quick a seed-selected half plus every cell that ever failed. Held means: no divergence on the executions observed.",
   note="Trusted: the gc toolchain as reference, fmt printing (identical code on both sides). Out-of-range float->int conversions are excluded (implementation-defined). Known findings C02-F1, C02-F2 are listed in known_findings.jsonl.",
   design="2/C02"),
 "C17": dict(technique="runtime monitor with reference model: generated file names/constraint headers loaded by the real interpreter from a MapFS, symbol visibility compared with go/build.Context.MatchFile",
   text="Generated packages (enumerated file-name universe: every combination of known/unknown OS, architecture and other words in the last three name positions; 60 000 constraint headers from a grammar of boolean expressions in //go:build, // +build, both, disagreeing, in 8 placements; yaegi:tags histories) are loaded by the real interpreter in import mode and in EvalTest mode; for every file the monitor observes whether its marker symbol is visible and compares with go/build.Context.MatchFile for the same name, content, GOOS/GOARCH, release and tags. thorough covers the whole header universe, quick a 6 000-header window chosen by the seed plus all names.",
   note="Trusted: go/build of the installed toolchain as the reference model. Compiler/cgo tags are not generated. Malformed //go:build lines (where the toolchain reports an error instead of selecting) are not generated. Known finding C17-F1 (+build in the package doc comment).",
   design="2/C17"),
 "C09": dict(technique="runtime monitor on the verif step hook: freeze the interpreter at operation k, cancel, observe return / post-cancel operations and host ticks per goroutine / goroutine exit (goroutine profile)",
   text="For every program of a family (busy loops, recursion, closures, methods, defers, host callbacks, goroutine trees, every blocking channel construct), every place its code can come from (same evaluation, earlier Eval, earlier EvalWithContext, imported source package) and every entry point (EvalWithContext, Compile+ExecuteWithContext, EvalPathWithContext), the step hook freezes all interpreted goroutines at operation k, the harness waits until all are parked, cancels, and requires: the call returns ctx.Err() while everything is frozen; after release no goroutine starts more than one further operation or causes more than one further host side effect; no goroutine stays parked in a channel operation. thorough: every k in 1..260 plus 12 seeded larger k per combination; quick: 14 seeded k per combination.",
   note="Liveness restated as bounded progress (DESIGN 2/C09). Wall-clock appears only as generous watchdogs; a goroutine counts as leaked only if parked in a channel operation (reproduced on an isolated retry) or if it keeps starting operations. YAEGI_FAST_CHAN excluded. Known findings C09-F1..F3.",
   design="2/C09"),
 "C10": dict(technique="history monitor with executable model: define; hand function values to the host; interleave cancelled evaluations (deterministic through the step hook) with uses through Eval and direct host calls; compare every use with the model",
   text="Histories define* ; (use | cancelled-eval)* over 14 definition kinds (named, recursive and void functions, value/pointer/stateful methods, closures in variables/maps/structs/slices, factory closures, method values), 4 use modes (first Eval after the cancellation, later Eval, host call before/after a further Eval) and 7 kinds of cancelled evaluation (busy loops frozen at operation k, goroutines, blocked receive/select, expired context, loop calling the definitions), enumerated for one and two cancellations plus seeded longer histories. Every use is compared with the model of the definition.",
   note="The cancelled call itself is judged by C09. Known findings C10-F1 (closures dead for ever), C10-F2 (host-held values dead until the next Eval) mask those cells; named functions, methods and method values through Eval and through the host after a further Eval are guarded.",
   design="2/C10"),
 "C13": dict(technique="runtime monitors: import probes per package key and form, invariant walk of the live per-interpreter symbol table (code-pointer comparison), child-process exit probes, environment map-model history checker, fd-canary I/O redirection monitor, cross-interpreter isolation probes",
   text="Every key of the default table is imported in 4 forms plus ImportUsed and a symbol used; unsafe, syscall and os/exec are tried in 7 forms and must fail; every function value of a live restricted interpreter's table is compared by code pointer with os.Exit, log.Fatal*, (*log.Logger).Fatal*, the os environment functions, log.Default/New, and its results scanned for raw *log.Logger; every exit entry point of the override list is run in a child process (death of the child is the refuting event) with and without recover, and the interpreter must stay usable; seeded sequences of Setenv/Unsetenv/Clearenv/Getenv/LookupEnv/Environ/ExpandEnv are compared with a map model while the host environment (with a canary variable) is snapshotted; every redirected fmt/print/log/scan/os.Args/flag function runs in a child whose real fd 0/1/2 are canary files; three interpreters with different streams, arguments and environments, one of them unrestricted, must not influence each other or a restricted interpreter created later.",
   note="Trusted: the child-process liveness signal and file sizes of the canary descriptors. Direct use of os.Stdout/os.Stderr by a script is documented by yaegi as outside the virtualisation and is not probed. Known findings C13-F1..F3.",
   design="2/C13"),
 "C14": dict(technique="invariant walk of the live symbol tables at a quiescent point against a compiled-in reference (independent go/types + GOROOT/api enumerator); wrapper forwarding exercised with reflect.MakeFunc recorders",
   text="Every entry of the tables that this toolchain can load (stdlib.Symbols from go1_22_*.go: 154 packages; stdlib/unrestricted; stdlib/syscall for linux/amd64; stdlib/unsafe) is compared with the identically named object of the reference: functions by code pointer, variables by address, types by reflect.Type, typed constants by value and type, untyped constants exactly (floats: agreement to 200 bits and exactness as two cells); restricted replacements must be exactly the functions of restricted.go; missing and surplus names are judged against GOROOT/api up to go1.22. Every method of every generated interface wrapper (179 wrappers, 434 methods) is called with drawn arguments on an instance whose W fields are recorders: exactly the same-named recorder must see exactly those arguments and its results must come back unchanged; String() with nil WString must return the empty string. The space is finite and walked completely in both tiers.",
   note="NOT observed (cannot be executed on this machine by the installed toolchains): go1_21_*.go (constraint go1.21 && !go1.22) and the syscall/unrestricted tables of every platform other than linux/amd64 - about 165 000 of the 187 000 bindings, almost all integer constants of foreign platforms. Trusted: the committed reference generated by harness/cmd/genref from GOROOT. Known finding C14-F1.",
   design="2/C14"),
}
NOT_YET = {}
def main():
    props=[json.loads(l) for l in open('/verif/properties.jsonl')]
    commits=subprocess.run(['git','-C','/repo','log','--format=%h %s'],capture_output=True,text=True).stdout.splitlines()
    hooks=[c.split()[0] for c in commits if c.split(' ',1)[1].startswith('verif:')]
    m={"version":1,
       "setup_cmd":"cd /verif && ./setup.sh",
       "hooks":{"guard":"verif","enable":"go build -tags verif (done by ./check for the harness, which imports /repo through a replace directive)",
                "baseline_off_cmd":"cd /repo && go test -mod=mod -json -vet=off -count=1 -timeout 25m ./...",
                "source_commits":hooks,"add_only":True},
       "engines":[{"name":"vcheck","path":"harness/cmd/vcheck","serves_properties":sorted(CHECKS),"kind_free_text":"Go harness: workload generators, child-process interpreter pool, gc reference runner with content cache, stream/history monitors, known-findings protocol"}],
       "checks":[],"not_applicable":[],
       "notes":"./check <id> rebuilds the harness against /repo's working tree (tag verif) on every invocation. known_findings.jsonl lists genuine defects (open) and fixed: entries."}
    for p in props:
        i=p['id']
        if i in CHECKS:
            c=CHECKS[i]
            m["checks"].append({"property_id":i,"quick_cmd":"./check %s --tier quick"%i,"thorough_cmd":"./check %s --tier thorough"%i,
              "evidence_file":"/verif/evidence/%s.json"%i,"replay_cmd_template":"./check %s --replay {path}"%i,"engine":"vcheck",
              "level_claimed":{"category":"exploration","text":c['text'],"design_ref":c['design']},"level_note":c['note'],"technique":c['technique']})
        else:
            m["not_applicable"].append({"property_id":i,"reason":NOT_YET.get(i,"check not built yet in this round (planned: runtime monitor per DESIGN.md section 2); not claimed until its universe has been swept silent on the unchanged tree")})
    json.dump(m,open('/verif/MANIFEST.json','w'),indent=1)
main()
