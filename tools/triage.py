#!/usr/bin/env python3
# tools/triage.py <Cxx> : group the replay witnesses of a property by failure signature (development aid)
import json,glob,collections,re,sys
prop=sys.argv[1]; n=int(sys.argv[2]) if len(sys.argv)>2 else 2
g=collections.defaultdict(list)
for f in glob.glob('/verif/replays/%s/*.json'%prop):
    w=json.load(open(f))
    d=w.get('diff','')
    if d.startswith('yaegi ended'):
        sig=re.sub(r'[0-9]+','N',d)[:110]
    else:
        m=re.search(r'native "([A-Za-z\-?]+)[0-9]* ',d); sig='stream:'+(m.group(1) if m else re.sub(r'[0-9]+','N',d)[:60])
    g[sig].append((w['cell'],d[:170],w.get('tags','')))
for k,v in sorted(g.items(), key=lambda x:-len(x[1])):
    print(len(v),k)
    for c,d,t in v[:n]: print('     ',c,'|',d,'|',t[:120])
