#!/bin/bash
# tools/mutant.sh <patch.diff> <check-id> [tier] : run a check against a scratch worktree of /repo with the patch applied.
# Development aid for seeded-defect drills; the worktree is removed afterwards.
set -u
patch=$(readlink -f "$1"); id=$2; tier=${3:-quick}
wt=/tmp/mut/wt-$$
mkdir -p /tmp/mut
git -C /repo worktree add -q --detach "$wt" HEAD || exit 2
trap 'git -C /repo worktree remove --force "$wt"' EXIT
if ! git -C "$wt" apply "$patch"; then echo "PATCH-DOES-NOT-APPLY"; exit 2; fi
cd /verif && VERIF_REPO="$wt" ./check "$id" --tier "$tier"
