#!/usr/bin/env python3
# tools/record_cells.py <Cxx> <ENV_ALL_VAR> : sweep the whole universe of a generated-program check and rewrite its
# open known-finding records from the failing cells, grouped by the "known:<class>" tags of the generator
# (development aid, run by hand after a generator change or a fix: commit; never at check time).
import json,glob,collections,subprocess,os,shutil,sys
prop,envall=sys.argv[1],sys.argv[2]
desc=json.load(open('/verif/tools/finding_classes.json')).get(prop,{})
kf='/verif/known_findings.jsonl'
lines=[l for l in open(kf).read().split('\n') if not (l.startswith('{') and '"property": "%s"'%prop in l and '"status": "open"' in l)]
open(kf,'w').write('\n'.join(l for l in lines if l.strip())+'\n')
shutil.rmtree('/verif/replays/'+prop,ignore_errors=True)
env=dict(os.environ,VERIF_QUIET='1'); env[envall]='1'
out=subprocess.run(['/verif/check',prop,'--tier','thorough'],env=env,capture_output=True,text=True).stdout
print(out.strip().split('\n')[-1])
g=collections.defaultdict(list)
for f in glob.glob('/verif/replays/%s/*.json'%prop):
    w=json.load(open(f)); tags=w.get('tags','')
    ks=sorted(t[6:] for t in tags.split(',') if t.startswith('known:'))
    if len(ks)>1 and 'nil-interface-assert' in ks: ks.remove('nil-interface-assert')  # repaired: never the cause on its own
    if w['cell'].split('/')[1]=='host': k='host:'+w['cell'].split('/')[2]
    elif ks: k=ks[0]
    else:
        k='unattributed'; print('UNATTRIBUTED', w['cell'], w['diff'][:140])
    g[k].append(w['cell'])
with open(kf,'a') as f:
    for i,k in enumerate(sorted(g)):
        d=desc.get(k,{"what":"divergent cells of the swept universe (class %s): each listed cell is a complete witness"%k,"witness":""})
        f.write(json.dumps({"property":prop,"id":"%s-K%d-%s"%(prop,i+1,k.replace(':','-')),"status":"open","cells":sorted(g[k]),"what":d["what"],"witness":d.get("witness","")})+'\n')
print({k:len(v) for k,v in g.items()})
