#!/bin/bash
# tools/confirm_mutant.sh <agent-out-dir>/<mK> <seeded-id>
# Confirms a seeded defect independently: patch applies to a scratch worktree, the tree builds, the repo's own
# suite still passes its baseline, the demo passes without and fails with the patch. On success stores it as
# /verif/seeded/<seeded-id>/ (patch.diff, demo/, meta.json). Worktrees are removed afterwards.
set -u
src=$(readlink -f "$1"); sid=$2
export GOFLAGS=-mod=mod GOPROXY=off GOSUMDB=off GOTOOLCHAIN=local
wt=/tmp/mut/confirm-$sid
log=/tmp/mut/confirm-$sid.log
mkdir -p /tmp/mut; : > "$log"
base=${3:-HEAD}
git -C /repo worktree add -q --detach "$wt" $base >>"$log" 2>&1 || { echo "$sid: worktree failed"; exit 2; }
if ! git -C "$wt" apply --check "$src/patch.diff" >/dev/null 2>&1 && [ "$base" = HEAD ]; then
  # the defect was written against the tree as it was before later fix: commits; confirm it there
  git -C /repo worktree remove --force "$wt" >/dev/null 2>&1
  base=b37c8ca
  git -C /repo worktree add -q --detach "$wt" $base >>"$log" 2>&1 || { echo "$sid: worktree failed"; exit 2; }
fi
cleanup() { git -C /repo worktree remove --force "$wt" >/dev/null 2>&1; rm -rf "/tmp/mut/demo-$sid"; }
trap cleanup EXIT
rundemo() { # prints exit code of the demo against $wt
  local d=/tmp/mut/demo-$sid; rm -rf "$d"; cp -r "$src/demo" "$d"
  if [ -f "$d/go.mod" ]; then sed -i "s#=> .*#=> $wt#" "$d/go.mod"; fi
  if ls "$d"/*_test.go >/dev/null 2>&1 && [ ! -f "$d/main.go" ]; then
     if [ -f "$d/go.mod" ]; then (cd "$d" && timeout 600 go test -count=1 ./... >>"$log" 2>&1); echo $?; 
     else cp "$d"/*_test.go "$wt/interp/" && (cd "$wt" && timeout 900 go test -count=1 -run "$(grep -ho 'func Test[A-Za-z0-9_]*' "$d"/*_test.go | sed 's/func //' | paste -sd'|')" ./interp/ >>"$log" 2>&1); rc=$?; (cd "$wt" && git clean -fdq interp/); echo $rc; fi
  else
     (cd "$d" && timeout 600 go run -tags verif . >>"$log" 2>&1); echo $?
  fi
}
echo "== demo on unchanged tree" >>"$log"
rc0=$(rundemo)
if ! git -C "$wt" apply "$src/patch.diff" >>"$log" 2>&1; then echo "$sid: PATCH-DOES-NOT-APPLY (see $log)"; exit 3; fi
(cd "$wt" && go build ./... >>"$log" 2>&1) || { echo "$sid: does not build"; exit 4; }
echo "== demo on patched tree" >>"$log"
rc1=$(rundemo)
echo "== suite on patched tree" >>"$log"
/verif/tools/suite.sh "$wt" >>"$log" 2>&1; suite=$?
rm -rf "$wt/_test/tmp"
echo "$sid: demo_unpatched_rc=$rc0 demo_patched_rc=$rc1 suite_rc=$suite"
if [ "$rc0" = 0 ] && [ "$rc1" != 0 ] && [ "$suite" = 0 ]; then
  dst=/verif/seeded/$sid; mkdir -p "$dst"; cp "$src/patch.diff" "$dst/patch.diff"; rm -rf "$dst/demo"; cp -r "$src/demo" "$dst/demo"
  python3 - "$src/meta.json" "$dst/meta.json" "$rc0" "$rc1" "$base" <<'PY'
import json,sys
try: m=json.load(open(sys.argv[1]))
except Exception: m={}
m['confirmed']={'by':'tools/confirm_mutant.sh','demo_exit_unpatched':int(sys.argv[3]),'demo_exit_patched':int(sys.argv[4]),'suite':'tools/suite.sh on the patched worktree: every BASELINE stable_pass test passes','tree':'scratch worktree of /repo at '+sys.argv[5]}
json.dump(m,open(sys.argv[2],'w'),indent=1)
PY
  echo "$sid: CONFIRMED -> $dst"
else
  echo "$sid: NOT CONFIRMED (see $log)"
fi
