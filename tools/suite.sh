#!/bin/bash
# Run the repository's own test suite with the verif tag OFF and compare with BASELINE.json:
# every test in stable_pass must pass. Usage: tools/suite.sh [repo-dir]
REPO=${1:-/repo}
export GOFLAGS=-mod=mod GOPROXY=off GOSUMDB=off GOTOOLCHAIN=local
OUT=$(mktemp /tmp/suite.XXXXXX.json)
( cd "$REPO" && go test -mod=mod -json -vet=off -count=1 -timeout 25m ./... ) > "$OUT" 2>/dev/null
python3 - "$OUT" <<'PY'
import json,sys
passed=set(); failed=set()
for l in open(sys.argv[1]):
    try: e=json.loads(l)
    except Exception: continue
    if 'Test' not in e: continue
    k=e['Package']+'::'+e['Test']
    if e['Action']=='pass': passed.add(k)
    elif e['Action']=='fail': failed.add(k)
b=json.load(open('/root/.vp/BASELINE.json'))
sp=set(b['stable_pass'])
missing=sorted(sp-passed)
print("suite: passed=%d failed=%d baseline_stable_pass=%d missing_from_pass=%d"%(len(passed),len(failed),len(sp),len(missing)))
for m in missing[:40]: print("  NOT PASSING:",m)
sys.exit(1 if missing else 0)
PY
rc=$?
rm -f "$OUT"
exit $rc
