import json,glob,sys
for f in glob.glob('/verif/replays/%s/*.json'%sys.argv[1]):
    d=json.load(open(f)); det=d.get('detail',d)
    if d.get('cell')==sys.argv[2]:
        for k,v in sorted(det.get('files',{}).items()): print('==',k); print(v)
        print(det['diff'][:1500])
        break
