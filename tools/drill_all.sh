#!/bin/bash
# tools/drill_all.sh : run every seeded change against the quick tier of its property's check (scratch worktrees of /repo HEAD)
cd /verif
for d in seeded/*/; do
  m=$(basename $d); id=${m%%-*}
  p=$d/patch.diff; [ -f $d/patch.rebased.diff ] && p=$d/patch.rebased.diff
  echo "$m: $(VERIF_QUIET=1 tools/mutant.sh /verif/$p $id quick 2>&1 | grep -v 'KNOWN\|INCONCL' | tail -1 | sed 's/evaluations=.*known=[0-9]* //')"
done
