#!/usr/bin/env python3
# Re-sweep the whole C01 universe and rewrite the open C01 records of known_findings.jsonl (development aid,
# run by hand after a generator change or a fix: commit; never at check time).
import json,glob,collections,subprocess,os,shutil
kf='/verif/known_findings.jsonl'
lines=[l for l in open(kf).read().split('\n') if not (l.startswith('{') and '"property": "C01"' in l and '"status": "open"' in l)]
open(kf,'w').write('\n'.join(l for l in lines if l.strip())+'\n')
shutil.rmtree('/verif/replays/C01',ignore_errors=True)
env=dict(os.environ,VERIF_C01_ALL='1',VERIF_QUIET='1')
out=subprocess.run(['/verif/check','C01','--tier','thorough'],env=env,capture_output=True,text=True).stdout
print(out.strip().split('\n')[-1])
g=collections.defaultdict(list)
for f in glob.glob('/verif/replays/C01/*.json'):
    w=json.load(open(f)); tags=w.get('tags','')
    if 'known:call-in-multi-assign' in tags: k='F1'
    elif 'known:multi-assign-composite-lhs' in tags: k='F2'
    elif 'known:constant-condition' in tags: k='F3'
    elif 'rune' in w['diff']: k='F4'
    else: k='F5'; print('UNCLASSIFIED', w['cell'], w['diff'][:120])
    g[k].append(w['cell'])
what={'F1':("a function, closure or builtin call among the right-hand sides of a tuple assignment (b, a = a, f()) is stored into its destination before the other operands are read","findings/C01/call-in-tuple-assignment.go"),
'F2':("tuple assignment whose destinations include an array element, a struct field or a pointee: the store into the composite destination is lost or applied to a copy","findings/C01/tuple-assignment-composite-lhs.go"),
'F3':("branch conditions that are constant expressions (case false, case !true, if false {} else if true {}, !!c with constant c) select a wrong branch","findings/C01/constant-condition.go"),
'F4':("range over a string containing invalid UTF-8 (produced by slicing inside a multi-byte rune) reports other byte offsets than gc","findings/C01/range-invalid-utf8.go"),
'F5':("a comparison with a parenthesised identifier operand used as the left operand of && or || (r = ((i) == q) && r) panics: reflect: call of reflect.Value.Bool on int Value","findings/C01/paren-operand-in-logical.go")}
with open(kf,'a') as f:
    for k in sorted(g):
        f.write(json.dumps({"property":"C01","id":"C01-"+k,"status":"open","cells":sorted(g[k]),"what":what[k][0],"witness":what[k][1]})+'\n')
print({k:len(v) for k,v in g.items()})
