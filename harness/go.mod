module verifharness

go 1.23

require (
	github.com/anishathalye/porcupine v1.3.0
	github.com/traefik/yaegi v0.0.0
)

replace github.com/traefik/yaegi => /repo
