package core

import (
	"bufio"
	"bytes"
	"context"
	"encoding/base64"
	"encoding/json"
	"errors"
	"fmt"
	"io"
	"os"
	"os/exec"
	"path/filepath"
	"reflect"
	"runtime/debug"
	"strings"
	"sync"
	"sync/atomic"
	"testing/fstest"
	"time"
	"unicode/utf8"

	"github.com/traefik/yaegi/interp"
	"github.com/traefik/yaegi/stdlib"
)

// Case is one unit of work evaluated by a child interpreter process.
type Case struct {
	ID        string            `json:"id"`
	Mode      string            `json:"mode"` // eval | evalpath | chunks | custom modes
	Src       string            `json:"src,omitempty"`
	Name      string            `json:"name,omitempty"` // file name for Eval (Compile) when relevant
	Files     map[string]string `json:"files,omitempty"`
	GoPath    string            `json:"gopath,omitempty"`
	Path      string            `json:"path,omitempty"`
	Chunks    []string          `json:"chunks,omitempty"`
	Post      []string          `json:"post,omitempty"`
	Tags      []string          `json:"tags,omitempty"`
	Env       []string          `json:"env,omitempty"`
	Args      []string          `json:"args,omitempty"`
	Stdin     string            `json:"stdin,omitempty"`
	NoStdlib  bool              `json:"nostdlib,omitempty"`
	TimeoutMs int               `json:"timeout_ms,omitempty"`
	Params    map[string]string `json:"params,omitempty"`
}

type PostRes struct {
	Expr string `json:"expr"`
	Out  string `json:"out"`
	Err  string `json:"err"`
}

// Result is what the child observed.
type Result struct {
	ID         string            `json:"id"`
	Out        string            `json:"out"`
	Stderr     string            `json:"stderr,omitempty"`
	ErrClass   string            `json:"err_class"` // "" | panic | error
	ErrText    string            `json:"err_text,omitempty"`
	PanicValue string            `json:"panic_value,omitempty"`
	PanicType  string            `json:"panic_type,omitempty"`
	HostPanic  string            `json:"host_panic,omitempty"` // a Go panic escaped the API call
	Crash      bool              `json:"crash,omitempty"`      // child process died
	CrashMsg   string            `json:"crash_msg,omitempty"`
	Timeout    bool              `json:"timeout,omitempty"`
	Dirty      bool              `json:"dirty,omitempty"` // the child asks to be replaced (it hosts runaway goroutines)
	Value      string            `json:"value,omitempty"`
	Post       []PostRes         `json:"post,omitempty"`
	Data       map[string]string `json:"data,omitempty"`
	OutB64     string            `json:"out_b64,omitempty"` // Out when it is not valid UTF-8 (JSON would alter it)
}

func (r *Result) encodeOut() {
	if !utf8.ValidString(r.Out) {
		r.OutB64 = base64.StdEncoding.EncodeToString([]byte(r.Out))
		r.Out = ""
	}
}

func (r *Result) decodeOut() {
	if r.OutB64 != "" {
		if b, err := base64.StdEncoding.DecodeString(r.OutB64); err == nil {
			r.Out = string(b)
		}
		r.OutB64 = ""
	}
}

// Ending summarises how the evaluation ended, in a form comparable with a native run.
func (r *Result) Ending() string {
	switch {
	case r.Crash:
		return "CRASH"
	case r.Timeout:
		return "TIMEOUT"
	case r.HostPanic != "":
		return "HOSTPANIC"
	case r.ErrClass == "panic":
		return "panic"
	case r.ErrClass != "":
		return "error"
	}
	return "ok"
}

// ChildModes lets checks register additional child-side modes.
var ChildModes = map[string]func(c *Case) *Result{}

func classify(err error, res *Result) {
	if err == nil {
		return
	}
	var p interp.Panic
	if errors.As(err, &p) {
		res.ErrClass = "panic"
		val := p.Value
		if rv, ok := val.(reflect.Value); ok && rv.IsValid() && rv.CanInterface() {
			val = rv.Interface() // values raised by the script's panic builtin arrive wrapped in a reflect.Value
		}
		res.PanicValue = fmt.Sprintf("%v", val)
		res.PanicType = fmt.Sprintf("%T", val)
		if e, ok := val.(error); ok {
			res.PanicValue = e.Error()
		}
	} else {
		res.ErrClass = "error"
	}
	res.ErrText = err.Error()
}

// capWriter keeps the first max bytes and drops the rest (a runaway script must not exhaust memory).
type capWriter struct {
	buf *bytes.Buffer
	max int
	mu  sync.Mutex
}

func (w *capWriter) Write(p []byte) (int, error) {
	w.mu.Lock()
	defer w.mu.Unlock()
	if room := w.max - w.buf.Len(); room > 0 {
		if len(p) > room {
			w.buf.Write(p[:room])
			w.buf.WriteString("\n#OUTPUT-LIMIT\n")
		} else {
			w.buf.Write(p)
		}
	}
	return len(p), nil
}

// NewInterp builds an interpreter for a case, output captured in the returned buffers.
func NewInterp(c *Case) (*interp.Interpreter, *bytes.Buffer, *bytes.Buffer) {
	var out, errb bytes.Buffer
	opt := interp.Options{Stdout: &capWriter{buf: &out, max: 16 << 20}, Stderr: &capWriter{buf: &errb, max: 1 << 20}, BuildTags: c.Tags, Env: c.Env, Args: c.Args, GoPath: c.GoPath}
	if c.Stdin != "" {
		opt.Stdin = strings.NewReader(c.Stdin)
	} else {
		opt.Stdin = strings.NewReader("")
	}
	if c.Files != nil {
		m := fstest.MapFS{}
		for k, v := range c.Files {
			m[k] = &fstest.MapFile{Data: []byte(v)}
		}
		opt.SourcecodeFilesystem = m
	}
	i := interp.New(opt)
	if !c.NoStdlib {
		if err := i.Use(stdlib.Symbols); err != nil {
			panic(err)
		}
	}
	return i, &out, &errb
}

func valueString(v reflect.Value) string {
	if !v.IsValid() {
		return "<invalid>"
	}
	defer func() { recover() }()
	if v.CanInterface() {
		return fmt.Sprintf("%v", v.Interface())
	}
	return fmt.Sprintf("%v", v)
}

// EvalCase runs the standard modes in the current process.
func EvalCase(c *Case) (res *Result) {
	res = &Result{ID: c.ID}
	if h, ok := ChildModes[c.Mode]; ok {
		func() {
			defer func() {
				if r := recover(); r != nil {
					res.HostPanic = fmt.Sprintf("%v\n%s", r, debug.Stack())
				}
			}()
			res = h(c)
			res.ID = c.ID
		}()
		return res
	}
	i, out, errb := NewInterp(c)
	func() {
		defer func() {
			if r := recover(); r != nil {
				res.HostPanic = fmt.Sprintf("%v\n%s", r, debug.Stack())
			}
		}()
		switch c.Mode {
		case "eval", "":
			v, err := i.Eval(c.Src)
			classify(err, res)
			if err == nil {
				res.Value = valueString(v)
			}
		case "evalpath":
			v, err := i.EvalPath(c.Path)
			classify(err, res)
			if err == nil {
				res.Value = valueString(v)
			}
		case "chunks":
			for k, ch := range c.Chunks {
				v, err := i.Eval(ch)
				if err != nil {
					classify(err, res)
					res.ErrText = fmt.Sprintf("chunk %d: %s", k, res.ErrText)
					break
				}
				res.Value = valueString(v)
			}
		default:
			res.ErrClass = "error"
			res.ErrText = "unknown mode " + c.Mode
		}
	}()
	for _, p := range c.Post {
		pr := PostRes{Expr: p}
		func() {
			defer func() {
				if r := recover(); r != nil {
					pr.Err = fmt.Sprintf("HOSTPANIC %v", r)
				}
			}()
			n0 := out.Len()
			v, err := i.Eval(p)
			if err != nil {
				pr.Err = err.Error()
			} else {
				pr.Out = valueString(v) + "|" + out.String()[n0:]
			}
		}()
		res.Post = append(res.Post, pr)
	}
	res.Out = out.String()
	res.Stderr = errb.String()
	if len(res.Stderr) > 4000 {
		res.Stderr = res.Stderr[:4000]
	}
	return res
}

// ChildMain is the loop of a child process: cases on stdin, results on fd 3.
func ChildMain() {
	w := os.NewFile(3, "results")
	if w == nil {
		fmt.Fprintln(os.Stderr, "child: fd 3 missing")
		os.Exit(2)
	}
	in := bufio.NewReaderSize(os.Stdin, 1<<20)
	enc := json.NewEncoder(w)
	for {
		line, err := in.ReadBytes('\n')
		if len(line) > 0 {
			var c Case
			if e := json.Unmarshal(line, &c); e != nil {
				fmt.Fprintln(os.Stderr, "child: bad case:", e)
				os.Exit(2)
			}
			fmt.Fprintf(os.Stderr, "CASE %s\n", c.ID)
			done := make(chan *Result, 1)
			go func() { done <- EvalCase(&c) }()
			to := time.Duration(c.TimeoutMs) * time.Millisecond
			if to == 0 {
				to = 120 * time.Second
			}
			select {
			case r := <-done:
				r.encodeOut()
				enc.Encode(r)
			case <-time.After(to):
				enc.Encode(&Result{ID: c.ID, Timeout: true})
				os.Exit(0) // the stuck evaluation cannot be reclaimed; parent restarts us
			}
		}
		if err != nil {
			return
		}
	}
}

// ---------------------------------------------------------------------------------------------
// parent side

type child struct {
	cmd    *exec.Cmd
	stdin  io.WriteCloser
	res    *bufio.Reader
	resF   *os.File
	errLog string
}

type Pool struct {
	Bin     string   // binary to run as child (default: os.Args[0])
	Env     []string // extra env
	Workers int
	Dir     string // scratch dir for stderr files
	n       atomic.Int64
	Crashes atomic.Int64
}

func (p *Pool) start() (*child, error) {
	bin := p.Bin
	if bin == "" {
		bin = os.Args[0]
	}
	k := p.n.Add(1)
	pr, pw, err := os.Pipe()
	if err != nil {
		return nil, err
	}
	cmd := exec.Command(bin, "__child")
	cmd.Env = append(os.Environ(), p.Env...)
	cmd.ExtraFiles = []*os.File{pw}
	os.MkdirAll(p.Dir, 0o755)
	errLog := filepath.Join(p.Dir, fmt.Sprintf("child-%d-%d.err", os.Getpid(), k))
	ef, err := os.Create(errLog)
	if err != nil {
		return nil, err
	}
	cmd.Stderr = ef
	cmd.Stdout = ef
	stdin, err := cmd.StdinPipe()
	if err != nil {
		return nil, err
	}
	if err := cmd.Start(); err != nil {
		return nil, err
	}
	pw.Close()
	ef.Close()
	return &child{cmd: cmd, stdin: stdin, res: bufio.NewReaderSize(pr, 1<<20), resF: pr, errLog: errLog}, nil
}

func (c *child) stop() {
	if c == nil {
		return
	}
	c.stdin.Close()
	done := make(chan struct{})
	go func() { c.cmd.Wait(); close(done) }()
	select {
	case <-done:
	case <-time.After(3 * time.Second):
		c.cmd.Process.Kill()
		<-done
	}
	c.resF.Close()
	os.Remove(c.errLog)
}

// tailFile returns the part of a child's stderr file that follows its last progress marker
// ("CASE <id>" or "ITEM <k>" line), limited to n bytes: the marker names what was running when it died.
func tailFile(path string, n int) string {
	b, _ := os.ReadFile(path)
	if len(b) > 8<<20 {
		b = b[:8<<20]
	}
	s := string(b)
	last := -1
	for _, m := range []string{"\nITEM ", "\nCASE ", "\nK "} {
		if k := strings.LastIndex(s, m); k > last {
			last = k
		}
	}
	if last < 0 && (strings.HasPrefix(s, "CASE ") || strings.HasPrefix(s, "ITEM ")) {
		last = 0
	}
	if last > 0 {
		s = s[last+1:]
	}
	if len(s) > n {
		s = s[:n]
	}
	return s
}

// RunCases evaluates all cases on child processes and returns results in input order.
func (p *Pool) RunCases(cases []Case) []*Result {
	if p.Workers <= 0 {
		p.Workers = 12
	}
	if p.Dir == "" {
		p.Dir = filepath.Join(os.TempDir(), "verif-pool")
	}
	out := make([]*Result, len(cases))
	idx := make(chan int, len(cases))
	for i := range cases {
		idx <- i
	}
	close(idx)
	var wg sync.WaitGroup
	nw := p.Workers
	if nw > len(cases) {
		nw = len(cases)
	}
	for w := 0; w < nw; w++ {
		wg.Add(1)
		go func() {
			defer wg.Done()
			var ch *child
			defer func() { ch.stop() }()
			for i := range idx {
				c := &cases[i]
				if ch == nil {
					var err error
					ch, err = p.start()
					if err != nil {
						out[i] = &Result{ID: c.ID, Crash: true, CrashMsg: "cannot start child: " + err.Error()}
						ch = nil
						continue
					}
				}
				b, _ := json.Marshal(c)
				b = append(b, '\n')
				_, werr := ch.stdin.Write(b)
				var r Result
				var line []byte
				var rerr error
				if werr == nil {
					line, rerr = ch.res.ReadBytes('\n')
				}
				if werr != nil || rerr != nil || json.Unmarshal(line, &r) != nil {
					// child died while evaluating this case
					ch.stdin.Close()
					ch.cmd.Wait()
					msg := tailFile(ch.errLog, 3000)
					ch.resF.Close()
					os.Remove(ch.errLog)
					ch = nil
					p.Crashes.Add(1)
					out[i] = &Result{ID: c.ID, Crash: true, CrashMsg: msg}
					continue
				}
				rr := r
				rr.decodeOut()
				out[i] = &rr
				if r.Timeout {
					if b, err := os.ReadFile(ch.errLog); err == nil {
						if len(b) > 6000 {
							b = b[len(b)-6000:]
						}
						out[i].CrashMsg = string(b)
					}
					ch.cmd.Wait()
					ch.resF.Close()
					os.Remove(ch.errLog)
					ch = nil
				} else if r.Dirty {
					ch.stop()
					ch = nil
				}
			}
		}()
	}
	wg.Wait()
	return out
}

var _ = context.Background

// BatchItem is one unit of a crash-attributed batch.
type BatchItem struct {
	ID   string            `json:"id"`
	Data map[string]string `json:"data"`
}

// BatchResult is what the child reports for one item (Crash is set by the parent).
type BatchResult struct {
	ID    string            `json:"id"`
	Data  map[string]string `json:"data,omitempty"`
	Crash string            `json:"crash,omitempty"`
}

// BatchModes: child-side handlers processing one item.
var BatchModes = map[string]func(it *BatchItem) map[string]string{}

func init() {
	ChildModes["batch"] = func(c *Case) *Result {
		var items []BatchItem
		json.Unmarshal([]byte(c.Params["items"]), &items)
		h := BatchModes[c.Params["handler"]]
		var out []BatchResult
		for k := range items {
			fmt.Fprintf(os.Stderr, "ITEM %d\n", k)
			out = append(out, BatchResult{ID: items[k].ID, Data: h(&items[k])})
		}
		b, _ := json.Marshal(out)
		return &Result{Data: map[string]string{"results": string(b)}}
	}
}

// RunBatch processes items in children, per items per case; an item during which the child dies (Go fatal
// error, os.Exit, timeout) gets Crash set and the remaining items of its batch continue in a fresh child.
func (p *Pool) RunBatch(handler string, items []BatchItem, per int, timeoutMs int) []BatchResult {
	res := make([]BatchResult, len(items))
	type span struct{ lo, hi int }
	var todo []span
	for i := 0; i < len(items); i += per {
		j := i + per
		if j > len(items) {
			j = len(items)
		}
		todo = append(todo, span{i, j})
	}
	for round := 0; len(todo) > 0 && round < 10000; round++ {
		cases := make([]Case, len(todo))
		for k, sp := range todo {
			b, _ := json.Marshal(items[sp.lo:sp.hi])
			cases[k] = Case{ID: fmt.Sprintf("batch-%s-%d", handler, sp.lo), Mode: "batch", TimeoutMs: timeoutMs, Params: map[string]string{"handler": handler, "items": string(b)}}
		}
		rs := p.RunCases(cases)
		var next []span
		for k, r := range rs {
			sp := todo[k]
			if !r.Crash && !r.Timeout && r.Data != nil {
				var out []BatchResult
				json.Unmarshal([]byte(r.Data["results"]), &out)
				for q := range out {
					if sp.lo+q < sp.hi {
						res[sp.lo+q] = out[q]
					}
				}
				continue
			}
			// which item was running?
			at := 0
			for _, l := range strings.Split(r.CrashMsg, "\n") {
				if strings.HasPrefix(l, "ITEM ") {
					fmt.Sscan(l[5:], &at)
				}
			}
			if at < 0 || sp.lo+at >= sp.hi {
				at = 0
			}
			msg := r.CrashMsg
			if r.Timeout {
				msg = "TIMEOUT " + msg
			}
			if r.HostPanic != "" {
				msg = "HOSTPANIC " + r.HostPanic
			}
			res[sp.lo+at] = BatchResult{ID: items[sp.lo+at].ID, Crash: msg}
			// items before 'at' ran to completion but their results died with the child: run them again, alone
			if at > 0 {
				next = append(next, span{sp.lo, sp.lo + at})
			}
			if sp.lo+at+1 < sp.hi {
				next = append(next, span{sp.lo + at + 1, sp.hi})
			}
		}
		todo = next
	}
	return res
}
