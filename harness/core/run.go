package core

import (
	"encoding/json"
	"fmt"
	"os"
	"path/filepath"
	"sort"
	"strconv"
	"strings"
	"sync"
	"time"
)

// Finding is one record of /verif/known_findings.jsonl.
type Finding struct {
	Property string   `json:"property"`
	ID       string   `json:"id"`
	Status   string   `json:"status"` // open | fixed
	Cells    []string `json:"cells,omitempty"`
	Prefix   []string `json:"prefix,omitempty"`
	What     string   `json:"what"`
	Witness  string   `json:"witness,omitempty"`
	Commit   string   `json:"commit,omitempty"`
}

// Run is the context of one check execution.
type Run struct {
	Prop     string
	Tier     string
	Seed     uint64
	Root     string // /verif
	Work     string // scratch dir of this run
	Replay   string
	start    time.Time
	mu       sync.Mutex
	findings []Finding
	hitKnown map[string]int
	viol     []string // replay paths
	violCell []string
	Evals    int
	distinct map[string]struct{}
	Inconcl  int
	samples  []any
	Extra    map[string]any
	Rule     string
	Assume   []string
	Exhaust  bool
}

func Root() string {
	if r := os.Getenv("VERIF_ROOT"); r != "" {
		return r
	}
	return "/verif"
}

func NewRun(prop string, args []string) *Run {
	r := &Run{Prop: prop, Tier: "quick", Seed: 1, Root: Root(), start: time.Now(),
		hitKnown: map[string]int{}, distinct: map[string]struct{}{}, Extra: map[string]any{}}
	if t := os.Getenv("VERIF_TIER"); t == "quick" || t == "thorough" {
		r.Tier = t
	}
	for i := 0; i < len(args); i++ {
		switch args[i] {
		case "--tier":
			if i+1 < len(args) {
				r.Tier = args[i+1]
				i++
			}
		case "--replay":
			if i+1 < len(args) {
				r.Replay = args[i+1]
				i++
			}
		}
	}
	if t := os.Getenv("VERIF_TIER"); t == "quick" || t == "thorough" {
		r.Tier = t
	}
	if s := os.Getenv("VERIF_SEED"); s != "" {
		if v, err := strconv.ParseUint(s, 10, 64); err == nil {
			r.Seed = v
		} else if v, err := strconv.ParseInt(s, 10, 64); err == nil {
			r.Seed = uint64(v)
		} else {
			r.Seed = Hash64(s)
		}
	}
	r.Work = os.Getenv("VERIF_WORK")
	if r.Work == "" {
		r.Work = filepath.Join(r.Root, ".work", fmt.Sprintf("p%d", os.Getpid()))
	}
	r.Work = filepath.Join(r.Work, prop)
	os.MkdirAll(r.Work, 0o755)
	r.loadFindings()
	return r
}

func (r *Run) Thorough() bool { return r.Tier == "thorough" }

func (r *Run) loadFindings() {
	if os.Getenv("VERIF_IGNORE_KNOWN") != "" { // development aid: see the witnesses of known cells
		return
	}
	b, err := os.ReadFile(filepath.Join(r.Root, "known_findings.jsonl"))
	if err != nil {
		return
	}
	for _, l := range strings.Split(string(b), "\n") {
		l = strings.TrimSpace(l)
		if l == "" || strings.HasPrefix(l, "#") {
			continue
		}
		if strings.HasPrefix(l, "fixed:") {
			continue
		}
		var f Finding
		if json.Unmarshal([]byte(l), &f) == nil && f.Property == r.Prop {
			r.findings = append(r.findings, f)
		}
	}
}

// OpenFindings returns the open records of this property.
func (r *Run) OpenFindings() []Finding {
	var out []Finding
	for _, f := range r.findings {
		if f.Status == "open" {
			out = append(out, f)
		}
	}
	return out
}

func (r *Run) matchKnown(cell string) *Finding {
	for i := range r.findings {
		f := &r.findings[i]
		if f.Status != "open" {
			continue
		}
		for _, c := range f.Cells {
			if c == cell {
				return f
			}
		}
		for _, p := range f.Prefix {
			if strings.HasPrefix(cell, p) {
				return f
			}
		}
	}
	return nil
}

// traceCell prints the verdict of cells whose id contains VERIF_TRACE_CELL (development aid).
func traceCell(cell, verdict string) {
	if t := os.Getenv("VERIF_TRACE_CELL"); t != "" && strings.Contains(cell, t) {
		if len(verdict) > 300 {
			verdict = verdict[:300]
		}
		fmt.Printf("TRACE %s %s\n", cell, verdict)
	}
}

// IsKnown tells whether a failing cell id is covered by an open finding (without recording it).
func (r *Run) IsKnown(cell string) bool { return r.matchKnown(cell) != nil }

// Ok records one conclusive, agreeing evaluation of a cell.
func (r *Run) Ok(cell string) {
	traceCell(cell, "ok")
	r.mu.Lock()
	r.Evals++
	r.distinct[cell] = struct{}{}
	r.mu.Unlock()
}

// OkN records n evaluations belonging to one distinct cell.
func (r *Run) OkN(cell string, n int) {
	traceCell(cell, "ok")
	r.mu.Lock()
	r.Evals += n
	r.distinct[cell] = struct{}{}
	r.mu.Unlock()
}

func (r *Run) Inconclusive(cell, why string) {
	r.mu.Lock()
	r.Inconcl++
	r.mu.Unlock()
	fmt.Printf("INCONCLUSIVE property=%s cell=%s %s\n", r.Prop, cell, why)
}

func (r *Run) Sample(s any) {
	r.mu.Lock()
	if len(r.samples) < 8 {
		r.samples = append(r.samples, s)
	}
	r.mu.Unlock()
}

// Fail records a failing cell: known finding or violation. witness is written to a replay file.
func (r *Run) Fail(cell string, witness map[string]any) {
	traceCell(cell, fmt.Sprint("FAIL ", witness["diff"]))
	r.mu.Lock()
	defer r.mu.Unlock()
	r.Evals++
	r.distinct[cell] = struct{}{}
	if f := r.matchKnown(cell); f != nil {
		r.hitKnown[f.ID]++
		return
	}
	for _, c := range r.violCell {
		if c == cell {
			return
		}
	}
	dir := filepath.Join(r.Root, "replays", r.Prop)
	os.MkdirAll(dir, 0o755)
	name := fmt.Sprintf("%s-%016x.json", r.Tier, Hash64(cell))
	path := filepath.Join(dir, name)
	witness["property"] = r.Prop
	witness["cell"] = cell
	witness["seed"] = r.Seed
	witness["tier"] = r.Tier
	b, _ := json.MarshalIndent(witness, "", " ")
	os.WriteFile(path, b, 0o644)
	r.viol = append(r.viol, path)
	r.violCell = append(r.violCell, cell)
	if len(r.viol) <= 25 && os.Getenv("VERIF_QUIET") == "" {
		fmt.Printf("VIOLATION property=%s replay=%s\n", r.Prop, path)
		fmt.Printf("  cell=%s\n", cell)
		if d, ok := witness["diff"]; ok {
			s := fmt.Sprint(d)
			if len(s) > 600 {
				s = s[:600] + "..."
			}
			fmt.Printf("  %s\n", strings.ReplaceAll(s, "\n", "\n  "))
		}
	}
}

func (r *Run) Violations() int { return len(r.viol) }

// ExpectKnown declares that an open finding's witness was run and did NOT fail: it is reported
// so the record can be turned into "fixed"; it does not fail the run.
func (r *Run) Finish() {
	wall := time.Since(r.start).Seconds()
	// known findings: one line per open record hit
	var ids []string
	for id := range r.hitKnown {
		ids = append(ids, id)
	}
	sort.Strings(ids)
	known := map[string]int{}
	for _, id := range ids {
		for _, f := range r.findings {
			if f.ID == id {
				fmt.Printf("KNOWN-FINDING: property=%s %s [%s] (%d failing cells)\n", r.Prop, f.What, f.ID, r.hitKnown[id])
				known[id] = r.hitKnown[id]
			}
		}
	}
	cov := map[string]any{
		"evaluations":         r.Evals,
		"distinct_nontrivial": len(r.distinct),
		"rule":                r.Rule,
		"samples":             r.samples,
		"inconclusive":        r.Inconcl,
		"known_findings_hit":  known,
		"exhaustive":          r.Exhaust,
	}
	for k, v := range r.Extra {
		cov[k] = v
	}
	if len(r.samples) == 0 {
		cov["samples"] = []any{"(none)"}
	}
	ev := map[string]any{
		"property_id": r.Prop,
		"tier":        r.Tier,
		"seed":        int64(r.Seed & 0x7fffffffffffffff),
		"level":       "exploration",
		"coverage":    cov,
		"assumptions": r.Assume,
		"wall_s":      wall,
		"violations":  len(r.viol),
	}
	if r.Replay == "" {
		b, _ := json.MarshalIndent(ev, "", " ")
		os.MkdirAll(filepath.Join(r.Root, "evidence"), 0o755)
		tmp := filepath.Join(r.Root, "evidence", fmt.Sprintf(".%s.%d.tmp", r.Prop, os.Getpid()))
		os.WriteFile(tmp, b, 0o644)
		os.Rename(tmp, filepath.Join(r.Root, "evidence", r.Prop+".json"))
	}
	fmt.Printf("SUMMARY property=%s tier=%s seed=%d evaluations=%d distinct=%d inconclusive=%d known=%d violations=%d wall=%.1fs\n",
		r.Prop, r.Tier, r.Seed, r.Evals, len(r.distinct), r.Inconcl, len(known), len(r.viol), wall)
	os.RemoveAll(r.Work)
	if len(r.viol) > 0 {
		os.Exit(1)
	}
	if r.Evals == 0 {
		fmt.Printf("BROKEN-CHECK property=%s: no conclusive evaluation\n", r.Prop)
		os.Exit(3)
	}
	os.Exit(0)
}
