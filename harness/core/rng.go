package core

// Rng is a splitmix64 stream: deterministic, seedable, no global state.
type Rng struct{ s uint64 }

func NewRng(seed uint64) *Rng { return &Rng{s: seed*0x9E3779B97F4A7C15 + 0x1234567} }

// Sub derives an independent stream from a label (FNV-1a of the label mixed with the state).
func (r *Rng) Sub(label string) *Rng {
	h := uint64(1469598103934665603)
	for i := 0; i < len(label); i++ {
		h ^= uint64(label[i])
		h *= 1099511628211
	}
	return &Rng{s: r.s ^ h}
}

func (r *Rng) U64() uint64 {
	r.s += 0x9E3779B97F4A7C15
	z := r.s
	z = (z ^ (z >> 30)) * 0xBF58476D1CE4E5B9
	z = (z ^ (z >> 27)) * 0x94D049BB133111EB
	return z ^ (z >> 31)
}

func (r *Rng) Intn(n int) int {
	if n <= 1 {
		return 0
	}
	return int(r.U64() % uint64(n))
}

func (r *Rng) Bool() bool           { return r.U64()&1 == 1 }
func (r *Rng) Chance(p, q int) bool { return r.Intn(q) < p }
func (r *Rng) Range(lo, hi int) int { return lo + r.Intn(hi-lo+1) }

func Pick[T any](r *Rng, xs []T) T { return xs[r.Intn(len(xs))] }

func Shuffle[T any](r *Rng, xs []T) {
	for i := len(xs) - 1; i > 0; i-- {
		j := r.Intn(i + 1)
		xs[i], xs[j] = xs[j], xs[i]
	}
}

// Hash64 is FNV-1a, for stable ids.
func Hash64(s string) uint64 {
	h := uint64(1469598103934665603)
	for i := 0; i < len(s); i++ {
		h ^= uint64(s[i])
		h *= 1099511628211
	}
	return h
}
