package core

import (
	"fmt"
	"os"
	"sort"
	"strings"
)

// Cell is a verdict unit inside a generated program: independent of every other cell.
type Cell struct {
	ID    string   // stable, structural identity
	Fn    string   // name of the niladic entry function
	Decls string   // top-level declarations (including func Fn())
	Tags  []string // feature tags
	N     int      // number of observations expected (informational)
}

// CellProgram is a set of cells rendered into one main package.
type CellProgram struct {
	Name    string
	Imports []string // besides fmt
	Shared  string   // shared, immutable helper declarations
	Cells   []Cell
	Tail    string // statements appended to main after all cells (e.g. an uncaught panic)
}

const cellRuntime = `
var curCell string

type userPanic struct{ v int }

func obs(tag string, vs ...interface{}) {
	fmt.Print("#", curCell, " ", tag)
	for _, v := range vs {
		fmt.Print(" ", v)
	}
	fmt.Println()
}

func runCell(id string, f func()) {
	curCell = id
	defer func() {
		if r := recover(); r != nil {
			switch v := r.(type) {
			case userPanic:
				fmt.Println("#"+id, "panic user", v.v)
			case string:
				if len(v) > 5 && v[:5] == "user:" {
					fmt.Println("#"+id, "panic", v)
				} else {
					fmt.Println("#"+id, "panic fault")
				}
			default:
				fmt.Println("#"+id, "panic fault")
			}
		}
	}()
	f()
	fmt.Println("#"+id, "end")
}
`

// Render renders the program restricted to the cells in subset (nil = all).
func (p *CellProgram) Render(subset []int) string {
	var b strings.Builder
	b.WriteString("package main\n\nimport (\n\t\"fmt\"\n")
	for _, im := range p.Imports {
		if im != "fmt" {
			fmt.Fprintf(&b, "\t%q\n", im)
		}
	}
	b.WriteString(")\n")
	b.WriteString(cellRuntime)
	b.WriteString(p.Shared)
	b.WriteString("\n")
	if subset == nil {
		subset = make([]int, len(p.Cells))
		for i := range subset {
			subset[i] = i
		}
	}
	for _, i := range subset {
		b.WriteString(p.Cells[i].Decls)
		b.WriteString("\n")
	}
	b.WriteString("func main() {\n")
	for _, i := range subset {
		fmt.Fprintf(&b, "\trunCell(%q, %s)\n", p.Cells[i].ID, p.Cells[i].Fn)
	}
	if p.Tail != "" {
		b.WriteString(p.Tail)
		b.WriteString("\n")
	}
	b.WriteString("}\n")
	return b.String()
}

// SplitCells groups output lines by their "#<cell> " prefix. Lines without prefix go to "".
func SplitCells(out string) map[string][]string {
	m := map[string][]string{}
	for _, l := range strings.Split(out, "\n") {
		if l == "" {
			continue
		}
		if l[0] == '#' {
			if sp := strings.IndexByte(l, ' '); sp > 0 {
				m[l[1:sp]] = append(m[l[1:sp]], l[sp+1:])
				continue
			}
		}
		m[""] = append(m[""], l)
	}
	return m
}

func firstDiff(a, b []string) string {
	n := len(a)
	if len(b) < n {
		n = len(b)
	}
	for i := 0; i < n; i++ {
		if a[i] != b[i] {
			return fmt.Sprintf("line %d: native %q, yaegi %q", i, a[i], b[i])
		}
	}
	if len(a) != len(b) {
		var x string
		if len(a) > n {
			x = "native has more: " + a[n]
		} else {
			x = "yaegi has more: " + b[n]
		}
		return fmt.Sprintf("line %d: %s (native %d lines, yaegi %d lines)", n, x, len(a), len(b))
	}
	return ""
}

func eqLines(a, b []string) bool {
	if len(a) != len(b) {
		return false
	}
	for i := range a {
		if a[i] != b[i] {
			return false
		}
	}
	return true
}

// CellVerdict is the outcome for one cell.
type CellVerdict struct {
	Cell   *Cell
	Prog   *CellProgram
	OK     bool
	Diff   string
	Native []string
	Yaegi  []string
	YErr   string
}

// DiffPrograms runs every program natively and under yaegi (child pool), compares per cell, and
// bisects programs that yaegi rejects or crashes on as a whole. Calls report for every cell.
// Returns the number of programs whose native build failed (generator bugs).
func DiffPrograms(r *Run, pool *Pool, progs []*CellProgram, report func(v *CellVerdict)) (genRejects int) {
	type natOut struct {
		res *NativeResult
	}
	nat := make([]*NativeResult, len(progs))
	done := make(chan int, len(progs))
	for i := range progs {
		go func(i int) {
			nat[i] = Native(map[string]string{"main.go": progs[i].Render(nil)}, r.Work)
			done <- i
		}(i)
	}
	cases := make([]Case, len(progs))
	for i, p := range progs {
		cases[i] = Case{ID: p.Name, Mode: "eval", Src: p.Render(nil), TimeoutMs: 120000}
	}
	yres := pool.RunCases(cases)
	for range progs {
		<-done
	}
	for i, p := range progs {
		n := nat[i]
		if n.BuildErr != "" || n.Timeout {
			genRejects++
			fmt.Printf("GENERATOR-REJECT program=%s: %s\n", p.Name, firstLines(n.BuildErr, 6))
			if d := os.Getenv("VERIF_DUMP_REJECTS"); d != "" {
				os.WriteFile(d+"/"+p.Name+".go", []byte(p.Render(nil)), 0o644)
			}
			continue
		}
		nc := SplitCells(n.Out)
		y := yres[i]
		tailOK := true
		if p.Tail != "" {
			// ending of the whole program is part of the comparison
			ne, ye := n.Ending(), y.Ending()
			if ne != ye {
				tailOK = false
			}
		}
		if y.Ending() == "ok" || (y.Ending() == "panic" && p.Tail != "" && n.Ending() == "panic") {
			yc := SplitCells(y.Out)
			for k := range p.Cells {
				c := &p.Cells[k]
				v := &CellVerdict{Cell: c, Prog: p, Native: nc[c.ID], Yaegi: yc[c.ID]}
				v.OK = eqLines(v.Native, v.Yaegi)
				if !v.OK {
					v.Diff = firstDiff(v.Native, v.Yaegi)
				}
				report(v)
			}
			if len(nc[""]) > 0 || len(yc[""]) > 0 {
				if !eqLines(nc[""], yc[""]) {
					report(&CellVerdict{Cell: &Cell{ID: p.Name + "/unprefixed"}, Prog: p, Native: nc[""], Yaegi: yc[""], Diff: firstDiff(nc[""], yc[""])})
				}
			}
			if p.Tail != "" {
				c := &Cell{ID: p.Name + "/tail"}
				v := &CellVerdict{Cell: c, Prog: p, OK: tailOK}
				if tailOK && n.Ending() == "panic" {
					np := n.PanicLine()
					v.Native = []string{np}
					v.Yaegi = []string{y.PanicValue}
				}
				if !tailOK {
					v.Diff = fmt.Sprintf("ending: native %s, yaegi %s (%s)", n.Ending(), y.Ending(), firstLines(y.ErrText, 2))
				}
				report(v)
			}
			continue
		}
		if n.Ending() != "ok" && p.Tail == "" {
			genRejects++
			fmt.Printf("GENERATOR-REJECT program=%s: native ended %s: %s\n", p.Name, n.Ending(), firstLines(n.Stderr, 4))
			continue
		}
		// yaegi failed on the whole program: bisect over cells
		bisect(r, pool, p, nc, y, report)
	}
	return genRejects
}

func firstLines(s string, n int) string {
	ls := strings.Split(strings.TrimSpace(s), "\n")
	if len(ls) > n {
		ls = ls[:n]
	}
	return strings.Join(ls, " | ")
}

func bisect(r *Run, pool *Pool, p *CellProgram, nc map[string][]string, whole *Result, report func(v *CellVerdict)) {
	all := make([]int, len(p.Cells))
	for i := range all {
		all[i] = i
	}
	tail := p.Tail
	p2 := *p
	p2.Tail = ""
	var rec func(sub []int, known *Result)
	rec = func(sub []int, known *Result) {
		if len(sub) == 0 {
			return
		}
		y := known
		if y == nil {
			y = pool.RunCases([]Case{{ID: p.Name, Mode: "eval", Src: p2.Render(sub), TimeoutMs: 120000}})[0]
		}
		if y.Ending() == "ok" {
			yc := SplitCells(y.Out)
			for _, k := range sub {
				c := &p.Cells[k]
				v := &CellVerdict{Cell: c, Prog: p, Native: nc[c.ID], Yaegi: yc[c.ID]}
				v.OK = eqLines(v.Native, v.Yaegi)
				if !v.OK {
					v.Diff = firstDiff(v.Native, v.Yaegi)
				}
				report(v)
			}
			return
		}
		if len(sub) == 1 {
			c := &p.Cells[sub[0]]
			msg := y.ErrText
			if y.HostPanic != "" {
				msg = "host panic: " + y.HostPanic
			}
			if y.Crash {
				msg = "child crashed: " + y.CrashMsg
			}
			report(&CellVerdict{Cell: c, Prog: p, Native: nc[c.ID], YErr: msg,
				Diff: fmt.Sprintf("yaegi ended %s: %s", y.Ending(), firstLines(msg, 3))})
			return
		}
		h := len(sub) / 2
		rec(sub[:h], nil)
		rec(sub[h:], nil)
	}
	if tail != "" {
		rec(all, nil)
		report(&CellVerdict{Cell: &Cell{ID: p.Name + "/tail"}, Prog: p, Diff: "whole program failed: " + firstLines(whole.ErrText+whole.HostPanic+whole.CrashMsg, 3)})
		return
	}
	rec(all, whole)
}

// SingleCellSource renders one cell on its own (for witnesses).
func (p *CellProgram) SingleCellSource(id string) string {
	for i := range p.Cells {
		if p.Cells[i].ID == id {
			q := *p
			q.Tail = ""
			return q.Render([]int{i})
		}
	}
	return p.Render(nil)
}

func SortedKeys[V any](m map[string]V) []string {
	ks := make([]string, 0, len(m))
	for k := range m {
		ks = append(ks, k)
	}
	sort.Strings(ks)
	return ks
}
