package core

import (
	"bytes"
	"context"
	"crypto/sha256"
	"encoding/base64"
	"encoding/hex"
	"encoding/json"
	"fmt"
	"os"
	"os/exec"
	"path/filepath"
	"strconv"
	"strings"
	"sync"
	"time"
	"unicode/utf8"
)

// NativeResult is the observation of the gc-built program.
type NativeResult struct {
	Out      string `json:"out"`
	Stderr   string `json:"stderr"`
	Exit     int    `json:"exit"`
	BuildErr string `json:"build_err,omitempty"`
	Timeout  bool   `json:"timeout,omitempty"`
	OutB64   string `json:"out_b64,omitempty"` // Out when it is not valid UTF-8
}

// Ending maps the native exit to the same vocabulary as Result.Ending.
func (n *NativeResult) Ending() string {
	switch {
	case n.BuildErr != "":
		return "BUILDERR"
	case n.Timeout:
		return "TIMEOUT"
	case n.Exit == 0:
		return "ok"
	case n.Exit == 2 && strings.Contains(n.Stderr, "panic: "):
		return "panic"
	case n.Exit == 2 && strings.Contains(n.Stderr, "fatal error: "):
		return "fatal"
	}
	return fmt.Sprintf("exit%d", n.Exit)
}

// PanicLine returns the text after "panic: " of the native stderr (first line), with gc's
// decorations for error/Stringer values removed as far as they are purely syntactic.
func (n *NativeResult) PanicLine() string {
	i := strings.Index(n.Stderr, "panic: ")
	if i < 0 {
		return ""
	}
	s := n.Stderr[i+7:]
	if j := strings.Index(s, "\n"); j >= 0 {
		s = s[:j]
	}
	return s
}

var nativeSem = make(chan struct{}, 14)

const goVersionTag = "go1.23-lang1.22-v2"

// Native builds and runs a set of files as a main package (files: relative name -> source),
// cached by content. The reference does not depend on /repo.
func Native(files map[string]string, scratch string) *NativeResult {
	return NativeEnv(files, scratch, nil, "")
}

var nativeMu sync.Mutex
var nativeCount, nativeHits int

func NativeStats() (builds, hits int) {
	nativeMu.Lock()
	defer nativeMu.Unlock()
	return nativeCount, nativeHits
}

func NativeEnv(files map[string]string, scratch string, env []string, stdin string) *NativeResult {
	return nativeRun(files, ".", scratch, env, stdin)
}

// NativePkg builds and runs the main package in directory pkg (e.g. "./app") of the module made of files.
func NativePkg(files map[string]string, pkg, scratch string) *NativeResult {
	return nativeRun(files, pkg, scratch, nil, "")
}

func nativeRun(files map[string]string, pkg, scratch string, env []string, stdin string) *NativeResult {
	h := sha256.New()
	h.Write([]byte(goVersionTag))
	if pkg != "." {
		h.Write([]byte("\x03" + pkg))
	}
	names := make([]string, 0, len(files))
	for k := range files {
		names = append(names, k)
	}
	sortStrings(names)
	for _, k := range names {
		fmt.Fprintf(h, "\x00%s\x00%s", k, files[k])
	}
	fmt.Fprintf(h, "\x01%s\x01%s", strings.Join(env, "\x02"), stdin)
	key := hex.EncodeToString(h.Sum(nil))
	cdir := filepath.Join(Root(), ".cache", "native", key[:2])
	cpath := filepath.Join(cdir, key+".json")
	if b, err := os.ReadFile(cpath); err == nil {
		var r NativeResult
		if json.Unmarshal(b, &r) == nil {
			if r.OutB64 != "" {
				if raw, err := base64.StdEncoding.DecodeString(r.OutB64); err == nil {
					r.Out = string(raw)
				}
				r.OutB64 = ""
			}
			nativeMu.Lock()
			nativeHits++
			nativeMu.Unlock()
			return &r
		}
	}
	nativeSem <- struct{}{}
	defer func() { <-nativeSem }()
	nativeMu.Lock()
	nativeCount++
	nativeMu.Unlock()
	dir := filepath.Join(scratch, "native-"+key[:16])
	os.MkdirAll(dir, 0o755)
	defer os.RemoveAll(dir)
	hasMod := false
	for k, v := range files {
		p := filepath.Join(dir, k)
		os.MkdirAll(filepath.Dir(p), 0o755)
		os.WriteFile(p, []byte(v), 0o644)
		if k == "go.mod" {
			hasMod = true
		}
	}
	if !hasMod {
		os.WriteFile(filepath.Join(dir, "go.mod"), []byte("module ref\n\ngo 1.22\n"), 0o644)
	}
	res := &NativeResult{}
	bin := filepath.Join(dir, "ref.bin")
	cmd := exec.Command("go", "build", "-o", bin, pkg)
	cmd.Dir = dir
	cmd.Env = append(os.Environ(), "GOFLAGS=-mod=mod", "GOPROXY=off", "GOSUMDB=off", "GOTOOLCHAIN=local", "GO111MODULE=on")
	if ob, err := cmd.CombinedOutput(); err != nil {
		res.BuildErr = string(ob)
		if len(res.BuildErr) > 4000 {
			res.BuildErr = res.BuildErr[:4000]
		}
		return res // build errors are not cached (could be environmental)
	}
	to := 120 * time.Second
	if v, err := strconv.Atoi(os.Getenv("VERIF_NATIVE_TIMEOUT")); err == nil && v > 0 {
		to = time.Duration(v) * time.Second
	}
	ctx, cancel := context.WithTimeout(context.Background(), to)
	defer cancel()
	run := exec.CommandContext(ctx, bin)
	run.Dir = dir
	if env != nil {
		run.Env = env
	}
	var so, se bytes.Buffer
	run.Stdout, run.Stderr = &so, &se
	run.Stdin = strings.NewReader(stdin)
	err := run.Run()
	res.Out = so.String()
	res.Stderr = se.String()
	if len(res.Stderr) > 6000 {
		res.Stderr = res.Stderr[:6000]
	}
	if ctx.Err() != nil {
		res.Timeout = true
		return res
	}
	if err != nil {
		if ee, ok := err.(*exec.ExitError); ok {
			res.Exit = ee.ExitCode()
		} else {
			res.BuildErr = "run: " + err.Error()
			return res
		}
	}
	os.MkdirAll(cdir, 0o755)
	stored := *res
	if !utf8.ValidString(stored.Out) {
		stored.OutB64 = base64.StdEncoding.EncodeToString([]byte(stored.Out))
		stored.Out = ""
	}
	b, _ := json.Marshal(&stored)
	tmp := fmt.Sprintf("%s.%d.tmp", cpath, os.Getpid())
	if os.WriteFile(tmp, b, 0o644) == nil {
		os.Rename(tmp, cpath)
	}
	return res
}

func sortStrings(a []string) {
	for i := 1; i < len(a); i++ {
		for j := i; j > 0 && a[j] < a[j-1]; j-- {
			a[j], a[j-1] = a[j-1], a[j]
		}
	}
}
