package main

import (
	"fmt"
	"math/big"
	"sort"
	"strings"

	"verifharness/core"
)

// C02: operators and conversions for every numeric kind — the enumerated cross product
// (operator x kind x operand forms x result context x boundary values), compared with gc.

type kind struct {
	name   string
	bits   int
	signed bool
	class  string // int, float, complex, string, bool
}

var intKinds = []kind{
	{"int", 64, true, "int"}, {"int8", 8, true, "int"}, {"int16", 16, true, "int"}, {"int32", 32, true, "int"}, {"int64", 64, true, "int"},
	{"uint", 64, false, "int"}, {"uint8", 8, false, "int"}, {"uint16", 16, false, "int"}, {"uint32", 32, false, "int"}, {"uint64", 64, false, "int"},
	{"uintptr", 64, false, "int"},
}
var floatKinds = []kind{{"float32", 32, true, "float"}, {"float64", 64, true, "float"}}
var complexKinds = []kind{{"complex64", 64, true, "complex"}, {"complex128", 128, true, "complex"}}
var stringKind = kind{"string", 0, false, "string"}
var boolKind = kind{"bool", 0, false, "bool"}

func pow2(n int) *big.Int { return new(big.Int).Lsh(big.NewInt(1), uint(n)) }

func (k kind) minmax() (*big.Int, *big.Int) {
	if k.signed {
		return new(big.Int).Neg(pow2(k.bits - 1)), new(big.Int).Sub(pow2(k.bits-1), big.NewInt(1))
	}
	return big.NewInt(0), new(big.Int).Sub(pow2(k.bits), big.NewInt(1))
}

func (k kind) fits(v *big.Int) bool {
	lo, hi := k.minmax()
	return v.Cmp(lo) >= 0 && v.Cmp(hi) <= 0
}

// intValues returns the boundary set of an integer kind as decimal literals.
func (k kind) intValues() []string {
	lo, hi := k.minmax()
	set := map[string]*big.Int{}
	add := func(v *big.Int) {
		if k.fits(v) {
			set[v.String()] = v
		}
	}
	for _, d := range []int64{-3, -2, -1, 0, 1, 2, 3, 7, 10} {
		add(big.NewInt(d))
	}
	for _, d := range []int64{0, 1} {
		add(new(big.Int).Add(lo, big.NewInt(d)))
		add(new(big.Int).Sub(hi, big.NewInt(d)))
	}
	h := k.bits / 2
	for _, d := range []int64{-1, 0, 1} {
		add(new(big.Int).Add(pow2(h), big.NewInt(d)))
		add(new(big.Int).Add(pow2(k.bits-2), big.NewInt(d)))
		if k.signed {
			add(new(big.Int).Neg(new(big.Int).Add(pow2(h), big.NewInt(d))))
		} else {
			add(new(big.Int).Add(pow2(k.bits-1), big.NewInt(d)))
		}
	}
	vs := make([]*big.Int, 0, len(set))
	for _, v := range set {
		vs = append(vs, v)
	}
	sort.Slice(vs, func(i, j int) bool { return vs[i].Cmp(vs[j]) < 0 })
	out := make([]string, len(vs))
	for i, v := range vs {
		out[i] = v.String()
	}
	return out
}

// constSubset: a smaller set for constant operand forms (each constant value is its own function).
func (k kind) intConstValues() []string {
	lo, hi := k.minmax()
	set := map[string]*big.Int{}
	for _, v := range []*big.Int{lo, hi, big.NewInt(0), big.NewInt(1), big.NewInt(-1), big.NewInt(3), pow2(k.bits / 2), new(big.Int).Sub(hi, big.NewInt(1))} {
		if k.fits(v) {
			set[v.String()] = v
		}
	}
	vs := make([]*big.Int, 0, len(set))
	for _, v := range set {
		vs = append(vs, v)
	}
	sort.Slice(vs, func(i, j int) bool { return vs[i].Cmp(vs[j]) < 0 })
	out := make([]string, len(vs))
	for i, v := range vs {
		out[i] = v.String()
	}
	return out
}

func floatVarValues(k kind) []string {
	vs := []string{"0", "math.Copysign(0, -1)", "1", "-1", "0.5", "2", "3", "-2.75", "16777217", "1e10", "-1e10", "math.NaN()", "math.Inf(1)", "math.Inf(-1)"}
	if k.bits == 32 {
		vs = append(vs, "math.MaxFloat32", "1e-45", "1.17549435e-38", "3.4e38")
	} else {
		vs = append(vs, "math.MaxFloat64", "5e-324", "2.2250738585072014e-308", "9007199254740993", "0.1")
	}
	out := make([]string, len(vs))
	for i, v := range vs {
		out[i] = k.name + "(" + v + ")"
	}
	return out
}

func floatConstValues(k kind) []string {
	vs := []string{"0", "1", "-1", "0.5", "3", "16777217", "-2.75"}
	if k.bits == 32 {
		vs = append(vs, "3.4e38", "1e-45")
	} else {
		vs = append(vs, "1.7e308", "5e-324", "0.1")
	}
	return vs
}

func complexVarValues(k kind) []string {
	fk := "float64"
	if k.bits == 64 {
		fk = "float32"
	}
	raw := [][2]string{{"0", "0"}, {"1", "2"}, {"-1.5", "0.5"}, {"3", "-4"}, {"0", "1"}, {"1e10", "-1e-10"}, {"math.Inf(1)", "0"}, {"math.NaN()", "1"}}
	out := make([]string, len(raw))
	for i, v := range raw {
		out[i] = fmt.Sprintf("complex(%s(%s), %s(%s))", fk, v[0], fk, v[1])
	}
	return out
}

func complexConstValues() []string {
	return []string{"0", "1", "(1+2i)", "(-1.5+0.5i)", "3i"}
}

var stringValues = []string{`""`, `"a"`, `"ab"`, `"b"`, `"\x00"`, `"é"`, `"abc"`, `"aB"`}
var boolValues = []string{"false", "true"}

func (k kind) varValues() []string {
	switch k.class {
	case "int":
		return k.intValues()
	case "float":
		return floatVarValues(k)
	case "complex":
		return complexVarValues(k)
	case "string":
		return stringValues
	}
	return boolValues
}

// tieConstValues: constants just above a float32 rounding tie by less than a float64 ulp; rounding
// them twice (exact -> float64 -> float32) gives a different result than rounding once.
func (k kind) tieConstValues() []string {
	switch k.name {
	case "float32":
		return []string{"16777217.0000000001", "1.000000059604644775390625001", "-16777219.0000000001"}
	case "complex64":
		return []string{"(16777217.0000000001+1.000000059604644775390625001i)", "(2-16777219.0000000001i)"}
	}
	return nil
}

func (k kind) constValues() []string {
	switch k.class {
	case "int":
		return k.intConstValues()
	case "float":
		return floatConstValues(k)
	case "complex":
		return complexConstValues()
	case "string":
		return []string{`""`, `"a"`, `"ab"`, `"é"`}
	}
	return boolValues
}

type binop struct {
	tok, name string
	classes   string // which classes: i f c s b
	cmp       bool
	logical   bool
	canPanic  bool
}

var binops = []binop{
	{"+", "add", "ifcs", false, false, false}, {"-", "sub", "ifc", false, false, false}, {"*", "mul", "ifc", false, false, false},
	{"/", "quo", "ifc", false, false, true}, {"%", "rem", "i", false, false, true},
	{"&", "and", "i", false, false, false}, {"|", "or", "i", false, false, false}, {"^", "xor", "i", false, false, false}, {"&^", "andnot", "i", false, false, false},
	{"==", "eq", "ifcsb", true, false, false}, {"!=", "ne", "ifcsb", true, false, false},
	{"<", "lt", "ifs", true, false, false}, {"<=", "le", "ifs", true, false, false}, {">", "gt", "ifs", true, false, false}, {">=", "ge", "ifs", true, false, false},
	{"&&", "land", "b", false, true, false}, {"||", "lor", "b", false, true, false},
}

func classLetter(c string) byte {
	switch c {
	case "int":
		return 'i'
	case "float":
		return 'f'
	case "complex":
		return 'c'
	case "string":
		return 's'
	}
	return 'b'
}

type c02gen struct {
	cells  []core.Cell
	shared strings.Builder
	nfn    int
	safe   map[string]bool
	arrs   map[string]string
}

func (g *c02gen) fn() string { g.nfn++; return fmt.Sprintf("f%d", g.nfn) }

// valArray declares (once) a shared slice of the var values of a kind and returns its name.
func (g *c02gen) valArray(k kind) string {
	name := "v_" + k.name
	if _, ok := g.arrs[name]; !ok {
		g.arrs[name] = name
		fmt.Fprintf(&g.shared, "var %s = []%s{%s}\n", name, k.name, strings.Join(k.varValues(), ", "))
	}
	return name
}

func (g *c02gen) namedArray(name, typ string, vals []string) string {
	if _, ok := g.arrs[name]; !ok {
		g.arrs[name] = name
		fmt.Fprintf(&g.shared, "var %s = []%s{%s}\n", name, typ, strings.Join(vals, ", "))
	}
	return name
}

// safe2 declares a recover-wrapper for func(A,B) R and returns its name.
func (g *c02gen) safe2(a, b, r string) string {
	name := "safe_" + a + "_" + b + "_" + strings.NewReplacer("{", "", "}", "", " ", "").Replace(r)
	if !g.safe[name] {
		g.safe[name] = true
		fmt.Fprintf(&g.shared, "func %s(f func(%s, %s) %s, a %s, b %s) %s {\n\tdefer func() {\n\t\tif x := recover(); x != nil {\n\t\t\tpanicked = true\n\t\t}\n\t}()\n\tpanicked = false\n\treturn f(a, b)\n}\n", name, a, b, r, a, b, r)
	}
	return name
}

func (g *c02gen) safe1(a, r string) string {
	name := "safe1_" + a + "_" + strings.NewReplacer("{", "", "}", "", " ", "", "[", "S", "]", "").Replace(r)
	if !g.safe[name] {
		g.safe[name] = true
		fmt.Fprintf(&g.shared, "func %s(f func(%s) %s, a %s) %s {\n\tdefer func() {\n\t\tif x := recover(); x != nil {\n\t\t\tpanicked = true\n\t\t}\n\t}()\n\tpanicked = false\n\treturn f(a)\n}\n", name, a, r, a, r)
	}
	return name
}

func fmtVerb(k kind) string {
	if k.class == "string" {
		return "q"
	}
	return "v"
}

// body renders the function body for a result context. expr is the operation, rt the result type.
// For opassign, l is the left operand expression and must be usable to initialise r.
func ctxBody(ctx string, rt kind, expr, l, tok, rexpr string) string {
	switch ctx {
	case "assign":
		return fmt.Sprintf("\tvar r %s\n\tr = %s\n\treturn r\n", rt.name, expr)
	case "define":
		return fmt.Sprintf("\tr := %s\n\treturn r\n", expr)
	case "opassign":
		return fmt.Sprintf("\tr := %s\n\tr %s= %s\n\treturn r\n", l, tok, rexpr)
	case "return":
		return fmt.Sprintf("\treturn %s\n", expr)
	case "cond":
		// only for bool results
		return fmt.Sprintf("\tif %s {\n\t\treturn true\n\t}\n\treturn false\n", expr)
	case "forcond":
		return fmt.Sprintf("\tn := 0\n\tfor %s {\n\t\tn++\n\t\tif n > 2 {\n\t\t\tbreak\n\t\t}\n\t}\n\treturn n > 0\n", expr)
	case "switch":
		return fmt.Sprintf("\tswitch {\n\tcase %s:\n\t\treturn true\n\t}\n\treturn false\n", expr)
	case "iface":
		return fmt.Sprintf("\tvar i interface{} = %s\n\treturn fmt.Sprintf(\"%%v\", i)\n", expr)
	case "arg":
		return fmt.Sprintf("\treturn id_%s(%s)\n", rt.name, expr)
	case "field":
		return fmt.Sprintf("\tvar s struct{ x int; f %s }\n\ts.f = %s\n\treturn s.f\n", rt.name, expr)
	case "elem":
		return fmt.Sprintf("\tsl := make([]%s, 2)\n\tsl[1] = %s\n\treturn sl[1]\n", rt.name, expr)
	}
	panic("ctx " + ctx)
}

func sanitize(s string) string {
	return strings.NewReplacer("-", "m", ".", "p", "(", "", ")", "", "+", "P", "\"", "", "\\", "", " ", "", "é", "e").Replace(s)
}

func (g *c02gen) idFn(k kind) {
	name := "id_" + k.name
	if !g.safe[name] {
		g.safe[name] = true
		fmt.Fprintf(&g.shared, "func %s(x %s) %s { return x }\n", name, k.name, k.name)
	}
}

// binary generates the cells of one (op, kind).
func (g *c02gen) binary(op binop, k kind) {
	forms := []string{"var", "lit", "uconst", "tconst"}
	var ctxs []string
	resK := k
	switch {
	case op.cmp || op.logical:
		resK = boolKind
		ctxs = []string{"assign", "return", "cond", "forcond", "switch", "iface"}
	default:
		ctxs = []string{"assign", "define", "opassign", "return", "iface", "arg", "field", "elem"}
	}
	if k.class == "bool" && op.cmp {
		ctxs = []string{"assign", "return", "cond", "iface"}
	}
	for _, fl := range forms {
		for _, fr := range forms {
			if fl != "var" && fr != "var" {
				continue // constant expression: C03
			}
			for _, ctx := range ctxs {
				if ctx == "opassign" && fl != "var" {
					continue
				}
				g.binaryCell(op, k, resK, fl, fr, ctx, false)
				if (fl != "var" || fr != "var") && k.tieConstValues() != nil && (ctx == "assign" || ctx == "return" || ctx == "iface") {
					g.binaryCell(op, k, resK, fl, fr, ctx, true)
				}
			}
		}
	}
}

func zeroConst(k kind, v string) bool {
	switch k.class {
	case "int", "float":
		return v == "0"
	case "complex":
		return v == "0"
	}
	return false
}

func (g *c02gen) binaryCell(op binop, k, resK kind, fl, fr, ctx string, tie bool) {
	id := fmt.Sprintf("C02/%s/%s/%s.%s/%s", op.name, k.name, fl, fr, ctx)
	if tie {
		id += "/tie"
	}
	var b strings.Builder
	entry := g.fn()
	rt := resK
	rtName := rt.name
	if ctx == "iface" {
		rtName = "string"
	}
	if ctx == "arg" {
		g.idFn(rt)
	}
	arr := g.valArray(k)
	verb := "v"
	if rt.class == "string" && ctx != "iface" {
		verb = "q"
	}
	_ = verb
	var calls strings.Builder
	mk := func(constVal string) {
		// one operation function
		f := g.fn()
		var decl, l, r string
		cname := "k" + f
		switch {
		case fl == "var" && fr == "var":
			l, r = "a", "b"
		case fl == "var":
			l = "a"
			r = constOperand(fr, cname, k, constVal, &decl)
		default:
			r = "a"
			l = constOperand(fl, cname, k, constVal, &decl)
		}
		expr := l + " " + op.tok + " " + r
		body := ctxBody(ctx, rt, expr, l, op.tok, r)
		if fl == "var" && fr == "var" {
			fmt.Fprintf(&b, "%sfunc %s(a, b %s) %s {\n%s}\n", decl, f, k.name, rtName, body)
			if op.canPanic && k.class == "int" {
				s := g.safe2(k.name, k.name, rtName)
				fmt.Fprintf(&calls, "\tfor _, a := range %s {\n\t\tfor _, b := range %s {\n\t\t\tr := %s(%s, a, b)\n\t\t\tif panicked {\n\t\t\t\tobs(\"vv\", a, b, \"panic\")\n\t\t\t} else {\n\t\t\t\tobs(\"vv\", a, b, r)\n\t\t\t}\n\t\t}\n\t}\n", arr, arr, s, f)
			} else {
				fmt.Fprintf(&calls, "\tfor _, a := range %s {\n\t\tfor _, b := range %s {\n\t\t\tobs(\"vv\", a, b, %s(a, b))\n\t\t}\n\t}\n", arr, arr, f)
			}
			return
		}
		fmt.Fprintf(&b, "%sfunc %s(a %s) %s {\n%s}\n", decl, f, k.name, rtName, body)
		if op.canPanic && k.class == "int" {
			s := g.safe1(k.name, rtName)
			fmt.Fprintf(&calls, "\tfor _, a := range %s {\n\t\tr := %s(%s, a)\n\t\tif panicked {\n\t\t\tobs(%q, a, \"panic\")\n\t\t} else {\n\t\t\tobs(%q, a, r)\n\t\t}\n\t}\n", arr, s, f, "c"+constVal, "c"+constVal)
		} else {
			fmt.Fprintf(&calls, "\tfor _, a := range %s {\n\t\tobs(%q, a, %s(a))\n\t}\n", arr, "c"+constVal, f)
		}
	}
	n := 0
	if fl == "var" && fr == "var" {
		mk("")
		n = len(k.varValues()) * len(k.varValues())
	} else {
		cvs := k.constValues()
		if tie {
			cvs = k.tieConstValues()
		}
		for _, cv := range cvs {
			if fr != "var" && (op.tok == "/" || op.tok == "%") && zeroConst(k, cv) {
				continue // constant zero divisor: compile error (C03)
			}
			mk(cv)
			n += len(k.varValues())
		}
	}
	fmt.Fprintf(&b, "func %s() {\n%s}\n", entry, calls.String())
	g.cells = append(g.cells, core.Cell{ID: id, Fn: entry, Decls: b.String(), N: n})
}

func constOperand(form, cname string, k kind, val string, decl *string) string {
	switch form {
	case "lit":
		if strings.HasPrefix(val, "-") {
			return "(" + val + ")"
		}
		return val
	case "uconst":
		*decl += fmt.Sprintf("const %s = %s\n", cname, val)
		return cname
	case "tconst":
		*decl += fmt.Sprintf("const %s %s = %s\n", cname, k.name, val)
		return cname
	}
	panic(form)
}

// shifts: (shl|shr, K, K2) with var/var, var/const-count and literal-left forms.
func (g *c02gen) shifts() {
	for _, op := range []struct{ tok, name string }{{"<<", "shl"}, {">>", "shr"}} {
		for _, k := range intKinds {
			for _, k2 := range intKinds {
				counts := shiftCounts(k, k2)
				cntArr := g.namedArray("sc_"+k.name+"_"+k2.name, k2.name, counts)
				arr := g.valArray(k)
				for _, ctx := range []string{"assign", "opassign", "return", "iface"} {
					// var << var
					id := fmt.Sprintf("C02/%s/%s.%s/var.var/%s", op.name, k.name, k2.name, ctx)
					entry, f := g.fn(), g.fn()
					rtName := k.name
					if ctx == "iface" {
						rtName = "string"
					}
					var b strings.Builder
					fmt.Fprintf(&b, "func %s(a %s, b %s) %s {\n%s}\n", f, k.name, k2.name, rtName, ctxBody(ctx, k, "a "+op.tok+" b", "a", op.tok, "b"))
					s := g.safe2(k.name, k2.name, rtName)
					fmt.Fprintf(&b, "func %s() {\n\tfor _, a := range %s {\n\t\tfor _, b := range %s {\n\t\t\tr := %s(%s, a, b)\n\t\t\tif panicked {\n\t\t\t\tobs(\"vv\", a, b, \"panic\")\n\t\t\t} else {\n\t\t\t\tobs(\"vv\", a, b, r)\n\t\t\t}\n\t\t}\n\t}\n}\n", entry, arr, cntArr, s, f)
					g.cells = append(g.cells, core.Cell{ID: id, Fn: entry, Decls: b.String(), N: len(counts) * len(k.varValues())})
				}
			}
			// var << constant count (untyped literal, untyped named, typed uint8 named)
			for _, form := range []string{"lit", "uconst", "tconst"} {
				for _, ctx := range []string{"assign", "opassign", "return", "iface"} {
					id := fmt.Sprintf("C02/%s/%s/var.%s/%s", op.name, k.name, form, ctx)
					entry := g.fn()
					rtName := k.name
					if ctx == "iface" {
						rtName = "string"
					}
					var b, calls strings.Builder
					arr := g.valArray(k)
					for _, c := range []int{0, 1, 2, k.bits - 1, k.bits, k.bits + 1, 63, 64, 65, 200} {
						f := g.fn()
						decl := ""
						r := constOperand(form, "k"+f, kind{name: "uint8"}, fmt.Sprint(c), &decl)
						fmt.Fprintf(&b, "%sfunc %s(a %s) %s {\n%s}\n", decl, f, k.name, rtName, ctxBody(ctx, k, "a "+op.tok+" "+r, "a", op.tok, r))
						fmt.Fprintf(&calls, "\tfor _, a := range %s {\n\t\tobs(\"c%d\", a, %s(a))\n\t}\n", arr, c, f)
					}
					fmt.Fprintf(&b, "func %s() {\n%s}\n", entry, calls.String())
					g.cells = append(g.cells, core.Cell{ID: id, Fn: entry, Decls: b.String(), N: 10 * len(k.varValues())})
				}
			}
			// constant << var : the untyped constant takes the type of the context
			for _, form := range []string{"lit", "uconst", "tconst"} {
				for _, ctx := range []string{"assign", "return", "arg", "field"} {
					id := fmt.Sprintf("C02/%s/%s/%s.var/%s", op.name, k.name, form, ctx)
					entry := g.fn()
					if ctx == "arg" {
						g.idFn(k)
					}
					var b, calls strings.Builder
					cntArr := g.namedArray("sc_"+k.name+"_uint", "uint", shiftCounts(k, intKinds[5]))
					for _, cv := range []string{"1", "3", "-1", "-8", "127"} {
						if !k.signed && strings.HasPrefix(cv, "-") {
							continue
						}
						f := g.fn()
						decl := ""
						l := constOperand(form, "k"+f, k, cv, &decl)
						fmt.Fprintf(&b, "%sfunc %s(a uint) %s {\n%s}\n", decl, f, k.name, ctxBody(ctx, k, l+" "+op.tok+" a", l, op.tok, "a"))
						fmt.Fprintf(&calls, "\tfor _, a := range %s {\n\t\tobs(%q, a, %s(a))\n\t}\n", cntArr, "c"+cv, f)
					}
					fmt.Fprintf(&b, "func %s() {\n%s}\n", entry, calls.String())
					g.cells = append(g.cells, core.Cell{ID: id, Fn: entry, Decls: b.String(), N: 5 * 9})
				}
			}
		}
	}
}

func shiftCounts(k, k2 kind) []string {
	set := map[string]*big.Int{}
	for _, c := range []int64{0, 1, 2, 5, int64(k.bits) - 1, int64(k.bits), int64(k.bits) + 1, 31, 32, 63, 64, 65, 127, 255, -1, -2, -64} {
		v := big.NewInt(c)
		if k2.fits(v) {
			set[v.String()] = v
		}
	}
	lo, hi := k2.minmax()
	set[lo.String()] = lo
	set[hi.String()] = hi
	vs := make([]*big.Int, 0)
	for _, v := range set {
		vs = append(vs, v)
	}
	sort.Slice(vs, func(i, j int) bool { return vs[i].Cmp(vs[j]) < 0 })
	out := make([]string, len(vs))
	for i, v := range vs {
		out[i] = v.String()
	}
	return out
}

// unary operators, ++/--.
func (g *c02gen) unary() {
	all := append(append(append([]kind{}, intKinds...), floatKinds...), complexKinds...)
	for _, u := range []struct{ tok, name, classes string }{{"-", "neg", "ifc"}, {"+", "pos", "ifc"}, {"^", "bitnot", "i"}} {
		for _, k := range all {
			if !strings.ContainsRune(u.classes, rune(classLetter(k.class))) {
				continue
			}
			for _, form := range []string{"var", "tconst"} {
				for _, ctx := range []string{"assign", "define", "return", "iface", "arg", "elem"} {
					id := fmt.Sprintf("C02/%s/%s/%s/%s", u.name, k.name, form, ctx)
					entry := g.fn()
					rtName := k.name
					if ctx == "iface" {
						rtName = "string"
					}
					if ctx == "arg" {
						g.idFn(k)
					}
					var b, calls strings.Builder
					if form == "var" {
						f := g.fn()
						fmt.Fprintf(&b, "func %s(a %s) %s {\n%s}\n", f, k.name, rtName, ctxBody(ctx, k, u.tok+"a", "", "", ""))
						fmt.Fprintf(&calls, "\tfor _, a := range %s {\n\t\tobs(\"v\", a, %s(a))\n\t}\n", g.valArray(k), f)
					} else {
						for _, cv := range k.constValues() {
							if k.class == "int" {
								// the constant result must be representable (else compile error: C03)
								v, _ := new(big.Int).SetString(cv, 10)
								var res *big.Int
								switch u.tok {
								case "-":
									res = new(big.Int).Neg(v)
								case "^":
									if k.signed {
										res = new(big.Int).Not(v)
									} else {
										res = big.NewInt(0) // ^ of unsigned typed const is masked: always representable
									}
								default:
									res = v
								}
								if !k.fits(res) {
									continue
								}
							}
							f := g.fn()
							fmt.Fprintf(&b, "const k%s %s = %s\nfunc %s() %s {\n%s}\n", f, k.name, cv, f, rtName, ctxBody(ctx, k, u.tok+"k"+f, "", "", ""))
							fmt.Fprintf(&calls, "\tobs(%q, %s())\n", "c"+cv, f)
						}
					}
					fmt.Fprintf(&b, "func %s() {\n%s}\n", entry, calls.String())
					g.cells = append(g.cells, core.Cell{ID: id, Fn: entry, Decls: b.String()})
				}
			}
		}
	}
	// logical not
	for _, ctx := range []string{"assign", "return", "cond", "forcond", "iface"} {
		id := "C02/not/bool/var/" + ctx
		entry, f := g.fn(), g.fn()
		rtName := "bool"
		if ctx == "iface" {
			rtName = "string"
		}
		var b strings.Builder
		fmt.Fprintf(&b, "func %s(a bool) %s {\n%s}\n", f, rtName, ctxBody(ctx, boolKind, "!a", "", "", ""))
		fmt.Fprintf(&b, "func %s() {\n\tfor _, a := range %s {\n\t\tobs(\"v\", a, %s(a))\n\t}\n}\n", entry, g.valArray(boolKind), f)
		g.cells = append(g.cells, core.Cell{ID: id, Fn: entry, Decls: b.String()})
	}
	// inc / dec on variables, fields, elements, pointees
	for _, u := range []struct{ tok, name string }{{"++", "inc"}, {"--", "dec"}} {
		for _, k := range all {
			for _, dst := range []string{"var", "field", "elem", "ptr", "mapelem"} {
				id := fmt.Sprintf("C02/%s/%s/%s", u.name, k.name, dst)
				entry, f := g.fn(), g.fn()
				var body string
				switch dst {
				case "var":
					body = fmt.Sprintf("\tr := a\n\tr%s\n\treturn r\n", u.tok)
				case "field":
					body = fmt.Sprintf("\tvar s struct{ x int; f %s }\n\ts.f = a\n\ts.f%s\n\treturn s.f\n", k.name, u.tok)
				case "elem":
					body = fmt.Sprintf("\ts := []%s{a, a}\n\ts[1]%s\n\treturn s[1]\n", k.name, u.tok)
				case "ptr":
					body = fmt.Sprintf("\tr := a\n\tp := &r\n\t(*p)%s\n\treturn r\n", u.tok)
				case "mapelem":
					body = fmt.Sprintf("\tm := map[string]%s{\"k\": a}\n\tm[\"k\"]%s\n\treturn m[\"k\"]\n", k.name, u.tok)
				}
				var b strings.Builder
				fmt.Fprintf(&b, "func %s(a %s) %s {\n%s}\n", f, k.name, k.name, body)
				fmt.Fprintf(&b, "func %s() {\n\tfor _, a := range %s {\n\t\tobs(\"v\", a, %s(a))\n\t}\n}\n", entry, g.valArray(k), f)
				g.cells = append(g.cells, core.Cell{ID: id, Fn: entry, Decls: b.String()})
			}
		}
	}
}

// conversions between all numeric kinds (variable operands), and string conversions.
func (g *c02gen) conversions() {
	nums := append(append([]kind{}, intKinds...), floatKinds...)
	for _, from := range nums {
		for _, to := range nums {
			for _, ctx := range []string{"assign", "return", "iface", "arg"} {
				id := fmt.Sprintf("C02/conv/%s.%s/%s", from.name, to.name, ctx)
				entry, f := g.fn(), g.fn()
				rtName := to.name
				if ctx == "iface" {
					rtName = "string"
				}
				if ctx == "arg" {
					g.idFn(to)
				}
				arr := g.valArray(from)
				if from.class == "float" && to.class == "int" {
					// only in-range values: out of range float->int is implementation-defined
					lim := "1e18"
					if to.bits < 64 {
						lim = fmt.Sprintf("%d", int64(1)<<(to.bits-1)-1)
					}
					vals := []string{"0", "1", "-1", "0.5", "-0.5", "2.75", "-2.75", "100.999", "127", "-128", "-127.5", lim, "16777216", "1e10", "-1e10", "65535.9", "255.5", "4294967295", "1e-40"}
					var keep []string
					for _, v := range vals {
						fv, _, _ := big.ParseFloat(v, 10, 200, big.ToZero)
						iv, _ := fv.Int(nil)
						if to.fits(iv) {
							if from.bits == 32 {
								// value after rounding to float32 must still fit
								f32, _ := fv.Float32()
								iv2, _ := big.NewFloat(float64(f32)).Int(nil)
								if !to.fits(iv2) {
									continue
								}
							}
							keep = append(keep, from.name+"("+v+")")
						}
					}
					arr = g.namedArray("fv_"+from.name+"_"+to.name, from.name, keep)
				}
				var b strings.Builder
				fmt.Fprintf(&b, "func %s(a %s) %s {\n%s}\n", f, from.name, rtName, ctxBody(ctx, to, to.name+"(a)", "", "", ""))
				fmt.Fprintf(&b, "func %s() {\n\tfor _, a := range %s {\n\t\tobs(\"v\", a, %s(a))\n\t}\n}\n", entry, arr, f)
				g.cells = append(g.cells, core.Cell{ID: id, Fn: entry, Decls: b.String()})
			}
		}
	}
	for _, pr := range [][2]kind{{complexKinds[0], complexKinds[1]}, {complexKinds[1], complexKinds[0]}, {complexKinds[0], complexKinds[0]}, {complexKinds[1], complexKinds[1]}} {
		from, to := pr[0], pr[1]
		for _, ctx := range []string{"assign", "return", "iface"} {
			id := fmt.Sprintf("C02/conv/%s.%s/%s", from.name, to.name, ctx)
			entry, f := g.fn(), g.fn()
			rtName := to.name
			if ctx == "iface" {
				rtName = "string"
			}
			var b strings.Builder
			fmt.Fprintf(&b, "func %s(a %s) %s {\n%s}\n", f, from.name, rtName, ctxBody(ctx, to, to.name+"(a)", "", "", ""))
			fmt.Fprintf(&b, "func %s() {\n\tfor _, a := range %s {\n\t\tobs(\"v\", a, %s(a))\n\t}\n}\n", entry, g.valArray(from), f)
			g.cells = append(g.cells, core.Cell{ID: id, Fn: entry, Decls: b.String()})
		}
	}
	// integer -> string (rune conversion), string <-> []byte / []rune
	runeVals := map[string][]string{}
	for _, k := range intKinds {
		var vs []string
		for _, v := range []int64{0, 65, 233, 0x4e16, 0x10FFFF, 0x110000, 0xD800, -1, 128, 255, 0xFFFD, 1 << 31, 1<<31 - 1, 1 << 40} {
			if k.fits(big.NewInt(v)) {
				vs = append(vs, fmt.Sprint(v))
			}
		}
		runeVals[k.name] = vs
	}
	for _, k := range intKinds {
		for _, ctx := range []string{"assign", "return", "iface"} {
			id := fmt.Sprintf("C02/conv/%s.string/%s", k.name, ctx)
			entry, f := g.fn(), g.fn()
			arr := g.namedArray("rv_"+k.name, k.name, runeVals[k.name])
			var b strings.Builder
			fmt.Fprintf(&b, "func %s(a %s) string {\n%s}\n", f, k.name, ctxBody(ctx, stringKind, "string(rune(a))", "", "", ""))
			_ = arr
			fmt.Fprintf(&b, "func %s() {\n\tfor _, a := range %s {\n\t\tobs(\"v\", a, fmt.Sprintf(\"%%q\", %s(a)))\n\t}\n}\n", entry, arr, f)
			g.cells = append(g.cells, core.Cell{ID: id, Fn: entry, Decls: b.String()})
		}
	}
	strs := g.namedArray("sv_conv", "string", []string{`""`, `"a"`, `"héllo"`, `"\xff\xfe"`, `"a\x00b"`, `"世界"`, `"\xf0\x9f\x98\x80"`, `"\xed\xa0\x80"`})
	for _, c := range []struct{ name, typ, back string }{{"bytes", "[]byte", "string"}, {"runes", "[]rune", "string"}} {
		for _, ctx := range []string{"assign", "return", "iface"} {
			id := fmt.Sprintf("C02/conv/string.%s/%s", c.name, ctx)
			entry, f, f2 := g.fn(), g.fn(), g.fn()
			var b strings.Builder
			body := ""
			switch ctx {
			case "assign":
				body = fmt.Sprintf("\tvar r %s\n\tr = %s(a)\n\treturn r\n", c.typ, c.typ)
			case "return":
				body = fmt.Sprintf("\treturn %s(a)\n", c.typ)
			case "iface":
				body = fmt.Sprintf("\tvar i interface{} = %s(a)\n\treturn i.(%s)\n", c.typ, c.typ)
			}
			fmt.Fprintf(&b, "func %s(a string) %s {\n%s}\n", f, c.typ, body)
			fmt.Fprintf(&b, "func %s(a %s) string {\n\treturn string(a)\n}\n", f2, c.typ)
			fmt.Fprintf(&b, "func %s() {\n\tfor _, a := range %s {\n\t\tx := %s(a)\n\t\tobs(\"v\", fmt.Sprintf(\"%%q %%v %%d %%q\", a, x, len(x), %s(x)))\n\t}\n}\n", entry, strs, f, f2)
			g.cells = append(g.cells, core.Cell{ID: id, Fn: entry, Decls: b.String()})
		}
	}
}

func c02Universe() (cells []core.Cell, shared string) {
	g := &c02gen{safe: map[string]bool{}, arrs: map[string]string{}}
	g.shared.WriteString("var panicked bool\n")
	all := append(append(append(append([]kind{}, intKinds...), floatKinds...), complexKinds...), stringKind, boolKind)
	for _, op := range binops {
		for _, k := range all {
			if strings.IndexByte(op.classes, classLetter(k.class)) < 0 {
				continue
			}
			g.binary(op, k)
		}
	}
	g.shifts()
	g.unary()
	g.conversions()
	return g.cells, g.shared.String()
}

func init() { checks["C02"] = checkC02 }

func checkC02(r *core.Run) {
	cells, shared := c02Universe()
	r.Rule = "cell = (operator|conversion, kind[s], operand forms, result context); each cell evaluates its whole boundary-value set; verdict = per-cell equality of the printed results/panic flags between yaegi and the gc-built binary of the same source; non-trivial = produced at least one compared line"
	r.Assume = []string{"gc build of the same source is the reference", "float->int conversions restricted to in-range values (implementation-defined otherwise)"}
	universe := len(cells)
	var sel []core.Cell
	if r.Thorough() {
		sel = cells
		r.Exhaust = true
	} else {
		// a seed-selected half of the universe, plus the cells of every defect ever found
		// here (open or fixed), so that a regression is noticed by every quick run
		const slices = 2
		for _, c := range cells {
			if core.Hash64(fmt.Sprintf("%d|%s", r.Seed, c.ID))%slices == 0 || c02Regression(c.ID) || r.IsKnown(c.ID) {
				sel = append(sel, c)
			}
		}
	}
	r.Extra["universe_cells"] = universe
	r.Extra["selected_cells"] = len(sel)
	runCellPrograms(r, "C02", sel, shared, []string{"math"}, 120)
}

// runCellPrograms packs cells into programs, diffs them and reports per cell.
func runCellPrograms(r *core.Run, prefix string, sel []core.Cell, shared string, imports []string, per int) {
	var progs []*core.CellProgram
	for i := 0; i < len(sel); i += per {
		j := i + per
		if j > len(sel) {
			j = len(sel)
		}
		progs = append(progs, &core.CellProgram{Name: fmt.Sprintf("%s-prog-%d", prefix, i/per), Imports: imports, Shared: shared, Cells: sel[i:j]})
	}
	pool := newPool(r)
	lines := 0
	classes := map[string]int{}
	rej := core.DiffPrograms(r, pool, progs, func(v *core.CellVerdict) {
		parts := strings.Split(v.Cell.ID, "/")
		if len(parts) > 1 {
			classes[parts[1]]++
		}
		if v.Diff == "" && len(v.Native) > 0 {
			lines += len(v.Native)
			r.OkN(v.Cell.ID, 1)
			if len(v.Native) > 1 {
				r.Sample(map[string]any{"cell": v.Cell.ID, "lines": len(v.Native), "first": v.Native[0]})
			}
			return
		}
		if v.Diff == "" {
			r.Inconclusive(v.Cell.ID, "no output from either side")
			return
		}
		r.Fail(v.Cell.ID, map[string]any{"diff": v.Diff, "source": v.Prog.SingleCellSource(v.Cell.ID), "native": clip(v.Native, 40), "yaegi": clip(v.Yaegi, 40), "yaegi_error": v.YErr})
	})
	r.Extra["programs"] = len(progs)
	r.Extra["result_lines_compared"] = lines
	r.Extra["generator_rejects"] = rej
	r.Extra["cells_by_class"] = classes
	r.Extra["child_crashes"] = pool.Crashes.Load()
	nb, nh := core.NativeStats()
	r.Extra["native_builds"] = nb
	r.Extra["native_cache_hits"] = nh
	if rej > 0 {
		r.Inconcl += rej
	}
}

func clip(a []string, n int) []string {
	if len(a) > n {
		return a[:n]
	}
	return a
}

// c02Regression marks the cells that failed before a fix: commit (see known_findings.jsonl).
func c02Regression(id string) bool {
	p := strings.Split(id, "/")
	switch {
	case (p[1] == "shl" || p[1] == "shr") && p[3] == "var.var" && strings.Contains(p[2], ".int") && (p[4] == "assign" || p[4] == "opassign"):
		return true
	case (p[1] == "inc" || p[1] == "dec") && p[2] == "uintptr":
		return true
	case p[1] == "neg" && len(p) > 3 && p[3] == "tconst":
		return true
	case (p[1] == "add" || p[1] == "mul") && (strings.HasPrefix(p[2], "float") || strings.HasPrefix(p[2], "complex")) && p[3] == "var.var" && p[4] == "return":
		return true
	}
	return false
}
