package main

import (
	"fmt"
	"os"

	"verifharness/core"
)

// vcheck probe file.go : run a program under yaegi (in a child) and natively, print both (development aid).
func init() {
	checks["probe"] = func(r *core.Run) {
		src, err := os.ReadFile(r.Replay)
		if err != nil {
			fmt.Println(err)
			os.Exit(2)
		}
		pool := newPool(r)
		y := pool.RunCases([]core.Case{{ID: "probe", Mode: "eval", Src: string(src)}})[0]
		n := core.Native(map[string]string{"main.go": string(src)}, r.Work)
		fmt.Printf("--- yaegi (%s) ---\n%s", y.Ending(), y.Out)
		if y.Ending() != "ok" {
			fmt.Printf("err: %s\npanic value: %s\nhost panic: %.2000s\ncrash: %.3000s\n", y.ErrText, y.PanicValue, y.HostPanic, y.CrashMsg)
		}
		fmt.Printf("--- native (%s) ---\n%s", n.Ending(), n.Out)
		if n.Ending() != "ok" {
			fmt.Printf("stderr: %.1500s\nbuild: %s\n", n.Stderr, n.BuildErr)
		}
		if y.Out == n.Out && y.Ending() == n.Ending() {
			fmt.Println("=== SAME")
		} else {
			fmt.Println("=== DIFFERENT")
		}
		os.Exit(0)
	}
}
