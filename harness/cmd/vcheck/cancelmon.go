package main

import (
	"bytes"
	"context"
	"fmt"
	"os"
	"reflect"
	"runtime"
	"strings"
	"sync"
	"sync/atomic"
	"testing/fstest"
	"time"

	"github.com/traefik/yaegi/interp"
	"github.com/traefik/yaegi/stdlib"
)

// cancelMon is the step-hook monitor shared by C09 and C10: it counts interpreted operations,
// freezes every interpreted goroutine when the count reaches k, and after release tallies the
// operations and host ticks started per goroutine.
type cancelMon struct {
	count   atomic.Int64
	k       int64
	freeze  atomic.Bool
	post    atomic.Bool
	reached chan struct{}
	once    sync.Once
	gate    chan struct{}
	mu      sync.Mutex
	postOps map[string]int
	events  []string // development aid (VERIF_C09_SHOW)
	trace   []string // first post-return operations: goroutine, frame, frame run id, interpreter run id
	ticks   map[string]int
	preTick atomic.Int64
	frozen  atomic.Int64
	interp  *interp.Interpreter
	// start window: goroutines started by a go statement on a function value are held between the
	// run-id check of the go statement and the call of the function
	holdStarts atomic.Bool
	holdStage  int // 1: before the call of the function; 3: inside the function wrapper, between the reads deciding the run id
	startGate  chan struct{}
	startsHeld atomic.Int64
	// goroutines which began (go statement on a function value) and neither executed an operation nor
	// returned yet: workload shaping waits for this set to drain before cancelling, except in
	// start-window mode
	nStarting atomic.Int64
	starting  map[string]bool
	heldG     map[string]bool // goroutines held in the start window
	first     atomic.Uintptr  // frame of the first operation observed (the global frame)
	atK       atomic.Uintptr  // frame of operation k
}

func newCancelMon(k int64) *cancelMon {
	return &cancelMon{k: k, reached: make(chan struct{}), gate: make(chan struct{}), startGate: make(chan struct{}), starting: map[string]bool{}, heldG: map[string]bool{}, postOps: map[string]int{}, ticks: map[string]int{}}
}

func goid() string {
	var b [64]byte
	n := runtime.Stack(b[:], false)
	s := strings.TrimPrefix(string(b[:n]), "goroutine ")
	if i := strings.IndexByte(s, ' '); i > 0 {
		return s[:i]
	}
	return s
}

func (m *cancelMon) step(ev interp.VerifStep) {
	if ev.Interp != m.interp {
		return // an operation of some other interpreter of this process
	}
	m.started()
	c := m.count.Add(1)
	if c == 1 {
		m.first.Store(ev.Frame)
	}
	if m.k > 0 && c == m.k {
		m.atK.Store(ev.Frame)
		m.freeze.Store(true)
		m.once.Do(func() { close(m.reached) })
	}
	if m.freeze.Load() {
		m.frozen.Add(1)
		<-m.gate
	}
	if m.post.Load() {
		g := goid()
		m.mu.Lock()
		m.postOps[g]++
		if len(m.trace) < 16 {
			m.trace = append(m.trace, fmt.Sprintf("g%s frame=%x frameid=%d op#%d", g, ev.Frame, ev.RunID, c))
		}
		m.mu.Unlock()
	}
}

func (m *cancelMon) logf(format string, a ...any) {
	if os.Getenv("VERIF_C09_SHOW") == "" {
		return
	}
	m.mu.Lock()
	if len(m.events) < 60 {
		m.events = append(m.events, fmt.Sprintf(format, a...))
	}
	m.mu.Unlock()
}

func (m *cancelMon) goStart(i *interp.Interpreter, stage int) {
	if i != m.interp {
		return
	}
	m.logf("g%s stage %d", goid(), stage)
	switch stage {
	case 0:
		g := goid()
		m.mu.Lock()
		m.starting[g] = true
		m.nStarting.Store(int64(len(m.starting)))
		m.mu.Unlock()
	case 1, 3:
		if !m.holdStarts.Load() || stage != m.holdStage {
			return
		}
		if stage == 3 {
			// only the first wrapper entered by a starting goroutine
			if m.nStarting.Load() == 0 {
				return
			}
			g := goid()
			m.mu.Lock()
			ok := m.starting[g]
			m.mu.Unlock()
			if !ok {
				return
			}
		}
		g := goid()
		m.mu.Lock()
		m.heldG[g] = true
		m.mu.Unlock()
		m.startsHeld.Add(1)
		<-m.startGate
	case 2:
		m.started()
	}
}

// started: the goroutine executes its first operation, or has returned
func (m *cancelMon) started() {
	if m.nStarting.Load() == 0 {
		return
	}
	g := goid()
	m.mu.Lock()
	delete(m.starting, g)
	m.nStarting.Store(int64(len(m.starting)))
	m.mu.Unlock()
}

func (m *cancelMon) tick() {
	if m.post.Load() {
		g := goid()
		m.mu.Lock()
		m.ticks[g]++
		m.mu.Unlock()
		return
	}
	m.preTick.Add(1)
}

// interpGoroutines returns, from a full goroutine dump, the state of every goroutine that has
// the interpreter's execution loop on its stack.
var preexisting = map[string]bool{} // goroutines running interpreter code before the current run (set by markPreexisting)

func markPreexisting() {
	preexisting = map[string]bool{}
	buf := make([]byte, 1<<20)
	n := runtime.Stack(buf, true)
	for _, g := range strings.Split(string(buf[:n]), "\n\n") {
		if isInterpGoroutine(g) {
			preexisting[goroutineID(g)] = true
		}
	}
}

// a goroutine executing interpreted code, or the background goroutine of a *WithContext call (which may
// still be compiling)
func isInterpGoroutine(g string) bool {
	return strings.Contains(g, "interp.runCfg") || strings.Contains(g, "WithContext.func1")
}

func goroutineID(g string) string {
	g = strings.TrimPrefix(g, "goroutine ")
	if i := strings.IndexByte(g, ' '); i > 0 {
		return g[:i]
	}
	return g
}

func interpGoroutines() (states []string, dump string) {
	buf := make([]byte, 1<<20)
	n := runtime.Stack(buf, true)
	all := string(buf[:n])
	for _, g := range strings.Split(all, "\n\n") {
		if !isInterpGoroutine(g) || preexisting[goroutineID(g)] {
			continue
		}
		dump += g + "\n\n"
		hdr := g
		if i := strings.IndexByte(g, '\n'); i > 0 {
			hdr = g[:i]
		}
		st := hdr
		if i := strings.IndexByte(hdr, '['); i >= 0 {
			st = strings.TrimSuffix(hdr[i+1:], "]:")
		}
		if i := strings.IndexByte(st, ','); i >= 0 {
			st = st[:i]
		}
		states = append(states, st)
	}
	return
}

func parked(states []string) bool {
	for _, s := range states {
		switch s {
		case "chan receive", "chan send", "select", "semacquire", "sync.Mutex.Lock", "sync.WaitGroup.Wait", "chan receive (nil chan)", "chan send (nil chan)", "select (no cases)", "sleep", "sync.Cond.Wait", "IO wait":
		default:
			return false
		}
	}
	return true
}

// settle waits until every interpreter goroutine is parked in two consecutive dumps (workload
// shaping only; its outcome is never part of a verdict).
func settle(max time.Duration) bool {
	deadline := time.Now().Add(max)
	ok := 0
	for time.Now().Before(deadline) {
		st, _ := interpGoroutines()
		if parked(st) {
			ok++
			if ok >= 2 {
				return true
			}
		} else {
			ok = 0
		}
		time.Sleep(200 * time.Microsecond)
	}
	return false
}

// waitQuiet waits until no goroutine runs interpreter code any more; returns the leftover states.
func waitQuiet(max time.Duration) (left []string, dump string) {
	deadline := time.Now().Add(max)
	for {
		st, d := interpGoroutines()
		if len(st) == 0 {
			return nil, ""
		}
		if time.Now().After(deadline) {
			// Only a goroutine parked in a channel operation is a leak by its state alone: nobody can
			// wake it. A goroutine that is still runnable is either slow (loaded machine) or running
			// on, and running on is judged by the operation counts, not by the clock.
			var stuck []string
			for _, x := range st {
				if x == "chan receive" || x == "chan send" || x == "select" {
					stuck = append(stuck, x)
				}
			}
			if len(stuck) == 0 && parked(st) {
				return nil, ""
			}
			return stuck, d
		}
		time.Sleep(500 * time.Microsecond)
	}
}

type cancelRun struct {
	Reached      bool
	Returned     bool
	Err          string
	MaxPostOps   int
	MaxPostTicks int
	PostGor      int
	PostTrace    []string `json:",omitempty"`
	Events       []string `json:",omitempty"`
	Leaked       []string
	Dump         string
	Frozen       int64
	Ops          int64
	Finished     bool  // the evaluation finished before operation k
	TopLevel     bool  // operation k ran in the global frame (package-level code, before main's frame exists)
	StartsHeld   int64 `json:",omitempty"` // goroutines held in the start window when the context was cancelled
	Stalled      bool  `json:",omitempty"` // cancelled because everything was parked behind a held goroutine start, before operation k
}

type cancelSetup struct {
	files map[string]string // MapFS content (for imports / EvalPath)
	prep  []string          // earlier plain Eval chunks
	prepC []string          // earlier EvalWithContext chunks
	src   string
	entry string // eval | execute | evalpath
	// startWindow holds every goroutine started by a go statement on a function value just before it
	// calls the function, cancels, lets the evaluation end, and only then releases those goroutines.
	startWindow bool
	holdStage   int // 1 (default) or 3
}

func newCancelInterp(m *cancelMon, files map[string]string, out *bytes.Buffer) *interp.Interpreter {
	opt := interp.Options{Stdout: out, Stderr: out, GoPath: "gp"}
	if files != nil {
		fs := fstest.MapFS{}
		for k, v := range files {
			fs[k] = &fstest.MapFile{Data: []byte(v)}
		}
		opt.SourcecodeFilesystem = fs
	}
	i := interp.New(opt)
	if err := i.Use(stdlib.Symbols); err != nil {
		panic(err)
	}
	tick := func() { m.tick() }
	if err := i.Use(interp.Exports{"host/host": {"Tick": reflect.ValueOf(tick)}}); err != nil {
		panic(err)
	}
	return i
}

// runCancelAt runs the setup, freezes at operation k of the cancellable evaluation, cancels, and
// observes what the property names.
func runCancelAt(s *cancelSetup, k int64) (res cancelRun, setupErr error) {
	m := newCancelMon(k)
	var out bytes.Buffer
	markPreexisting()
	i := newCancelInterp(m, s.files, &out)
	m.interp = i
	for _, p := range s.prep {
		if _, err := i.Eval(p); err != nil {
			return res, fmt.Errorf("prep: %v", err)
		}
	}
	for _, p := range s.prepC {
		if _, err := i.EvalWithContext(context.Background(), p); err != nil {
			return res, fmt.Errorf("prepC: %v", err)
		}
	}
	var prog *interp.Program
	if s.entry == "execute" {
		var err error
		if prog, err = i.Compile(s.src); err != nil {
			return res, fmt.Errorf("compile: %v", err)
		}
	}
	interp.VerifSetStep(m.step, false)
	defer interp.VerifSetStep(nil, false)
	ctx, cancel := context.WithCancel(context.Background())
	defer cancel()
	ret := make(chan error, 1)
	go func() {
		var err error
		switch s.entry {
		case "execute":
			_, err = i.ExecuteWithContext(ctx, prog)
		case "evalpath":
			_, err = i.EvalPathWithContext(ctx, "main.go")
		default:
			_, err = i.EvalWithContext(ctx, s.src)
		}
		ret <- err
	}()
	m.holdStage = 1
	if s.holdStage != 0 {
		m.holdStage = s.holdStage
	}
	m.holdStarts.Store(s.startWindow)
	interp.VerifSetGoStart(m.goStart)
	defer interp.VerifSetGoStart(nil)
	stall := make(chan struct{})
	stopStall := make(chan struct{})
	defer close(stopStall)
	if s.startWindow {
		// workload shaping: with a goroutine start held, the program may park before operation k
		go func() {
			ok := 0
			for {
				select {
				case <-stopStall:
					return
				case <-time.After(300 * time.Microsecond):
				}
				st, _ := interpGoroutines()
				if m.startsHeld.Load() > 0 && len(st) > 0 && parked(st) {
					if ok++; ok >= 3 {
						close(stall)
						return
					}
				} else {
					ok = 0
				}
			}
		}()
	}
	select {
	case <-m.reached:
		res.Reached = true
	case <-stall:
		res.Reached = true
		res.Stalled = true
	case err := <-ret:
		res.Finished = true
		if err != nil {
			res.Err = err.Error()
		}
		m.post.Store(true)
		close(m.gate)
		close(m.startGate)
		return res, nil
	case <-time.After(30 * time.Second):
		close(m.gate)
		close(m.startGate)
		return res, fmt.Errorf("operation %d never reached and evaluation did not finish", k)
	}
	settle(2 * time.Second)
	if !s.startWindow {
		// workload shaping: a goroutine between its go statement and its first operation is the subject
		// of the start-window cells only
		for dl := time.Now().Add(2 * time.Second); m.nStarting.Load() > 0 && time.Now().Before(dl); {
			time.Sleep(200 * time.Microsecond)
		}
		settle(2 * time.Second)
	} else {
		// every starting goroutine is at the hold point of this cell (not somewhere else in the window)
		for dl := time.Now().Add(2 * time.Second); time.Now().Before(dl); {
			m.mu.Lock()
			all := true
			for g := range m.starting {
				if !m.heldG[g] {
					all = false
				}
			}
			m.mu.Unlock()
			if all {
				break
			}
			time.Sleep(200 * time.Microsecond)
		}
	}
	res.Frozen = m.frozen.Load()
	res.TopLevel = m.atK.Load() == m.first.Load()
	res.StartsHeld = m.startsHeld.Load()
	m.logf("cancel")
	cancel()
	select {
	case err := <-ret:
		m.logf("returned")
		res.Returned = true
		if err != nil {
			res.Err = err.Error()
		}
	case <-time.After(20 * time.Second):
		_, res.Dump = interpGoroutines()
	}
	m.post.Store(true)
	close(m.gate)
	if s.startWindow {
		// the goroutines of the cancelled evaluation end first; the held starts are released into an
		// idle interpreter
		waitQuiet(3 * time.Second)
		m.holdStarts.Store(false)
	}
	m.logf("release starts")
	close(m.startGate)
	// every released goroutine either executes an operation or returns: wait for that before looking for
	// quiescence (a goroutine which has not entered the execution loop yet is invisible to waitQuiet)
	for dl := time.Now().Add(2 * time.Second); m.nStarting.Load() > 0 && time.Now().Before(dl); {
		time.Sleep(100 * time.Microsecond)
	}
	res.Leaked, res.Dump = waitQuiet(3 * time.Second)
	res.Ops = m.count.Load()
	m.mu.Lock()
	for _, v := range m.postOps {
		if v > res.MaxPostOps {
			res.MaxPostOps = v
		}
	}
	for _, v := range m.ticks {
		if v > res.MaxPostTicks {
			res.MaxPostTicks = v
		}
	}
	res.PostGor = len(m.postOps)
	res.Events = m.events
	if res.MaxPostOps > 1 || res.MaxPostTicks > 1 {
		res.PostTrace = append([]string(nil), m.trace...)
	}
	m.mu.Unlock()
	return res, nil
}

// countOps runs the program for a bounded number of operations to learn how many operations
// the first rounds take: it freezes at a large k and reports how far the count got.
func probeOps(s *cancelSetup, k int64) int64 {
	r, err := runCancelAt(s, k)
	if err != nil || !r.Reached {
		return 0
	}
	return k
}
