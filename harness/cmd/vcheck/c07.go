package main

import (
	"errors"
	"fmt"
	"os"
	"reflect"
	"strings"

	"verifharness/core"
	"verifharness/hostlib"

	"github.com/traefik/yaegi/interp"
	"github.com/traefik/yaegi/stdlib"
)

// C07: values and calls cross the host/script boundary unchanged.
// A cell is (direction, signature shape drawn from a type grammar, value draw, call form). Every value that
// crosses is rendered canonically by hostlib.Show (same native code on both sides) and compared with the
// rendering of the value the generator drew; recorders (reflect.MakeFunc) observe what host functions receive.

type c07T struct {
	Src  string // the type as written in the script
	RT   reflect.Type
	Kind string // basic | named | ptr | array | slice | map | error | any | func
	Elem *c07T
	FK   int // function pool index for Kind func
}

type c07Val struct {
	V   reflect.Value
	Src string // script expression producing the same value
}

var c07BasicRT = map[string]reflect.Type{
	"bool": reflect.TypeOf(false), "int": reflect.TypeOf(0), "int8": reflect.TypeOf(int8(0)), "int16": reflect.TypeOf(int16(0)),
	"int32": reflect.TypeOf(int32(0)), "int64": reflect.TypeOf(int64(0)), "uint": reflect.TypeOf(uint(0)), "uint8": reflect.TypeOf(uint8(0)),
	"uint16": reflect.TypeOf(uint16(0)), "uint32": reflect.TypeOf(uint32(0)), "uint64": reflect.TypeOf(uint64(0)), "uintptr": reflect.TypeOf(uintptr(0)),
	"float32": reflect.TypeOf(float32(0)), "float64": reflect.TypeOf(float64(0)), "complex64": reflect.TypeOf(complex64(0)),
	"complex128": reflect.TypeOf(complex128(0)), "string": reflect.TypeOf(""),
}

var c07BasicNames = []string{"bool", "int", "int8", "int16", "int32", "int64", "uint", "uint8", "uint16", "uint32", "uint64", "uintptr", "float32", "float64", "complex64", "complex128", "string"}

var c07ErrT = reflect.TypeOf((*error)(nil)).Elem()
var c07AnyT = reflect.TypeOf((*interface{})(nil)).Elem()

// function pool: signatures with a behaviour parameter k; the script literal and the native twin compute the same
var c07FuncSrc = []string{"func(int) int", "func(hostlib.Pt) (int, error)", "func(...string) string", "func()"}
var c07FuncRT = []reflect.Type{reflect.TypeOf((func(int) int)(nil)), reflect.TypeOf((func(hostlib.Pt) (int, error))(nil)), reflect.TypeOf((func(...string) string)(nil)), reflect.TypeOf((func())(nil))}

func c07Type(rg *core.Rng, depth int) *c07T {
	c := rg.Intn(20)
	if depth <= 0 && c >= 8 && c < 13 {
		c = rg.Intn(8)
	}
	switch {
	case c < 6:
		n := core.Pick(rg, c07BasicNames)
		return &c07T{Src: n, RT: c07BasicRT[n], Kind: "basic"}
	case c < 8:
		switch rg.Intn(4) {
		case 0:
			return &c07T{Src: "hostlib.Pt", RT: reflect.TypeOf(hostlib.Pt{}), Kind: "named"}
		case 1:
			return &c07T{Src: "hostlib.Vec", RT: reflect.TypeOf(hostlib.Vec{}), Kind: "named"}
		case 2:
			return &c07T{Src: "hostlib.ID", RT: reflect.TypeOf(hostlib.ID(0)), Kind: "named"}
		}
		return &c07T{Src: "*hostlib.Rec", RT: reflect.TypeOf(&hostlib.Rec{}), Kind: "named"}
	case c < 9:
		e := c07Type(rg, depth-1)
		if e.Kind == "func" || e.Kind == "any" || e.Kind == "error" {
			e = &c07T{Src: "int", RT: c07BasicRT["int"], Kind: "basic"}
		}
		return &c07T{Src: "*" + e.Src, RT: reflect.PtrTo(e.RT), Kind: "ptr", Elem: e}
	case c < 10:
		e := c07Type(rg, depth-1)
		return &c07T{Src: "[2]" + e.Src, RT: reflect.ArrayOf(2, e.RT), Kind: "array", Elem: e}
	case c < 12:
		e := c07Type(rg, depth-1)
		return &c07T{Src: "[]" + e.Src, RT: reflect.SliceOf(e.RT), Kind: "slice", Elem: e}
	case c < 13:
		e := c07Type(rg, depth-1)
		return &c07T{Src: "map[string]" + e.Src, RT: reflect.MapOf(c07BasicRT["string"], e.RT), Kind: "map", Elem: e}
	case c < 15:
		return &c07T{Src: "error", RT: c07ErrT, Kind: "error"}
	case c < 17:
		return &c07T{Src: "interface{}", RT: c07AnyT, Kind: "any"}
	default:
		k := rg.Intn(len(c07FuncSrc))
		return &c07T{Src: c07FuncSrc[k], RT: c07FuncRT[k], Kind: "func", FK: k}
	}
}

func c07Func(fk, k int) c07Val {
	switch fk {
	case 0:
		return c07Val{reflect.ValueOf(func(x int) int { return x*k + 1 }), fmt.Sprintf("func(x int) int { return x*%d + 1 }", k)}
	case 1:
		return c07Val{reflect.ValueOf(func(p hostlib.Pt) (int, error) {
			if k%2 == 0 {
				return p.X*k + p.Y, nil
			}
			return p.X*k + p.Y, errors.New(fmt.Sprint("e", k))
		}), fmt.Sprintf("func(p hostlib.Pt) (int, error) { if %d%%2 == 0 { return p.X*%d + p.Y, nil }; return p.X*%d + p.Y, errors.New(fmt.Sprint(\"e\", %d)) }", k, k, k, k)}
	case 2:
		return c07Val{reflect.ValueOf(func(xs ...string) string { return fmt.Sprint(k, len(xs), strings.Join(xs, "+")) }),
			fmt.Sprintf("func(xs ...string) string { return fmt.Sprint(%d, len(xs), strings.Join(xs, \"+\")) }", k)}
	}
	return c07Val{reflect.ValueOf(func() { hostlib.Bump() }), "func() { hostlib.Bump() }"}
}

// c07Value draws a value of type t; zero values are over-represented.
func c07Value(rg *core.Rng, t *c07T, depth int) c07Val {
	zero := rg.Chance(1, 4)
	switch t.Kind {
	case "basic":
		return c07Basic(rg, t.Src, t.RT, zero)
	case "named":
		switch t.Src {
		case "hostlib.Pt":
			if zero {
				return c07Val{reflect.ValueOf(hostlib.Pt{}), "hostlib.Pt{}"}
			}
			x, y := rg.Intn(100)-50, rg.Intn(100)
			return c07Val{reflect.ValueOf(hostlib.Pt{X: x, Y: y}), fmt.Sprintf("hostlib.Pt{X: %d, Y: %d}", x, y)}
		case "hostlib.Vec":
			if zero {
				if rg.Bool() {
					// all fields compare equal to zero, one is the negative zero
					return c07Val{reflect.ValueOf(hostlib.Vec{X: hostlib.NegZero()}), "hostlib.Vec{X: hostlib.NegZero()}"}
				}
				return c07Val{reflect.ValueOf(hostlib.Vec{}), "hostlib.Vec{}"}
			}
			x, y := float64(rg.Intn(100))/4, -float64(1+rg.Intn(100))/8
			return c07Val{reflect.ValueOf(hostlib.Vec{X: x, Y: y}), fmt.Sprintf("hostlib.Vec{X: %v, Y: %v}", x, y)}
		case "hostlib.ID":
			n := rg.Intn(1000)
			if zero {
				n = 0
			}
			return c07Val{reflect.ValueOf(hostlib.ID(n)), fmt.Sprintf("hostlib.ID(%d)", n)}
		default: // *hostlib.Rec
			if zero {
				return c07Val{reflect.ValueOf((*hostlib.Rec)(nil)), "(*hostlib.Rec)(nil)"}
			}
			n := rg.Intn(50)
			return c07Val{reflect.ValueOf(&hostlib.Rec{Name: fmt.Sprint("r", n), Pts: []hostlib.Pt{{X: n, Y: 1}}, M: map[string]*hostlib.Pt{"k": {X: 1, Y: n}}}),
				fmt.Sprintf("&hostlib.Rec{Name: \"r%d\", Pts: []hostlib.Pt{{%d, 1}}, M: map[string]*hostlib.Pt{\"k\": {1, %d}}}", n, n, n)}
		}
	case "ptr":
		if zero || depth <= 0 {
			return c07Val{reflect.Zero(t.RT), fmt.Sprintf("(%s)(nil)", t.Src)}
		}
		e := c07Value(rg, t.Elem, depth-1)
		p := reflect.New(t.Elem.RT)
		p.Elem().Set(e.V)
		return c07Val{p, fmt.Sprintf("func() %s { v := %s; return &v }()", t.Src, c07Conv(t.Elem, e.Src))}
	case "array":
		a := reflect.New(t.RT).Elem()
		if zero {
			return c07Val{a, t.Src + "{}"}
		}
		var el []string
		for i := 0; i < 2; i++ {
			e := c07Value(rg, t.Elem, depth-1)
			a.Index(i).Set(e.V)
			el = append(el, e.Src)
		}
		return c07Val{a, t.Src + "{" + strings.Join(el, ", ") + "}"}
	case "slice":
		if zero {
			if rg.Bool() {
				return c07Val{reflect.Zero(t.RT), fmt.Sprintf("(%s)(nil)", t.Src)}
			}
			return c07Val{reflect.MakeSlice(t.RT, 0, 0), t.Src + "{}"}
		}
		n := 1 + rg.Intn(3)
		s := reflect.MakeSlice(t.RT, 0, n)
		var el []string
		for i := 0; i < n; i++ {
			e := c07Value(rg, t.Elem, depth-1)
			s = reflect.Append(s, e.V)
			el = append(el, e.Src)
		}
		return c07Val{s, t.Src + "{" + strings.Join(el, ", ") + "}"}
	case "map":
		if zero {
			if rg.Bool() {
				return c07Val{reflect.Zero(t.RT), fmt.Sprintf("(%s)(nil)", t.Src)}
			}
			return c07Val{reflect.MakeMap(t.RT), t.Src + "{}"}
		}
		m := reflect.MakeMap(t.RT)
		var el []string
		for i, n := 0, 1+rg.Intn(2); i < n; i++ {
			e := c07Value(rg, t.Elem, depth-1)
			k := fmt.Sprint("k", i)
			m.SetMapIndex(reflect.ValueOf(k), e.V)
			el = append(el, fmt.Sprintf("%q: %s", k, e.Src))
		}
		return c07Val{m, t.Src + "{" + strings.Join(el, ", ") + "}"}
	case "error":
		if zero || rg.Bool() {
			return c07Val{reflect.Zero(c07ErrT), "error(nil)"}
		}
		msg := fmt.Sprint("err", rg.Intn(100))
		v := reflect.New(c07ErrT).Elem()
		v.Set(reflect.ValueOf(errors.New(msg)))
		return c07Val{v, fmt.Sprintf("errors.New(%q)", msg)}
	case "any":
		v := reflect.New(c07AnyT).Elem()
		if zero {
			return c07Val{v, "interface{}(nil)"}
		}
		dt := c07Type(rg, 0)
		for dt.Kind == "any" || dt.Kind == "func" || dt.Kind == "error" {
			dt = c07Type(rg, 0)
		}
		d := c07Value(rg, dt, 0)
		v.Set(d.V)
		return c07Val{v, fmt.Sprintf("interface{}(%s)", c07Conv(dt, d.Src))}
	case "func":
		if zero {
			return c07Val{reflect.Zero(t.RT), fmt.Sprintf("(%s)(nil)", t.Src)}
		}
		return c07Func(t.FK, 2+rg.Intn(7))
	}
	panic("c07Value: " + t.Kind)
}

// c07Conv wraps an expression so that it has exactly type t also where an untyped constant would take a default type.
func c07Conv(t *c07T, src string) string {
	if t.Kind == "basic" {
		return src // basic sources are already converted
	}
	return src
}

func c07Basic(rg *core.Rng, name string, rt reflect.Type, zero bool) c07Val {
	v := reflect.New(rt).Elem()
	switch rt.Kind() {
	case reflect.Bool:
		b := !zero && rg.Bool()
		v.SetBool(b)
		return c07Val{v, fmt.Sprintf("bool(%v)", b)}
	case reflect.Int, reflect.Int8, reflect.Int16, reflect.Int32, reflect.Int64:
		bits := rt.Bits()
		var n int64
		switch c := rg.Intn(6); {
		case zero:
		case c == 0:
			n = -1 << (bits - 1)
		case c == 1:
			n = 1<<(bits-1) - 1
		default:
			n = int64(rg.Intn(200)) - 100
		}
		v.SetInt(n)
		return c07Val{v, fmt.Sprintf("%s(%d)", name, n)}
	case reflect.Uint, reflect.Uint8, reflect.Uint16, reflect.Uint32, reflect.Uint64, reflect.Uintptr:
		bits := rt.Bits()
		var n uint64
		switch c := rg.Intn(6); {
		case zero:
		case c == 0:
			n = 1<<uint(bits) - 1
			if bits == 64 {
				n = ^uint64(0)
			}
		default:
			n = uint64(rg.Intn(200))
		}
		v.SetUint(n)
		return c07Val{v, fmt.Sprintf("%s(%d)", name, n)}
	case reflect.Float32, reflect.Float64:
		switch c := rg.Intn(6); {
		case zero && c < 3:
			v.SetFloat(hostlib.NegZero())
			return c07Val{v, fmt.Sprintf("%s(hostlib.NegZero())", name)}
		case zero:
			return c07Val{v, fmt.Sprintf("%s(0)", name)}
		default:
			f := float64(rg.Intn(2000)-1000) / 8
			v.SetFloat(f)
			return c07Val{v, fmt.Sprintf("%s(%v)", name, f)}
		}
	case reflect.Complex64, reflect.Complex128:
		if zero {
			if rg.Bool() {
				v.SetComplex(complex(hostlib.NegZero(), 0))
				return c07Val{v, fmt.Sprintf("%s(complex(hostlib.NegZero(), 0))", name)}
			}
			return c07Val{v, fmt.Sprintf("%s(0)", name)}
		}
		re, im := float64(rg.Intn(100))/4, float64(rg.Intn(100)-50)/2
		v.SetComplex(complex(re, im))
		return c07Val{v, fmt.Sprintf("%s(complex(%v, %v))", name, re, im)}
	default:
		s := ""
		if !zero {
			s = core.Pick(rg, []string{"a", "héllo", "x\x00y", "\xff\xfe", "long string with spaces and \"quotes\""})
		}
		v.SetString(s)
		return c07Val{v, fmt.Sprintf("string(%q)", s)}
	}
}

type c07Sig struct {
	In, Out  []*c07T
	Variadic bool
}

func c07Shape(rg *core.Rng) *c07Sig {
	s := &c07Sig{}
	nin, nout := rg.Intn(5), rg.Intn(4)
	for i := 0; i < nin; i++ {
		s.In = append(s.In, c07Type(rg, 2))
	}
	for i := 0; i < nout; i++ {
		s.Out = append(s.Out, c07Type(rg, 2))
	}
	if nin > 0 && rg.Chance(1, 3) {
		s.Variadic = true
		e := s.In[nin-1]
		s.In[nin-1] = &c07T{Src: "[]" + e.Src, RT: reflect.SliceOf(e.RT), Kind: "slice", Elem: e}
	}
	return s
}

func (s *c07Sig) funcType() reflect.Type {
	var in, out []reflect.Type
	for _, t := range s.In {
		in = append(in, t.RT)
	}
	for _, t := range s.Out {
		out = append(out, t.RT)
	}
	return reflect.FuncOf(in, out, s.Variadic)
}

func (s *c07Sig) paramList(names bool) string {
	var ps []string
	for i, t := range s.In {
		src := t.Src
		if s.Variadic && i == len(s.In)-1 {
			src = "..." + t.Elem.Src
		}
		if names {
			src = fmt.Sprintf("p%d %s", i, src)
		}
		ps = append(ps, src)
	}
	return strings.Join(ps, ", ")
}

func (s *c07Sig) resultList() string {
	var rs []string
	for _, t := range s.Out {
		rs = append(rs, t.Src)
	}
	switch len(rs) {
	case 0:
		return ""
	case 1:
		return " " + rs[0]
	}
	return " (" + strings.Join(rs, ", ") + ")"
}

// the mutation a callee applies to an argument it can reach through, and the model of its effect
func c07Mutate(v reflect.Value) bool {
	switch x := v.Interface().(type) {
	case *hostlib.Pt:
		if x != nil {
			x.X = 4242
			return true
		}
	case *hostlib.Rec:
		if x != nil {
			x.Name = "mut"
			return true
		}
	case *int:
		if x != nil {
			*x = 4242
			return true
		}
	case []int:
		if len(x) > 0 {
			x[0] = 4242
			return true
		}
	case map[string]int:
		if x != nil {
			x["zz"] = 4242
			return true
		}
	}
	return false
}

// script statements doing the same mutation on parameter p of type t ("" when not applicable)
func c07MutateSrc(p string, t *c07T) string {
	switch t.Src {
	case "*hostlib.Pt":
		return fmt.Sprintf("if %s != nil { %s.X = 4242 }", p, p)
	case "*hostlib.Rec":
		return fmt.Sprintf("if %s != nil { %s.Name = \"mut\" }", p, p)
	case "*int":
		return fmt.Sprintf("if %s != nil { *%s = 4242 }", p, p)
	case "[]int":
		return fmt.Sprintf("if len(%s) > 0 { %s[0] = 4242 }", p, p)
	case "map[string]int":
		return fmt.Sprintf("if %s != nil { %s[\"zz\"] = 4242 }", p, p)
	}
	return ""
}

const c07Prelude = "package main\n\nimport (\n\t\"errors\"\n\t\"fmt\"\n\t\"verifharness/hostlib\"\n\t\"strings\"\n)\n\nvar _ = errors.New\nvar _ = fmt.Sprint\nvar _ = strings.Join\nvar _ = hostlib.Show\n\n"

type c07Out struct {
	Fails []string
	Src   string
	Calls int
}

func c07Interp(extra map[string]reflect.Value) *interp.Interpreter {
	i := interp.New(interp.Options{Stdout: &strings.Builder{}, Stderr: &strings.Builder{}})
	i.Use(stdlib.Symbols)
	tab := hostlib.Symbols()
	for k, v := range extra {
		tab[k] = v
	}
	i.Use(interp.Exports{"verifharness/hostlib/hostlib": tab})
	return i
}

func c07ShowAll(vs []reflect.Value) string {
	var s []string
	for _, v := range vs {
		s = append(s, hostlib.ShowValue(v))
	}
	return strings.Join(s, " | ")
}

// ---- direction A: the script calls a host function ----

func c07ScriptCallsHost(idx uint64) (o c07Out) {
	rg := core.NewRng(idx).Sub("C07A")
	sig := c07Shape(rg)
	form := rg.Intn(6) // how results are consumed
	argForm := rg.Intn(3)
	if len(sig.Out) == 0 && form != 5 {
		form = 0
	}
	if form == 3 && argForm == 1 {
		argForm = 2 // the arguments must be visible to Run
	}
	var args []c07Val
	nfix := len(sig.In)
	if sig.Variadic {
		nfix--
	}
	for i := 0; i < nfix; i++ {
		args = append(args, c07Value(rg, sig.In[i], 2))
	}
	spread := false
	var vargs []c07Val
	if sig.Variadic {
		vt := sig.In[nfix]
		if rg.Chance(1, 3) {
			spread = true
			vargs = append(vargs, c07Value(rg, vt, 2))
		} else {
			for i, n := 0, rg.Intn(4); i < n; i++ {
				vargs = append(vargs, c07Value(rg, vt.Elem, 2))
			}
		}
	}
	rets := make([]c07Val, len(sig.Out))
	for i := range rets {
		rets[i] = c07Value(rg, sig.Out[i], 2)
	}
	// expected rendering of what the recorder must receive
	var want []string
	for _, a := range args {
		want = append(want, hostlib.ShowValue(a.V))
	}
	if sig.Variadic {
		if spread {
			want = append(want, hostlib.ShowValue(vargs[0].V))
		} else if len(vargs) == 0 {
			want = append(want, sig.In[nfix].RT.String()+"{}") // reflect.Call passes an empty, non-nil slice
		} else {
			s := reflect.MakeSlice(sig.In[nfix].RT, 0, len(vargs))
			for _, a := range vargs {
				s = reflect.Append(s, a.V)
			}
			want = append(want, hostlib.ShowValue(s))
		}
	}
	var got []string
	calls := 0
	fn := reflect.MakeFunc(sig.funcType(), func(in []reflect.Value) []reflect.Value {
		calls++
		got = got[:0]
		for _, a := range in {
			got = append(got, hostlib.ShowValue(a))
		}
		for _, a := range in {
			c07Mutate(a)
		}
		out := make([]reflect.Value, len(rets))
		for i := range rets {
			out[i] = rets[i].V
		}
		return out
	})
	// the script
	var b strings.Builder
	b.WriteString(c07Prelude)
	var callArgs []string
	var decl []string
	all := append(append([]c07Val{}, args...), vargs...)
	for i, a := range all {
		t := ""
		switch {
		case i < nfix:
			t = sig.In[i].Src
		case spread:
			t = sig.In[nfix].Src
		default:
			t = sig.In[nfix].Elem.Src
		}
		switch argForm {
		case 0: // inline expression
			callArgs = append(callArgs, a.Src)
		case 1: // local variable
			decl = append(decl, fmt.Sprintf("\tvar a%d %s = %s", i, t, a.Src))
			callArgs = append(callArgs, fmt.Sprintf("a%d", i))
		default: // package-level variable
			fmt.Fprintf(&b, "var a%d %s = %s\n\n", i, t, a.Src)
			callArgs = append(callArgs, fmt.Sprintf("a%d", i))
		}
	}
	if spread {
		callArgs[len(callArgs)-1] += "..."
	}
	call := "hostlib.F(" + strings.Join(callArgs, ", ") + ")"
	var rnames []string
	for i := range sig.Out {
		rnames = append(rnames, fmt.Sprintf("r%d", i))
	}
	report := func() string {
		var parts []string
		for _, r := range rnames {
			parts = append(parts, fmt.Sprintf("hostlib.Show(%s)", r))
		}
		// arguments the callee can reach through, after the call
		if argForm != 0 {
			for i := 0; i < nfix; i++ {
				if c07MutateSrc("x", sig.In[i]) != "" {
					parts = append(parts, fmt.Sprintf("\"arg%d=\" + hostlib.Show(a%d)", i, i))
				}
			}
		}
		if len(parts) == 0 {
			return `""`
		}
		return strings.Join(parts, " + \" | \" + ")
	}
	switch form {
	case 0: // define
		if len(sig.Out) > 0 {
			call = strings.Join(rnames, ", ") + " := " + call
		}
		fmt.Fprintf(&b, "func Run() string {\n%s\n\t%s\n\treturn %s\n}\n", strings.Join(decl, "\n"), call, report())
	case 1: // assign to declared locals
		var vd []string
		for i, t := range sig.Out {
			vd = append(vd, fmt.Sprintf("\tvar r%d %s", i, t.Src))
		}
		fmt.Fprintf(&b, "func Run() string {\n%s\n%s\n\t%s = %s\n\treturn %s\n}\n", strings.Join(decl, "\n"), strings.Join(vd, "\n"), strings.Join(rnames, ", "), call, report())
	case 2: // assign to package-level variables from inside a function
		for i, t := range sig.Out {
			fmt.Fprintf(&b, "var r%d %s\n", i, t.Src)
		}
		fmt.Fprintf(&b, "\nfunc Run() string {\n%s\n\tlocal := 5\n\t_ = local\n\t%s = %s\n\treturn %s\n}\n", strings.Join(decl, "\n"), strings.Join(rnames, ", "), call, report())
	case 3: // returned directly by a script function with the same result list
		fmt.Fprintf(&b, "func inner()%s {\n%s\n\treturn %s\n}\n\nfunc Run() string {\n\t%s := inner()\n\treturn %s\n}\n", sig.resultList(), strings.Join(decl, "\n"), call, strings.Join(rnames, ", "), report())
	case 4: // in a closure, results captured
		var vd []string
		for i, t := range sig.Out {
			vd = append(vd, fmt.Sprintf("\tvar r%d %s", i, t.Src))
		}
		fmt.Fprintf(&b, "func Run() string {\n%s\n%s\n\tfunc() { %s = %s }()\n\treturn %s\n}\n", strings.Join(decl, "\n"), strings.Join(vd, "\n"), strings.Join(rnames, ", "), call, report())
	default: // deferred: arguments are evaluated at the defer statement, results dropped
		rnames = nil
		fmt.Fprintf(&b, "func Run() (s string) {\n%s\n\tdefer func() { s = %s }()\n\tdefer %s\n\treturn \"\"\n}\n", strings.Join(decl, "\n"), report(), call)
	}
	o.Src = b.String()
	// expected report
	var wantParts []string
	if form != 5 {
		for _, r := range rets {
			wantParts = append(wantParts, hostlib.ShowValue(r.V))
		}
	}
	// model of the mutation on copies of the drawn arguments
	if argForm != 0 {
		for i := 0; i < nfix; i++ {
			if c07MutateSrc("x", sig.In[i]) != "" {
				c07Mutate(args[i].V)
				wantParts = append(wantParts, fmt.Sprintf("arg%d=%s", i, hostlib.ShowValue(args[i].V)))
			}
		}
	}
	wantReport := strings.Join(wantParts, " | ")
	wantArgs := strings.Join(want, " | ")
	if c07Dry {
		return
	}
	i := c07Interp(map[string]reflect.Value{"F": fn})
	if _, err := i.Eval(o.Src); err != nil {
		o.Fails = append(o.Fails, "the script is rejected: "+err.Error())
		return
	}
	v, err := i.Eval("Run()")
	if err != nil {
		o.Fails = append(o.Fails, "the call fails: "+firstLines2(err.Error(), 2))
		return
	}
	if calls != 1 {
		o.Fails = append(o.Fails, fmt.Sprintf("the host function was called %d times", calls))
	}
	if g := strings.Join(got, " | "); g != wantArgs {
		o.Fails = append(o.Fails, fmt.Sprintf("host received (%s), script passed (%s)", g, wantArgs))
	}
	if v.Kind() != reflect.String || v.String() != wantReport {
		o.Fails = append(o.Fails, fmt.Sprintf("script saw (%v), host returned / left (%s)", v, wantReport))
	}
	o.Calls = calls
	return
}

// ---- direction B: the host calls a script function ----

func c07HostCallsScript(idx uint64) (o c07Out) {
	rg := core.NewRng(idx).Sub("C07B")
	sig := c07Shape(rg)
	how := rg.Intn(4) // how the function is obtained: Eval (twice as often), Symbols, Globals (through a variable)
	nfix := len(sig.In)
	if sig.Variadic {
		nfix--
	}
	// results: echo a parameter of the same type when there is one, else a drawn value
	type res struct {
		param int
		val   c07Val
	}
	rets := make([]res, len(sig.Out))
	for i, t := range sig.Out {
		rets[i].param = -1
		for j, p := range sig.In {
			if p.Src == t.Src && !(sig.Variadic && j == nfix) && rg.Chance(2, 3) {
				rets[i].param = j
			}
		}
		if rets[i].param < 0 {
			rets[i].val = c07Value(rg, t, 2)
		}
	}
	var b strings.Builder
	b.WriteString(c07Prelude)
	b.WriteString("var Log string\n\n")
	fmt.Fprintf(&b, "func S(%s)%s {\n", sig.paramList(true), sig.resultList())
	var logs []string
	for i := range sig.In {
		logs = append(logs, fmt.Sprintf("hostlib.Show(p%d)", i))
	}
	if len(logs) == 0 {
		logs = []string{`"called"`}
	}
	fmt.Fprintf(&b, "\tLog = %s\n", strings.Join(logs, " + \" | \" + "))
	for i, t := range sig.In {
		if m := c07MutateSrc(fmt.Sprintf("p%d", i), t); m != "" {
			fmt.Fprintf(&b, "\t%s\n", m)
		}
	}
	if len(rets) > 0 {
		var rs []string
		for _, r := range rets {
			if r.param >= 0 {
				rs = append(rs, fmt.Sprintf("p%d", r.param))
			} else {
				rs = append(rs, r.val.Src)
			}
		}
		fmt.Fprintf(&b, "\treturn %s\n", strings.Join(rs, ", "))
	}
	b.WriteString("}\n\nvar SV = S\n")
	o.Src = b.String()
	if c07Dry {
		return
	}
	i := c07Interp(nil)
	if _, err := i.Eval(o.Src); err != nil {
		o.Fails = append(o.Fails, "the script is rejected: "+err.Error())
		return
	}
	var fv reflect.Value
	switch how {
	case 0, 1:
		v, err := i.Eval("S")
		if err != nil {
			o.Fails = append(o.Fails, "Eval(S): "+err.Error())
			return
		}
		fv = v
	case 2:
		fv = i.Symbols("main")["main"]["S"]
	default:
		fv = i.Globals()["SV"]
	}
	if !fv.IsValid() || fv.Kind() != reflect.Func {
		o.Fails = append(o.Fails, fmt.Sprintf("the symbol obtained for S is not a function: %v", fv))
		return
	}
	if fv.Type() != sig.funcType() {
		o.Fails = append(o.Fails, fmt.Sprintf("S has native type %v, declared as %v", fv.Type(), sig.funcType()))
		return
	}
	var args []reflect.Value
	var want []string
	for k := 0; k < nfix; k++ {
		a := c07Value(rg, sig.In[k], 2)
		args = append(args, a.V)
		want = append(want, hostlib.ShowValue(a.V))
	}
	slice := false
	if sig.Variadic {
		vt := sig.In[nfix]
		if rg.Chance(1, 3) {
			slice = true
			a := c07Value(rg, vt, 2)
			args = append(args, a.V)
			want = append(want, hostlib.ShowValue(a.V))
		} else {
			n := rg.Intn(4)
			s := reflect.MakeSlice(vt.RT, 0, n)
			for k := 0; k < n; k++ {
				a := c07Value(rg, vt.Elem, 2)
				args = append(args, a.V)
				s = reflect.Append(s, a.V)
			}
			if n == 0 {
				want = append(want, vt.RT.String()+"{}") // reflect.Call passes an empty, non-nil slice
			} else {
				want = append(want, hostlib.ShowValue(s))
			}
		}
	}
	var out []reflect.Value
	var perr interface{}
	func() {
		defer func() { perr = recover() }()
		if slice {
			out = fv.CallSlice(args)
		} else {
			out = fv.Call(args)
		}
	}()
	if perr != nil {
		o.Fails = append(o.Fails, fmt.Sprintf("the native call panicked: %v", perr))
		return
	}
	o.Calls = 1
	lg, err := i.Eval("Log")
	if err != nil || lg.Kind() != reflect.String {
		o.Fails = append(o.Fails, "cannot read Log")
		return
	}
	wantLog := strings.Join(want, " | ")
	if len(sig.In) == 0 {
		wantLog = "called"
	}
	if lg.String() != wantLog {
		o.Fails = append(o.Fails, fmt.Sprintf("script received (%s), host passed (%s)", lg.String(), wantLog))
	}
	// model: mutations first (they happen before return), then the echo
	for k := 0; k < nfix; k++ {
		c07Mutate(args[k])
	}
	if sig.Variadic && slice {
		c07Mutate(args[nfix])
	}
	if len(out) != len(rets) {
		o.Fails = append(o.Fails, fmt.Sprintf("%d results, want %d", len(out), len(rets)))
		return
	}
	for k, r := range rets {
		w := r.val.V
		if r.param >= 0 {
			w = args[r.param]
		}
		if g, ws := hostlib.ShowValue(out[k]), hostlib.ShowValue(w); g != ws {
			o.Fails = append(o.Fails, fmt.Sprintf("result %d is %s, the script returned %s", k, g, ws))
		}
		if out[k].Type() != sig.Out[k].RT {
			o.Fails = append(o.Fails, fmt.Sprintf("result %d has type %v, want %v", k, out[k].Type(), sig.Out[k].RT))
		}
	}
	// mutations done by the script are seen by the host (checked through the echo above and here)
	for k := 0; k < nfix; k++ {
		if c07MutateSrc("x", sig.In[k]) != "" {
			probe := reflect.New(sig.In[k].RT).Elem()
			probe.Set(args[k])
			if !c07IsMutated(args[k]) {
				o.Fails = append(o.Fails, fmt.Sprintf("the script's mutation through argument %d is not visible to the host: %s", k, hostlib.ShowValue(args[k])))
			}
		}
	}
	return
}

func c07IsMutated(v reflect.Value) bool {
	switch x := v.Interface().(type) {
	case *hostlib.Pt:
		return x == nil || x.X == 4242
	case *hostlib.Rec:
		return x == nil || x.Name == "mut"
	case *int:
		return x == nil || *x == 4242
	case []int:
		return len(x) == 0 || x[0] == 4242
	case map[string]int:
		return x == nil || x["zz"] == 4242
	}
	return true
}

const c07Universe = 200000

var c07Dry bool

func init() {
	checks["C07"] = checkC07
	core.BatchModes["c07"] = func(it *core.BatchItem) map[string]string {
		var idx uint64
		fmt.Sscan(it.Data["idx"], &idx)
		var o c07Out
		func() {
			defer func() {
				if r := recover(); r != nil {
					o.Fails = append(o.Fails, fmt.Sprintf("Go panic escaped: %v", r))
				}
			}()
			switch it.Data["dir"] {
			case "A":
				o = c07ScriptCallsHost(idx)
			case "B":
				o = c07HostCallsScript(idx)
			default:
				o = c07Fixed(int(idx))
			}
		}()
		res := map[string]string{"fails": strings.Join(o.Fails, "\n"), "calls": fmt.Sprint(o.Calls)}
		if len(o.Fails) > 0 {
			res["src"] = o.Src
		}
		return res
	}
	checks["c07debug"] = func(r *core.Run) {
		var idx uint64
		fmt.Sscan(os.Getenv("VERIF_C07_IDX"), &idx)
		var o c07Out
		c07Dry = true
		if os.Getenv("VERIF_C07_DIR") == "B" {
			fmt.Println(c07HostCallsScript(idx).Src)
		} else {
			fmt.Println(c07ScriptCallsHost(idx).Src)
		}
		c07Dry = false
		if os.Getenv("VERIF_C07_DIR") == "B" {
			o = c07HostCallsScript(idx)
		} else {
			o = c07ScriptCallsHost(idx)
		}
		fmt.Println(strings.Join(o.Fails, "\n"))
		os.Exit(0)
	}
}

func checkC07(r *core.Run) {
	r.Rule = "cell = (direction, signature shape, value draw, call form). Shapes: 0..4 parameters, 0..3 results, variadic or not, types from a grammar of depth 2 over all basic kinds, host-declared struct / named / pointer types, pointers, arrays, slices, maps, error, interface{} and four function types. Values: zero values over-represented, negative zeros, extremes, nil and empty slices and maps, nil pointers, non-UTF-8 strings. Direction A (script calls host): the host function is a reflect.MakeFunc recorder registered through Use; arguments written inline, from locals or from package-level variables, variadic ones one by one or spread; results consumed by :=, by assignment to locals, to package-level variables, returned through a script function, assigned inside a closure, or the call deferred; the recorder must have received exactly the drawn arguments, the script must see exactly the drawn results and the recorder's mutations through pointer / slice / map arguments. Direction B (host calls script): S is obtained by Eval, Symbols or Globals, must have exactly the declared native type, is called by reflect Call / CallSlice; the script logs what it received, mutates through its arguments and echoes parameters or returns drawn values; results, result types and mutations are checked on the host side. Function values are compared by calling them with probe arguments on the receiving side. Fixed cells: interpreted types passed as host interfaces, callbacks crossing twice. non-trivial = at least one value crossed"
	r.Assume = []string{"hostlib.Show (native code, used on both sides through Use) is the canonical rendering", "no NaN values (they are not equal to themselves)"}
	n := 4000
	if r.Thorough() {
		n = 100000
	}
	if os.Getenv("VERIF_C07_ALL") != "" {
		n = c07Universe
	}
	start := (r.Seed * 7919) % c07Universe
	var items []core.BatchItem
	for k := 0; k < n; k++ {
		idx := (start + uint64(k)) % c07Universe
		dir := "A"
		if idx%2 == 1 {
			dir = "B"
		}
		items = append(items, core.BatchItem{ID: fmt.Sprintf("C07/%s/s%d", dir, idx), Data: map[string]string{"idx": fmt.Sprint(idx), "dir": dir}})
	}
	for k := 0; k < c07NFixed; k++ {
		items = append(items, core.BatchItem{ID: fmt.Sprintf("C07/fixed/%s", c07FixedName(k)), Data: map[string]string{"idx": fmt.Sprint(k), "dir": "F"}})
	}
	pool := newPool(r)
	calls := 0
	for _, br := range pool.RunBatch("c07", items, 100, 300000) {
		if br.Crash != "" {
			r.Fail(br.ID, map[string]any{"diff": "the process died: " + firstLines2(br.Crash, 5)})
			continue
		}
		var c int
		fmt.Sscan(br.Data["calls"], &c)
		calls += c
		if f := br.Data["fails"]; f != "" {
			r.Fail(br.ID, map[string]any{"diff": f, "source": br.Data["src"], "tags": c07Tag(f, br.Data["src"])})
			continue
		}
		r.Ok(br.ID)
	}
	r.Extra["boundary_calls_observed"] = calls
}

func c07Tag(fails, src string) string { return "" }
