package main

import (
	"fmt"
	"os"
	"sort"
	"strings"

	"verifharness/core"
)

// C04: values are copied or shared exactly as Go prescribes. Generated operation histories over a pool of
// variables of nested composite types; the whole pool is printed after every step; gc is the reference.

const c04Shared = `
type In struct {
	N int
	A [3]int
}

type St struct {
	X   int
	Arr [3]int
	Sl  []int
	M   map[string]int
	P   *In
	In  In
}

func mapStr(m map[string]int) string {
	s := "{"
	for _, k := range []string{"a", "b", "c", "d"} {
		if v, ok := m[k]; ok {
			s += fmt.Sprint(k, ":", v, " ")
		}
	}
	return s + fmt.Sprint("n=", len(m)) + "}"
}

func stStr(s St) string {
	p := "nil"
	if s.P != nil {
		p = fmt.Sprint(*s.P)
	}
	return fmt.Sprint("{", s.X, s.Arr, s.Sl, len(s.Sl), cap(s.Sl), mapStr(s.M), p, s.In, "}")
}

func byValue(s St, a [3]int, in In) int {
	s.X += 100
	s.Arr[0] += 100
	s.In.N += 100
	a[1] += 100
	in.A[2] += 100
	if len(s.Sl) > 0 {
		s.Sl[0] += 1000
	}
	if s.M != nil {
		s.M["d"] += 1
	}
	if s.P != nil {
		s.P.N += 7
	}
	return s.X + a[1] + in.A[2]
}

func retStruct(s *St) St    { return *s }
func retArr(a *[3]int) [3]int { return *a }
func fix3(l []int) []int {
	for len(l) < 3 {
		l = append(l, len(l)+40)
	}
	return l
}
`

type c04gen struct {
	rg   *core.Rng
	b    strings.Builder
	tags map[string]bool
	n    int
}

func (g *c04gen) i3() int  { return g.rg.Intn(3) }
func (g *c04gen) val() int { return 1 + g.rg.Intn(90) }

func (g *c04gen) step() {
	r := g.rg
	g.n++
	w := func(f string, a ...any) { fmt.Fprintf(&g.b, "\t"+f+"\n", a...) }
	tag := func(t string) { g.tags[t] = true }
	st := core.Pick(r, []string{"s", "t"})
	ot := map[string]string{"s": "t", "t": "s"}[st]
	switch r.Intn(46) {
	case 0:
		tag("array-assign")
		w("a = b")
		w("b[%d] += %d", g.i3(), g.val())
	case 1:
		tag("struct-assign")
		w("%s = %s", st, ot)
		w("%s.X += %d; %s.Arr[%d] = %d; %s.In.A[%d]++", ot, g.val(), ot, g.i3(), g.val(), ot, g.i3())
	case 2:
		tag("struct-assign-shares-slice-map-ptr")
		w("%s = %s", st, ot)
		w("if len(%s.Sl) > 0 { %s.Sl[0] += %d }", ot, ot, g.val())
		w("if %s.M != nil { %s.M[\"b\"] = %d }", ot, ot, g.val())
		w("if %s.P != nil { %s.P.N += %d }", ot, ot, g.val())
	case 3:
		tag("array-elem-struct-assign")
		w("aos[%d] = aos[%d]", r.Intn(2), r.Intn(2))
		w("aos[0].N += %d; aos[1].A[%d] += %d", g.val(), g.i3(), g.val())
	case 4:
		tag("pass-by-value")
		w("obs(\"ret\", byValue(%s, a, aos[%d]))", st, r.Intn(2))
	case 5:
		tag("return-copy")
		w("%s = retStruct(&%s)", st, ot)
		w("%s.Arr[%d] = %d", ot, g.i3(), g.val())
		w("b = retArr(&a)")
		w("a[%d] = %d", g.i3(), g.val())
	case 6:
		tag("range-array-copy")
		w("for i, v := range a {")
		w("\ta[2] = %d", g.val())
		w("\tb[i] = v + i")
		w("}")
	case 7:
		tag("range-array-of-structs")
		w("for i, v := range aos {")
		w("\tv.N += %d", g.val())
		w("\taos[1].N += i")
		w("\tobs(\"rv\", v)")
		w("}")
	case 8:
		tag("range-slice-shares")
		w("l = fix3(l)")
		w("for i, v := range l {")
		w("\tif i == 0 { l[len(l)-1] = %d }", g.val())
		w("\tobs(\"rs\", i, v)")
		w("}")
	case 9:
		tag("closure-capture-by-ref")
		w("inc := func() { a[%d] += %d; %s.X++; l = append(l, %d) }", g.i3(), g.val(), st, g.val())
		w("c := a")
		w("inc()")
		w("obs(\"cap\", c, a)")
	case 10:
		tag("append-spare-capacity-aliases")
		w("l = fix3(l)")
		w("k = append(l[:1], %d)", g.val())
	case 11:
		tag("append-grows")
		w("k = l")
		w("l = append(l, %d, %d)", g.val(), g.val())
		w("if len(k) > 0 { k[0] = %d }", g.val())
	case 12:
		tag("three-index-slice")
		w("l = fix3(l)")
		w("k = l[:2:2]")
		w("k = append(k, %d)", g.val())
		w("k[0] = %d", g.val())
	case 13:
		tag("copy-builtin")
		w("l = fix3(l)")
		w("obs(\"copied\", copy(l, []int{%d, %d}))", g.val(), g.val())
		w("obs(\"copied2\", copy(l[1:], l))")
	case 14:
		tag("slice-of-array-aliases")
		w("l = a[%d:]", r.Intn(2))
		w("a[2] = %d", g.val())
		w("if len(l) > 0 { l[0] = %d }", g.val())
	case 15:
		tag("slice-of-array-field")
		w("%s.Sl = %s.Arr[:]", st, st)
		w("%s.Arr[1] = %d", st, g.val())
		w("%s.Sl[2] = %d", st, g.val())
	case 16:
		tag("slice-of-ptr-to-array")
		w("pa := &b")
		w("k = pa[1:]")
		w("pa[2] = %d", g.val())
		w("k[0] = %d", g.val())
	case 17:
		tag("reslice-len-cap")
		w("l = fix3(l)")
		w("k = l[1:2]")
		w("obs(\"lc\", len(k), cap(k))")
		w("k = k[:cap(k)]")
		w("k[len(k)-1] += %d", g.val())
	case 18:
		tag("map-insert-delete")
		w("mp[%q] = %d", core.Pick(r, []string{"a", "b", "c"}), g.val())
		w("delete(mp, %q)", core.Pick(r, []string{"a", "b", "d"}))
		w("v, ok := mp[%q]", core.Pick(r, []string{"a", "c"}))
		w("obs(\"look\", v, ok)")
	case 19:
		tag("map-of-structs-copy")
		w("x := ms[\"k\"]")
		w("x.N += %d", g.val())
		w("x.A[%d] = %d", g.i3(), g.val())
		w("obs(\"msx\", x, ms[\"k\"])")
		if r.Bool() {
			w("ms[\"k\"] = x")
		}
	case 20:
		tag("map-shared")
		w("m2 := mp")
		w("m2[\"d\"] = %d", g.val())
		w("%s.M = mp", st)
		w("%s.M[\"a\"] += %d", st, g.val())
	case 21:
		tag("addr-field")
		w("p := &%s.In", st)
		w("p.N += %d", g.val())
		w("p.A[%d] = %d", g.i3(), g.val())
		w("%s.P = p", ot)
	case 22:
		tag("addr-elem")
		w("q := &a[%d]", g.i3())
		w("*q += %d", g.val())
		w("qq := &aos[%d].A[%d]", r.Intn(2), g.i3())
		w("*qq = %d", g.val())
	case 23:
		tag("deref-assign")
		w("pp = &%s", st)
		w("*pp = %s", ot)
		w("pp.X += %d", g.val())
		w("pp.Arr[%d]--", g.i3())
	case 24:
		tag("ptr-field-opassign")
		w("if %s.P == nil { %s.P = &In{N: %d} }", st, st, g.val())
		w("%s.P.N *= 2", st)
		w("%s.P.A[%d] += %d", st, g.i3(), g.val())
	case 25:
		tag("swap-plain")
		w("a, b = b, a")
	case 26:
		tag("swap-elems")
		if r.Chance(1, 8) {
			g.tags["known:tuple-composite-lhs"] = true
			w("a[0], a[2] = a[2], a[0]")
		} else {
			w("a0, a2 := a[0], a[2]")
			w("a[0] = a2")
			w("a[2] = a0")
		}
	case 27:
		tag("swap-structs")
		w("s, t = t, s")
	case 28:
		if r.Chance(1, 6) {
			tag("index-operand-order")
			g.tags["known:tuple-composite-lhs"] = true
			w("ii := %d", r.Intn(2))
			w("ii, a[ii] = 2, %d", g.val())
			w("obs(\"ii\", ii)")
		}
	case 29:
		tag("composite-literal")
		w("%s = St{X: %d, Arr: [3]int{%d, %d}, Sl: []int{%d, %d, %d}, M: map[string]int{\"a\": %d}, P: &In{N: %d}, In: In{N: %d, A: [3]int{1, 2, 3}}}", st, g.val(), g.val(), g.val(), g.val(), g.val(), g.val(), g.val(), g.val(), g.val())
	case 30:
		tag("composite-literal-from-vars")
		w("%s = St{X: a[0], Arr: b, Sl: l, M: mp, P: &aos[0], In: aos[1]}", st)
		w("b[0] += %d; aos[0].N += %d; aos[1].N += %d", g.val(), g.val(), g.val())
	case 31:
		tag("boxed-in-interface")
		w("var e interface{} = %s", st)
		w("%s.X += %d; %s.Arr[0] += %d", st, g.val(), st, g.val())
		w("%s = e.(St)", ot)
	case 32:
		tag("boxed-array")
		w("var e interface{} = a")
		w("a[1] += %d", g.val())
		w("b = e.([3]int)")
	case 33:
		tag("slice-of-slices")
		w("if len(sos) < 2 { sos = append(sos, []int{1, 2}, []int{3}) }")
		w("sos[1] = sos[0]")
		w("sos[0][0] += %d", g.val())
		w("sos = append(sos, l)")
	case 34:
		tag("array-in-struct-copy")
		w("arr := %s.Arr", st)
		w("arr[%d] = %d", g.i3(), g.val())
		w("in := %s.In", st)
		w("in.A[%d] = %d", g.i3(), g.val())
		w("obs(\"copies\", arr, in)")
	case 35:
		tag("new-and-copy")
		w("np := new(St)")
		w("*np = %s", st)
		w("np.Arr[%d] += %d", g.i3(), g.val())
		w("%s = *np", ot)
	case 36:
		tag("append-self")
		w("l = fix3(l)")
		w("l = append(l[:2], l[1:]...)")
	case 37:
		tag("nil-slice-map")
		w("var ns []int")
		w("ns = append(ns, %d)", g.val())
		w("k = ns")
		w("obs(\"nil\", len(ns), cap(ns) > 0)")
	case 38:
		tag("struct-field-array-assign")
		w("%s.Arr = a", st)
		w("a[%d] += %d", g.i3(), g.val())
		w("b = %s.Arr", st)
		w("%s.Arr[%d] = %d", st, g.i3(), g.val())
	case 39:
		tag("struct-compare")
		w("obs(\"eq\", a == b, aos[0] == aos[1], %s.In == %s.In)", st, ot)
	case 40:
		tag("delete-while-shared")
		w("m3 := mp")
		w("delete(m3, \"a\")")
		w("mp[\"c\"] = %d", g.val())
	case 41:
		tag("slice-struct-elems")
		w("ss := []In{aos[0], aos[1]}")
		w("ss[0].N += %d", g.val())
		w("e0 := ss[1]")
		w("e0.A[0] = %d", g.val())
		w("obs(\"ss\", ss, e0)")
	case 42:
		tag("pointer-to-elem-after-append")
		w("l = fix3(l)")
		w("pe := &l[0]")
		w("l = append(l, %d, %d, %d, %d)", g.val(), g.val(), g.val(), g.val())
		w("*pe += %d", g.val())
		w("obs(\"pe\", *pe)")
	case 43:
		tag("range-field-elem-deref-copy")
		switch r.Intn(4) {
		case 0:
			w("for i, v := range %s.Arr {", st)
			w("\t%s.Arr[2] = %d + i", st, g.val())
			w("\tobs(\"rf\", i, v)")
			w("}")
		case 1:
			w("pa := &a")
			w("for i, v := range *pa {")
			w("\tpa[2] = %d + i", g.val())
			w("\tobs(\"rd\", i, v)")
			w("}")
		case 2:
			w("for i, v := range aos[1].A {")
			w("\taos[1].A[2] = %d + i", g.val())
			w("\tobs(\"re\", i, v)")
			w("}")
		default:
			w("%s.Sl = fix3(%s.Sl)", st, st)
			w("for i, v := range %s.Sl {", st)
			w("\tif i == 0 { %s.Sl = nil }", st)
			w("\tobs(\"rfs\", i, v)")
			w("}")
		}
	case 44:
		tag("tuple-with-map-entry")
		w("x := %d", g.val())
		if r.Bool() {
			w("x, mp[\"a\"] = mp[\"a\"], x")
		} else {
			w("mp[\"b\"], x = x, mp[\"b\"]")
		}
		w("obs(\"tm\", x)")
	default:
		tag("opassign-elems")
		w("a[%d] += b[%d]; %s.Arr[%d] *= 2; aos[%d].A[%d] -= %d", g.i3(), g.i3(), st, g.i3(), r.Intn(2), g.i3(), g.val())
	}
	w("dump(%d)", g.n)
}

func c04Cell(progIdx uint64, k int) core.Cell {
	rg := core.NewRng(progIdx*7919 + uint64(k)).Sub("C04")
	g := &c04gen{rg: rg, tags: map[string]bool{}}
	name := fmt.Sprintf("c04_%d_%d", progIdx, k)
	steps := 12 + rg.Intn(14)
	var b strings.Builder
	fmt.Fprintf(&b, "func %s() {\n", name)
	b.WriteString("\ta := [3]int{1, 2, 3}\n\tb := [3]int{4, 5, 6}\n\ts := St{X: 1, Arr: [3]int{7, 8, 9}, Sl: []int{10, 11, 12}, M: map[string]int{\"a\": 1}, P: &In{N: 2}, In: In{N: 3, A: [3]int{13, 14, 15}}}\n\tt := St{X: 20}\n")
	b.WriteString("\tl := []int{21, 22, 23, 24}\n\tk := []int{31, 32}\n\tmp := map[string]int{\"a\": 41, \"b\": 42}\n\tms := map[string]In{\"k\": {N: 51, A: [3]int{52, 53, 54}}}\n\taos := [2]In{{N: 61}, {N: 62, A: [3]int{63, 64, 65}}}\n\tvar sos [][]int\n\tpp := &t\n")
	b.WriteString("\tdump := func(step int) {\n\t\tobs(\"st\", step, a, b, stStr(s), stStr(t), l, len(l), cap(l), k, len(k), cap(k), mapStr(mp), ms[\"k\"], aos, sos, stStr(*pp))\n\t}\n\tdump(0)\n")
	for i := 0; i < steps; i++ {
		g.b.WriteString("\t{\n")
		save := g.b.Len()
		_ = save
		g.step()
		g.b.WriteString("\t}\n")
	}
	b.WriteString(strings.ReplaceAll(g.b.String(), "\n\t", "\n\t"))
	b.WriteString("\t_, _, _, _ = k, ms, sos, pp\n}\n")
	var tags []string
	for t := range g.tags {
		tags = append(tags, t)
	}
	sort.Strings(tags)
	return core.Cell{ID: fmt.Sprintf("C04/p%d/c%d", progIdx, k), Fn: name, Decls: b.String(), Tags: tags}
}

const c04Universe = 12000
const c04Cells = 10

func init() { checks["C04"] = checkC04 }

func checkC04(r *core.Run) {
	r.Rule = "universe = 12000 generated programs x 10 cells; a cell is a history of 12..25 steps drawn from 44 operation templates (array/struct assignment, passing, returning, ranging, capturing, boxing in interface{}; append with and without spare capacity, 2- and 3-index slicing of arrays, slices, pointers to arrays, copy, len/cap growth; map insert/delete/lookup/comma-ok, maps of structs; &x.f, &a[i], *p = v, p.f op= v; swaps and tuple assignments; composite literals) over a pool of 11 variables of nested composite types; the whole pool (pointers through their referents, len and cap of slices) is printed after every step; verdict per cell = equality of the step-by-step dumps with the gc binary"
	r.Assume = []string{"gc build of the same source is the reference"}
	n := 60
	if r.Thorough() {
		n = 4000
	}
	if os.Getenv("VERIF_C04_ALL") != "" {
		n = c04Universe
	}
	start := (r.Seed * 5003) % c04Universe
	var progs []*core.CellProgram
	for k := 0; k < n; k++ {
		idx := (start + uint64(k)) % c04Universe
		p := &core.CellProgram{Name: fmt.Sprintf("C04-p%d", idx), Shared: c04Shared}
		for c := 0; c < c04Cells; c++ {
			p.Cells = append(p.Cells, c04Cell(idx, c))
		}
		progs = append(progs, p)
	}
	pool := newPool(r)
	tagCount := map[string]int{}
	steps := 0
	rej := diffChunked(r, pool, progs, 60, func(v *core.CellVerdict) {
		for _, t := range v.Cell.Tags {
			tagCount[t]++
		}
		if v.Diff == "" && len(v.Native) > 0 {
			steps += len(v.Native)
			r.Ok(v.Cell.ID)
			if len(v.Native) > 30 {
				r.Sample(map[string]any{"cell": v.Cell.ID, "dumps": len(v.Native), "tags": v.Cell.Tags})
			}
			return
		}
		if v.Diff == "" {
			r.Inconclusive(v.Cell.ID, "no output")
			return
		}
		r.Fail(v.Cell.ID, map[string]any{"diff": v.Diff, "tags": strings.Join(v.Cell.Tags, ","), "source": v.Prog.SingleCellSource(v.Cell.ID), "native": clip(v.Native, 40), "yaegi": clip(v.Yaegi, 40), "yaegi_error": v.YErr})
	})
	r.Extra["programs"] = len(progs)
	r.Extra["pool_dumps_compared"] = steps
	r.Extra["generator_rejects"] = rej
	r.Extra["operation_histogram"] = tagCount
}
