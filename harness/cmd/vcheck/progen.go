package main

import (
	"fmt"
	"strings"

	"verifharness/core"
)

// progen: seeded, type-directed generator of deterministic, terminating Go functions ("cells") over the core
// language. Every cell is independent of every other; every value it computes is observed through obs().
// Used by C01 (and its corpus by C11, C12, C19).

type pty string

const (
	tInt   pty = "int"
	tI64   pty = "int64"
	tU8    pty = "uint8"
	tF64   pty = "float64"
	tStr   pty = "string"
	tBool  pty = "bool"
	tS     pty = "S"
	tArr   pty = "[4]int"
	tSl    pty = "[]int"
	tMap   pty = "map[string]int"
	tPS    pty = "*S"
	tPI    pty = "*int"
	tFn    pty = "func(int) int"
	tSlS   pty = "[]S"
	tSlStr pty = "[]string"
	tMapB  pty = "map[string]bool"
)

const progShared = `
type S struct {
	A int
	B string
	C [4]int
	D float64
}

var keys4 = []string{"k0", "k1", "k2", "k3"}

var (
	gZero = 0
	gBig = 1 << 40
	gNeg = -(1 << 62)
	gU8  uint8 = 250
	gI64 int64 = 1 << 33
	gF   = 1e15
)


func sumMap(m map[string]int) int {
	t := 0
	for _, k := range keys4 {
		t += m[k] * (len(k) + 1)
	}
	return t + len(m)
}
`

type pvar struct {
	name string
	typ  pty
	ro   bool // loop variable etc: not assigned by generated statements
}

type pgen struct {
	often   bool // second half of the universe: the formerly defect-prone constructs are common
	rg      *core.Rng
	b       strings.Builder
	vars    []pvar
	nvar    int
	nobs    int
	nlabel  int
	ind     int
	depth   int
	loop    int      // nesting of loops (break/continue legal)
	labels  []string // enclosing loop labels
	inCase  int      // nesting of switch case clauses
	tags    map[string]bool
	pre     strings.Builder // helper functions of this cell (emitted before it)
	cell    string
	nhelp   int
	budget  int
	ncDepth int
}

func (g *pgen) tag(t string) { g.tags[t] = true }
func (g *pgen) w(f string, a ...any) {
	g.b.WriteString(strings.Repeat("\t", g.ind))
	fmt.Fprintf(&g.b, f, a...)
	g.b.WriteString("\n")
}
func (g *pgen) fresh(p string) string { g.nvar++; return fmt.Sprintf("%s%d", p, g.nvar) }

func (g *pgen) varsOf(t pty, assignable bool) []pvar {
	var out []pvar
	for _, v := range g.vars {
		if v.typ == t && (!assignable || !v.ro) {
			out = append(out, v)
		}
	}
	return out
}

func (g *pgen) pickVar(t pty, assignable bool) (pvar, bool) {
	vs := g.varsOf(t, assignable)
	if len(vs) == 0 {
		return pvar{}, false
	}
	// prefer recent variables
	if g.rg.Chance(1, 2) && len(vs) > 2 {
		return vs[len(vs)-1-g.rg.Intn(2)], true
	}
	return vs[g.rg.Intn(len(vs))], true
}

var scalarTypes = []pty{tInt, tInt, tInt, tI64, tU8, tF64, tStr, tBool}
var allTypes = []pty{tInt, tInt, tI64, tU8, tF64, tStr, tBool, tS, tArr, tSl, tMap, tPS, tPI, tFn, tSlS, tSlStr, tMapB}

// ---- expressions ---------------------------------------------------------------------------------------

func (g *pgen) lit(t pty) string {
	r := g.rg
	switch t {
	case tInt:
		// literals stay small: the gc compiler folds literal-only sub-expressions and rejects constant overflow;
		// large values come from the package-level variables gBig, gNeg, gU8, gI64 (never assigned)
		return core.Pick(r, []string{"0", "1", "2", "3", "5", "7", "10", "-1", "-4", "100", "13"})
	case tI64:
		return "int64(" + core.Pick(r, []string{"0", "1", "-3", "9", "-7", "11"}) + ")"
	case tU8:
		return "(gU8 - " + core.Pick(r, []string{"250", "249", "248", "247", "50"}) + ")" // not a constant expression
	case tF64:
		return core.Pick(r, []string{"0.0", "1.5", "-2.25", "3.0", "0.125", "10.5"})
	case tStr:
		return core.Pick(r, []string{`""`, `"a"`, `"bc"`, `"xyz"`, `"é"`, `"go"`})
	case tBool:
		// constant conditions are folded at compile time (C03's subject): make boolean leaves depend on a variable
		if v, ok := g.pickVar(tInt, false); ok && !g.rarely("constant-condition") {
			return "(" + v.name + " " + core.Pick(r, []string{"<", ">=", "==", "!="}) + " " + core.Pick(r, []string{"0", "3", "100", "-1"}) + ")"
		}
		return core.Pick(r, []string{"true", "false"})
	case tS:
		return fmt.Sprintf("S{A: %s, B: %s, C: [4]int{%s, %s}, D: %s}", g.lit(tInt), g.lit(tStr), g.lit(tInt), g.lit(tInt), g.lit(tF64))
	case tArr:
		return fmt.Sprintf("[4]int{%s, %s, %s, %s}", g.lit(tInt), g.lit(tInt), g.lit(tInt), g.lit(tInt))
	case tSl:
		n := 1 + r.Intn(4)
		var e []string
		for i := 0; i < n; i++ {
			e = append(e, g.lit(tInt))
		}
		return "[]int{" + strings.Join(e, ", ") + "}"
	case tMap:
		return fmt.Sprintf(`map[string]int{"k0": %s, "k2": %s}`, g.lit(tInt), g.lit(tInt))
	case tPS:
		return "&" + g.lit(tS)
	case tPI:
		return "new(int)"
	case tFn:
		return fmt.Sprintf("func(x int) int { return x*%s + %s }", g.lit(tInt), g.lit(tInt))
	case tSlS:
		return "[]S{" + g.lit(tS) + ", " + g.lit(tS) + "}"
	case tSlStr:
		return `[]string{"p", "q", "rs"}`
	case tMapB:
		return core.Pick(r, []string{`map[string]bool{"k0": true, "k2": false}`, `map[string]bool{"k1": true}`, `map[string]bool{"k0": true, "k1": true, "k3": false}`})
	}
	panic("lit " + string(t))
}

// idx returns an in-range index expression for a container of the given length expression.
func (g *pgen) idx(lenExpr string) string {
	e := g.expr(tInt, 1)
	return fmt.Sprintf("iabs(%s) %% %s", e, lenExpr)
}

// nc returns an expression of type t that is not a constant expression (constant folding is C03's subject,
// and literal-only sub-expressions would drag its known defects into every program).
func (g *pgen) nc(t pty, d int) string {
	if v, ok := g.pickVar(t, false); ok {
		if d <= 0 || g.rg.Chance(1, 3) {
			return v.name
		}
		g.ncDepth++
		defer func() { g.ncDepth-- }()
		return g.expr(t, d)
	}
	return g.expr(t, d)
}

func (g *pgen) expr(t pty, d int) string {
	r := g.rg
	if d <= 0 || r.Chance(1, 4) {
		if v, ok := g.pickVar(t, false); ok && (g.ncDepth > 0 || r.Chance(3, 4)) {
			return v.name
		}
		return g.lit(t)
	}
	switch t {
	case tInt:
		switch r.Intn(16) {
		case 0, 1, 2:
			return "(" + g.nc(tInt, d-1) + " " + core.Pick(r, []string{"+", "-", "*"}) + " " + g.expr(tInt, d-1) + ")"
		case 3:
			return "(" + g.nc(tInt, d-1) + " " + core.Pick(r, []string{"/", "%"}) + " " + core.Pick(r, []string{"3", "7", "-2", "16"}) + ")"
		case 4:
			return "(" + g.nc(tInt, d-1) + " " + core.Pick(r, []string{"&", "|", "^", "&^"}) + " " + g.expr(tInt, d-1) + ")"
		case 5:
			return "(" + g.nc(tInt, d-1) + " " + core.Pick(r, []string{"<<", ">>"}) + " " + core.Pick(r, []string{"1", "3", "uint(2)", "7"}) + ")"
		case 6:
			if v, ok := g.pickVar(tSl, false); ok {
				return "len(" + v.name + ")"
			}
			if v, ok := g.pickVar(tStr, false); ok {
				return "len(" + v.name + ")"
			}
		case 7:
			if v, ok := g.pickVar(tArr, false); ok {
				return v.name + "[" + g.idx("4") + "]"
			}
		case 8:
			if v, ok := g.pickVar(tSl, false); ok {
				g.tag("index-slice")
				return fmt.Sprintf("%s[%s]", v.name, g.idx("len("+v.name+")"))
			}
		case 9:
			if v, ok := g.pickVar(tMap, false); ok {
				return v.name + "[" + core.Pick(r, []string{`"k0"`, `"k1"`, `"k2"`, `"zz"`}) + "]"
			}
		case 10:
			if v, ok := g.pickVar(tS, false); ok {
				return v.name + core.Pick(r, []string{".A", ".C[1]", ".C[3]"})
			}
			if v, ok := g.pickVar(tPS, false); ok {
				return v.name + ".A"
			}
		case 11:
			if v, ok := g.pickVar(tFn, false); ok {
				g.tag("call-funcvalue")
				return v.name + "(" + g.expr(tInt, d-1) + ")"
			}
		case 12:
			return "int(" + g.expr(core.Pick(r, []pty{tI64, tU8}), d-1) + ")"
		case 13:
			if v, ok := g.pickVar(tPI, false); ok {
				return "*" + v.name
			}
		case 14:
			return "-(" + g.nc(tInt, d-1) + ")"
		case 15:
			if v, ok := g.pickVar(tMap, false); ok {
				return "sumMap(" + v.name + ")"
			}
		}
		return g.expr(tInt, 0)
	case tI64:
		switch r.Intn(4) {
		case 0:
			return "(" + g.nc(tI64, d-1) + " " + core.Pick(r, []string{"+", "-", "*", "^"}) + " " + g.expr(tI64, d-1) + ")"
		case 1:
			return "int64(gZero + " + g.expr(tInt, d-1) + ")"
		case 2:
			return "(" + g.nc(tI64, d-1) + " >> 3)"
		}
		return g.expr(tI64, 0)
	case tU8:
		switch r.Intn(4) {
		case 0:
			return "(" + g.nc(tU8, d-1) + " " + core.Pick(r, []string{"+", "-", "*", "|"}) + " " + g.expr(tU8, d-1) + ")"
		case 1:
			return "uint8(gZero + " + g.expr(tInt, d-1) + ")"
		case 2:
			return "(" + g.nc(tU8, d-1) + " << 1)"
		}
		return g.expr(tU8, 0)
	case tF64:
		switch r.Intn(5) {
		case 0, 1:
			return "(" + g.nc(tF64, d-1) + " " + core.Pick(r, []string{"+", "-", "*"}) + " " + g.expr(tF64, d-1) + ")"
		case 2:
			return "float64(" + g.nc(tInt, d-1) + " % 1000)"
		case 3:
			return "(" + g.nc(tF64, d-1) + " / 4)"
		case 4:
			if v, ok := g.pickVar(tS, false); ok {
				return v.name + ".D"
			}
		}
		return g.expr(tF64, 0)
	case tStr:
		switch r.Intn(6) {
		case 0, 1:
			return "(" + g.nc(tStr, d-1) + " + " + g.expr(tStr, d-1) + ")"
		case 2:
			return "fmt.Sprint(" + g.expr(tInt, d-1) + ")"
		case 3:
			if v, ok := g.pickVar(tS, false); ok {
				return v.name + ".B"
			}
		case 4:
			if v, ok := g.pickVar(tSlStr, false); ok {
				return fmt.Sprintf("%s[%s]", v.name, g.idx("len("+v.name+")"))
			}
		case 5:
			if v, ok := g.pickVar(tStr, false); ok {
				g.tag("slice-string")
				return fmt.Sprintf("%s[:len(%s)/2]", v.name, v.name)
			}
		}
		return g.expr(tStr, 0)
	case tBool:
		switch r.Intn(8) {
		case 0, 1:
			return "(" + g.nc(tInt, d-1) + " " + core.Pick(r, []string{"<", "<=", "==", "!=", ">", ">="}) + " " + g.expr(tInt, d-1) + ")"
		case 2:
			return "(" + g.nc(tBool, d-1) + " " + core.Pick(r, []string{"&&", "||"}) + " " + g.expr(tBool, d-1) + ")"
		case 3:
			return "!" + g.nc(tBool, d-1)
		case 4:
			return "(" + g.nc(tStr, d-1) + " " + core.Pick(r, []string{"==", "<", "!="}) + " " + g.expr(tStr, d-1) + ")"
		case 5:
			return "(" + g.nc(tF64, d-1) + " < " + g.expr(tF64, d-1) + ")"
		case 6:
			if v, ok := g.pickVar(tMap, false); ok {
				g.tag("map-branch")
				return "(" + v.name + `["k1"] > 0)`
			}
		}
		if v, ok := g.pickVar(tMapB, false); ok && r.Chance(1, 2) {
			g.tag("boolmap-operand")
			if iv, ok := g.pickVar(tInt, false); ok && r.Chance(1, 2) {
				return fmt.Sprintf("%s[keys4[iabs(%s)%%4]]", v.name, iv.name)
			}
			return v.name + "[" + core.Pick(r, []string{`"k0"`, `"k1"`, `"k2"`, `"zz"`}) + "]"
		}
		return g.expr(tBool, 0)
	case tS:
		if v, ok := g.pickVar(tPS, false); ok && r.Chance(1, 3) {
			return "*" + v.name
		}
		if v, ok := g.pickVar(tSlS, false); ok && r.Chance(1, 3) {
			return fmt.Sprintf("%s[%s]", v.name, g.idx("len("+v.name+")"))
		}
		return g.expr(tS, 0)
	case tSl:
		switch r.Intn(4) {
		case 0:
			if v, ok := g.pickVar(tSl, false); ok {
				g.tag("append")
				return "append(" + v.name + ", " + g.expr(tInt, d-1) + ")"
			}
		case 1:
			if v, ok := g.pickVar(tArr, false); ok {
				g.tag("slice-array")
				return v.name + core.Pick(r, []string{"[:]", "[1:3]", "[:2]", "[2:]"})
			}
		case 2:
			if v, ok := g.pickVar(tSl, false); ok {
				g.tag("reslice")
				return fmt.Sprintf("%s[:len(%s)/2+1]", v.name, v.name)
			}
		}
		return g.expr(tSl, 0)
	case tPS:
		if v, ok := g.pickVar(tS, true); ok && r.Chance(1, 2) {
			g.tag("addr-struct")
			return "&" + v.name
		}
		return g.expr(tPS, 0)
	case tPI:
		if v, ok := g.pickVar(tInt, true); ok && r.Chance(2, 3) {
			g.tag("addr-int")
			return "&" + v.name
		}
		return g.expr(tPI, 0)
	case tFn:
		if r.Chance(1, 2) {
			// closure capturing an int variable
			if v, ok := g.pickVar(tInt, false); ok {
				g.tag("closure-capture")
				return fmt.Sprintf("func(x int) int { return x + %s*%s }", v.name, g.lit(tInt))
			}
		}
		return g.lit(tFn)
	}
	return g.expr(t, 0)
}

// rarely reports whether a construct that hits a known yaegi defect may be generated here: such constructs are
// kept in the corpus (their cells are recorded as known findings) but made rare so that they do not mask
// the rest of the program.
func (g *pgen) rarely(tag string) bool {
	if g.often {
		if g.rg.Chance(1, 3) {
			g.tag(tag)
			return true
		}
		return false
	}
	if g.rg.Chance(1, 40) {
		g.tag("known:" + tag)
		return true
	}
	return false
}

// ---- statements ----------------------------------------------------------------------------------------

func (g *pgen) obs(v pvar) {
	g.nobs++
	switch v.typ {
	case tPS:
		g.w("obs(\"o%d\", *%s)", g.nobs, v.name)
	case tPI:
		g.w("obs(\"o%d\", *%s)", g.nobs, v.name)
	case tFn:
		g.w("obs(\"o%d\", %s(3))", g.nobs, v.name)
	case tMap:
		g.w("obs(\"o%d\", sumMap(%s))", g.nobs, v.name)
	case tMapB:
		g.w("obs(\"o%d\", len(%s), %s[\"k0\"], %s[\"k1\"], %s[\"k2\"], %s[\"k3\"])", g.nobs, v.name, v.name, v.name, v.name, v.name)
	case tSl:
		g.w("obs(\"o%d\", len(%s), %s)", g.nobs, v.name, v.name)
	default:
		g.w("obs(\"o%d\", %s)", g.nobs, v.name)
	}
}

func (g *pgen) declare(t pty, define bool) pvar {
	name := g.fresh("v")
	e := g.expr(t, 2)
	if define {
		g.w("%s := %s", name, e)
	} else {
		g.w("var %s %s = %s", name, t, e)
	}
	v := pvar{name: name, typ: t}
	g.vars = append(g.vars, v)
	g.w("_ = %s", name)
	return v
}

// lvalue returns an assignable expression of scalar type t
func (g *pgen) lvalue(t pty) (string, bool) {
	r := g.rg
	switch t {
	case tInt:
		switch r.Intn(8) {
		case 0:
			if v, ok := g.pickVar(tS, true); ok {
				g.tag("assign-field")
				return v.name + core.Pick(r, []string{".A", ".C[2]"}), true
			}
		case 1:
			if v, ok := g.pickVar(tArr, true); ok {
				g.tag("assign-elem")
				return v.name + "[" + g.idx("4") + "]", true
			}
		case 2:
			if v, ok := g.pickVar(tSl, true); ok {
				g.tag("assign-elem")
				return fmt.Sprintf("%s[%s]", v.name, g.idx("len("+v.name+")")), true
			}
		case 3:
			if v, ok := g.pickVar(tMap, true); ok {
				g.tag("assign-mapelem")
				return v.name + "[" + core.Pick(r, []string{`"k0"`, `"k1"`, `"k3"`}) + "]", true
			}
		case 4:
			if v, ok := g.pickVar(tPI, false); ok {
				g.tag("assign-pointee")
				return "*" + v.name, true
			}
		case 5:
			if v, ok := g.pickVar(tPS, false); ok {
				g.tag("assign-pointee")
				return v.name + ".A", true
			}
		case 6:
			if v, ok := g.pickVar(tSlS, true); ok {
				g.tag("assign-elem-field")
				return fmt.Sprintf("%s[%s].A", v.name, g.idx("len("+v.name+")")), true
			}
		}
	case tStr:
		if v, ok := g.pickVar(tS, true); ok && r.Chance(1, 3) {
			return v.name + ".B", true
		}
	case tF64:
		if v, ok := g.pickVar(tS, true); ok && r.Chance(1, 3) {
			return v.name + ".D", true
		}
	}
	if v, ok := g.pickVar(t, true); ok {
		return v.name, true
	}
	return "", false
}

func (g *pgen) stmt() {
	r := g.rg
	g.budget--
	if g.budget <= 0 {
		return
	}
	choice := r.Intn(30)
	switch {
	case choice < 5: // declaration
		t := core.Pick(r, allTypes)
		v := g.declare(t, r.Bool())
		if r.Bool() {
			g.obs(v)
		}
	case choice < 9: // assignment
		t := core.Pick(r, scalarTypes)
		if lv, ok := g.lvalue(t); ok {
			if t == tStr {
				g.w("%s = clipStr(%s)", lv, g.expr(t, 3)) // strings must not grow exponentially inside loops
			} else {
				g.w("%s = %s", lv, g.expr(t, 3))
			}
			g.obsLV(lv, t)
		}
	case choice < 11: // compound assignment / incdec
		t := core.Pick(r, []pty{tInt, tInt, tI64, tU8, tF64, tStr})
		if lv, ok := g.lvalue(t); ok {
			g.tag("opassign")
			switch {
			case t == tStr:
				g.w("%s += %s", lv, g.expr(tStr, 1))
				g.w("%s = clipStr(%s)", lv, lv)
			case t == tF64:
				g.w("%s %s= %s", lv, core.Pick(r, []string{"+", "-", "*"}), g.expr(t, 1))
			case r.Chance(1, 4):
				g.w("%s%s", lv, core.Pick(r, []string{"++", "--"}))
			default:
				g.w("%s %s= %s", lv, core.Pick(r, []string{"+", "-", "*", "|", "^", "&"}), g.expr(t, 1))
			}
			g.obsLV(lv, t)
		}
	case choice < 12: // multi-assign / swap
		a, ok1 := g.lvalue(tInt)
		b, ok2 := g.lvalue(tInt)
		if ok1 && ok2 && (strings.ContainsAny(a+b, "[.*")) && !g.rarely("multi-assign-composite-lhs") {
			// known defect: element, field or pointee destinations of a tuple assignment; use plain variables
			va, o1 := g.pickVar(tInt, true)
			vb, o2 := g.pickVar(tInt, true)
			a, b, ok1, ok2 = va.name, vb.name, o1, o2
		}
		if ok1 && ok2 && a != b {
			g.tag("multi-assign")
			// known defect: a call (function, closure or builtin) among the right-hand sides of a tuple
			// assignment; the common case uses call-free operands
			e := g.expr(tInt, 0)
			if g.rarely("call-in-multi-assign") {
				e = g.expr(tInt, 2)
			} else if strings.Contains(e, "(") {
				e = g.lit(tInt)
			}
			g.w("%s, %s = %s, %s", a, b, b, e)
			g.obsLV(a, tInt)
			g.obsLV(b, tInt)
		}
	case choice < 15 && g.depth < 4: // if / else chain
		g.ifStmt()
	case choice < 18 && g.depth < 4: // for loops
		g.forStmt()
	case choice < 20 && g.depth < 4:
		g.rangeStmt()
	case choice < 22 && g.depth < 4:
		g.switchStmt()
	case choice < 23 && g.loop > 0:
		g.tag("break-continue")
		if len(g.labels) > 0 && r.Chance(1, 2) {
			g.tag("labelled-branch")
			g.w("if %s {\n%s\t%s %s\n%s}", g.expr(tBool, 1), strings.Repeat("\t", g.ind), core.Pick(r, []string{"break", "continue"}), core.Pick(r, g.labels), strings.Repeat("\t", g.ind))
		} else {
			g.w("if %s {\n%s\t%s\n%s}", g.expr(tBool, 1), strings.Repeat("\t", g.ind), core.Pick(r, []string{"break", "continue"}), strings.Repeat("\t", g.ind))
		}
	case choice < 24 && r.Chance(1, 2): // helper call with multi-value return
		g.helperCall()
	case choice < 24: // the same map element tested repeatedly as an operand of && / ||
		if v, ok := g.pickVar(tMapB, false); ok {
			g.tag("boolmap-loop")
			k := g.fresh("k")
			op := core.Pick(r, []string{"&&", "||"})
			g.w("for _, %s := range keys4 {", k)
			if r.Bool() {
				g.w("\tif %s[%s] %s %s {", v.name, k, op, g.expr(tBool, 1))
			} else {
				g.w("\tif %s %s %s[%s] {", g.expr(tBool, 1), op, v.name, k)
			}
			g.w("\t\tobs(\"bm\", %s)", k)
			if r.Bool() {
				g.w("\t\tcontinue")
			}
			g.w("\t}")
			g.w("\tobs(\"bm-after\", %s, %s[%s])", k, v.name, k)
			g.w("}")
		}
	case choice < 25 && g.depth < 3: // closure list filled in a loop, called later
		g.closureLoop()
	case choice < 26 && g.depth < 4: // nested block with shadowing
		g.tag("shadow")
		if v, ok := g.pickVar(tInt, false); ok {
			g.w("{")
			g.ind++
			g.depth++
			save := len(g.vars)
			g.w("%s := %s + %s", v.name, v.name, g.lit(tInt))
			g.w("obs(\"sh\", %s)", v.name)
			g.block(1 + r.Intn(2))
			g.vars = g.vars[:save]
			g.depth--
			g.ind--
			g.w("}")
			g.w("obs(\"sh-after\", %s)", v.name)
		}
	case choice < 27 && g.depth < 3: // forward goto
		g.tag("goto")
		l := g.fresh("L")
		g.w("if %s {\n%s\tgoto %s\n%s}", g.expr(tBool, 2), strings.Repeat("\t", g.ind), l, strings.Repeat("\t", g.ind))
		g.w("obs(\"skipped?\", %s)", g.expr(tInt, 1))
		g.w("%s:", l)
		g.w("obs(\"after-goto\", %s)", g.expr(tInt, 1))
	case choice < 28: // copy of composite then mutation of the copy
		if v, ok := g.pickVar(core.Pick(r, []pty{tS, tArr}), false); ok {
			g.tag("copy-composite")
			c := g.fresh("c")
			g.w("%s := %s", c, v.name)
			if v.typ == tS {
				g.w("%s.A += 7", c)
				g.w("%s.C[0]--", c)
			} else {
				g.w("%s[1] += 7", c)
			}
			g.w("obs(\"cp\", %s, %s)", c, v.name)
		}
	default:
		if v, ok := g.pickVar(tMapB, true); ok && r.Chance(1, 2) {
			g.tag("boolmap-update")
			if r.Bool() {
				g.w("delete(%s, %s)", v.name, core.Pick(r, []string{`"k0"`, `"k1"`, `"k2"`}))
			} else {
				g.w("%s[%s] = %s", v.name, core.Pick(r, []string{`"k0"`, `"k1"`, `"k3"`}), g.expr(tBool, 1))
			}
			g.obs(v)
			return
		}
		if v, ok := g.pickVar(core.Pick(r, allTypes), false); ok {
			g.obs(v)
		}
	}
}

func (g *pgen) obsLV(lv string, t pty) {
	if g.rg.Chance(2, 3) {
		g.nobs++
		g.w("obs(\"a%d\", %s)", g.nobs, lv)
	}
}

func (g *pgen) block(n int) {
	for i := 0; i < n && g.budget > 0; i++ {
		g.stmt()
	}
}

func (g *pgen) scoped(f func()) {
	save := len(g.vars)
	g.ind++
	g.depth++
	f()
	g.depth--
	g.ind--
	g.vars = g.vars[:save]
}

func (g *pgen) ifStmt() {
	r := g.rg
	g.tag("if")
	hdr := "if " + g.expr(tBool, 2)
	saveAll := len(g.vars)
	if r.Chance(1, 3) {
		g.tag("if-init")
		name := g.fresh("q")
		hdr = fmt.Sprintf("if %s := %s; %s > %s", name, g.expr(tInt, 2), name, g.lit(tInt))
		g.vars = append(g.vars, pvar{name: name, typ: tInt, ro: true})
	}
	g.w("%s {", hdr)
	g.scoped(func() { g.block(1 + r.Intn(3)) })
	for r.Chance(1, 3) {
		g.tag("else-if")
		g.w("} else if %s {", g.expr(tBool, 2))
		g.scoped(func() { g.block(1 + r.Intn(2)) })
	}
	if r.Chance(1, 2) {
		g.w("} else {")
		g.scoped(func() { g.block(1 + r.Intn(2)) })
	}
	g.w("}")
	g.vars = g.vars[:saveAll]
}

func (g *pgen) forStmt() {
	r := g.rg
	label := ""
	if r.Chance(1, 3) {
		label = g.fresh("Loop")
	}
	i := g.fresh("i")
	bound := 2 + r.Intn(4)
	saveAll := len(g.vars)
	kind := r.Intn(4)
	if kind >= 2 {
		g.w("%s := 0", i)
	}
	if label != "" {
		g.w("%s:", label)
		g.labels = append(g.labels, label)
	}
	switch kind {
	case 0, 1:
		g.tag("for3")
		g.w("for %s := 0; %s < %d; %s++ {", i, i, bound, i)
	case 2:
		g.tag("for-cond")
		g.w("for %s < %d {", i, bound)
		g.ind++
		g.w("%s++", i)
		g.ind--
	default:
		g.tag("for-infinite")
		g.w("for {")
		g.ind++
		g.w("%s++", i)
		g.w("if %s > %d {", i, bound)
		g.w("\tbreak")
		g.w("}")
		g.ind--
	}
	g.vars = append(g.vars, pvar{name: i, typ: tInt, ro: true})
	g.loop++
	g.scoped(func() {
		g.block(1 + r.Intn(4))
		if label != "" {
			// every label is used at least once
			g.w("if %s > 50 {", i)
			g.w("\tbreak %s", label)
			g.w("}")
		}
	})
	g.loop--
	g.w("}")
	g.vars = g.vars[:saveAll]
	if label != "" {
		g.labels = g.labels[:len(g.labels)-1]
	}
}

func (g *pgen) rangeStmt() {
	r := g.rg
	k, v := g.fresh("k"), g.fresh("e")
	saveAll := len(g.vars)
	kind := r.Intn(6)
	switch kind {
	case 0:
		if x, ok := g.pickVar(tSl, false); ok {
			g.tag("range-slice")
			g.w("for %s, %s := range %s {", k, v, x.name)
			g.w("\t_, _ = %s, %s", k, v)
			g.vars = append(g.vars, pvar{k, tInt, true}, pvar{v, tInt, true})
		} else {
			return
		}
	case 1:
		if x, ok := g.pickVar(tArr, false); ok {
			g.tag("range-array")
			g.w("for %s, %s := range %s {", k, v, x.name)
			g.w("\t_, _ = %s, %s", k, v)
			g.vars = append(g.vars, pvar{k, tInt, true}, pvar{v, tInt, true})
		} else {
			return
		}
	case 2:
		if x, ok := g.pickVar(tStr, false); ok {
			g.tag("range-string")
			g.w("for %s, %s := range %s {", k, v, x.name)
			g.vars = append(g.vars, pvar{k, tInt, true})
			g.ind++
			g.w("obs(\"rune\", %s, int(%s))", k, v)
			g.ind--
		} else {
			return
		}
	case 3:
		g.tag("range-int")
		g.w("for %s := range %d {", k, 2+r.Intn(3))
		g.w("\t_ = %s", k)
		g.vars = append(g.vars, pvar{k, tInt, true})
	case 4:
		if x, ok := g.pickVar(tSlS, false); ok {
			g.tag("range-structs")
			g.w("for %s, %s := range %s {", k, v, x.name)
			g.w("\t_, _ = %s, %s", k, v)
			g.vars = append(g.vars, pvar{k, tInt, true}, pvar{v, tS, false})
		} else {
			return
		}
	default:
		if x, ok := g.pickVar(tMap, false); ok {
			g.tag("range-map")
			t := g.fresh("t")
			g.w("%s := 0", t)
			g.w("for %s, %s := range %s {", k, v, x.name)
			g.w("\t%s += len(%s)*31 + %s", t, k, v)
			g.w("}")
			g.w("obs(\"mapsum\", %s)", t)
		}
		return
	}
	g.loop++
	g.scoped(func() { g.block(1 + r.Intn(3)) })
	g.loop--
	g.w("}")
	g.vars = g.vars[:saveAll]
}

func (g *pgen) switchStmt() {
	r := g.rg
	g.tag("switch")
	if r.Chance(1, 2) {
		g.w("switch %s %% 4 {", g.expr(tInt, 2))
		for c := 0; c < 3; c++ {
			if c == 1 && r.Chance(1, 2) {
				g.w("case 1, 2, -1:")
			} else {
				g.w("case %d:", []int{0, 1, 3}[c])
			}
			ft := false
			g.scoped(func() {
				g.inCase++
				defer func() { g.inCase-- }()
				g.block(1 + r.Intn(2))
				if c < 2 && r.Chance(1, 4) {
					g.tag("fallthrough")
					g.w("fallthrough")
					ft = true
				}
			})
			_ = ft
		}
		g.w("default:")
		g.scoped(func() { g.inCase++; g.block(1); g.inCase-- })
		g.w("}")
		return
	}
	g.tag("switch-tagless")
	g.w("switch {")
	for c := 0; c < 2+r.Intn(2); c++ {
		g.w("case %s:", g.expr(tBool, 2))
		g.scoped(func() { g.inCase++; g.block(1 + r.Intn(2)); g.inCase-- })
	}
	if r.Chance(2, 3) {
		g.w("default:")
		g.scoped(func() { g.inCase++; g.block(1); g.inCase-- })
	}
	g.w("}")
}

// helperCall emits a helper function (multi-value return, named results, recursion) and a call to it.
func (g *pgen) helperCall() {
	r := g.rg
	g.nhelp++
	name := fmt.Sprintf("h_%s_%d", g.cell, g.nhelp)
	a, b := g.fresh("r"), g.fresh("r")
	switch r.Intn(5) {
	case 0:
		g.tag("multi-return")
		fmt.Fprintf(&g.pre, "func %s(x int, s string) (int, string) {\n\tif x%%2 == 0 {\n\t\treturn x / 2, s + \"e\"\n\t}\n\treturn x*3 + 1, s + \"o\"\n}\n\n", name)
		g.w("%s, %s := %s(%s, %s)", a, b, name, g.expr(tInt, 2), g.expr(tStr, 1))
		g.vars = append(g.vars, pvar{a, tInt, false}, pvar{b, tStr, false})
		g.w("obs(\"h\", %s, %s)", a, b)
	case 1:
		g.tag("named-results")
		fmt.Fprintf(&g.pre, "func %s(x int) (q int, ok bool) {\n\tq = x %% 5\n\tif q > 2 {\n\t\tok = true\n\t\treturn\n\t}\n\tq += 10\n\treturn q, false\n}\n\n", name)
		g.w("%s, %s := %s(%s)", a, b, name, g.expr(tInt, 2))
		g.vars = append(g.vars, pvar{a, tInt, false}, pvar{b, tBool, false})
		g.w("obs(\"h\", %s, %s)", a, b)
	case 2:
		g.tag("recursion")
		fmt.Fprintf(&g.pre, "func %s(n int, acc int) int {\n\tif n <= 0 {\n\t\treturn acc\n\t}\n\treturn %s(n-1, acc*2+n)\n}\n\n", name, name)
		g.w("%s := %s(iabs(%s)%%6, %s)", a, name, g.expr(tInt, 1), g.lit(tInt))
		g.vars = append(g.vars, pvar{a, tInt, false})
		g.w("obs(\"h\", %s)", a)
	case 3:
		g.tag("call-in-return")
		fmt.Fprintf(&g.pre, "func %s_in(x int) (int, int) { return x + 1, x * 2 }\n\nfunc %s(x int) (int, int) {\n\treturn %s_in(x - 3)\n}\n\n", name, name, name)
		g.w("%s, %s := %s(%s)", a, b, name, g.expr(tInt, 2))
		g.vars = append(g.vars, pvar{a, tInt, false}, pvar{b, tInt, false})
		g.w("obs(\"h\", %s, %s)", a, b)
	default:
		g.tag("pass-composite")
		fmt.Fprintf(&g.pre, "func %s(s S, a [4]int, l []int, p *S) int {\n\ts.A++\n\ta[0] = 99\n\tif len(l) > 0 {\n\t\tl[0] += 5\n\t}\n\tp.A += 2\n\treturn s.A + a[0] + p.A\n}\n\n", name)
		sv, ok1 := g.pickVar(tS, false)
		av, ok2 := g.pickVar(tArr, false)
		lv, ok3 := g.pickVar(tSl, false)
		pv, ok4 := g.pickVar(tPS, false)
		if ok1 && ok2 && ok3 && ok4 {
			g.w("%s := %s(%s, %s, %s, %s)", a, name, sv.name, av.name, lv.name, pv.name)
			g.vars = append(g.vars, pvar{a, tInt, false})
			g.w("obs(\"h\", %s, %s, %s, %s, *%s)", a, sv.name, av.name, lv.name, pv.name)
		}
	}
}

func (g *pgen) closureLoop() {
	r := g.rg
	g.tag("closure-loopvar")
	fs := g.fresh("fs")
	i := g.fresh("i")
	g.w("var %s []func() int", fs)
	switch r.Intn(3) {
	case 0:
		g.tag("closure-in-for3")
		g.w("for %s := 0; %s < 3; %s++ {", i, i, i)
		g.w("\t%s = append(%s, func() int { return %s * 10 })", fs, fs, i)
		g.w("}")
	case 1:
		g.tag("closure-in-range")
		g.w("for %s, e := range []int{4, 5, 6} {", i)
		g.w("\t%s = append(%s, func() int { return %s + e })", fs, fs, i)
		g.w("}")
	default:
		g.tag("closure-redefine")
		g.w("for %s := 0; %s < 3; %s++ {", i, i, i)
		g.w("\tz := %s * %s", i, g.lit(tInt))
		g.w("\t%s = append(%s, func() int { z++; return z })", fs, fs)
		g.w("}")
	}
	g.w("for _, f := range %s {", fs)
	g.w("\tobs(\"clo\", f(), f())")
	g.w("}")
}

// genCell produces cell number k of program p.
func genCell(progIdx uint64, k int) core.Cell {
	rg := core.NewRng(progIdx*131 + uint64(k)).Sub("progen")
	name := fmt.Sprintf("c%d_%d", progIdx, k)
	g := &pgen{rg: rg, tags: map[string]bool{}, cell: name, budget: 14 + rg.Intn(22), ind: 1, often: progIdx >= 4000}
	g.vars = append(g.vars, pvar{"gBig", tInt, true}, pvar{"gNeg", tInt, true}, pvar{"gU8", tU8, true}, pvar{"gI64", tI64, true}, pvar{"gF", tF64, true})
	// a typed variable pool to start from
	for _, t := range []pty{tInt, tInt, tStr, tS, tArr, tSl, tMap, tPS, tMapB} {
		g.declare(t, rg.Bool())
	}
	for g.budget > 0 {
		g.stmt()
	}
	// final dump of every live variable
	for _, v := range g.vars {
		if !strings.HasPrefix(v.name, "g") {
			g.obs(v)
		}
	}
	var tags []string
	for t := range g.tags {
		tags = append(tags, t)
	}
	return core.Cell{ID: fmt.Sprintf("C01/p%d/c%d", progIdx, k), Fn: name, Tags: tags,
		Decls: g.pre.String() + "func " + name + "() {\n" + g.b.String() + "}\n"}
}

const progHelpers = `
func clipStr(s string) string {
	if len(s) > 40 {
		return s[:40]
	}
	return s
}

func iabs(x int) int {
	if x < 0 {
		if x == -x {
			return 0
		}
		return -x
	}
	return x
}
`

func genProgram(idx uint64, cells int) *core.CellProgram {
	p := &core.CellProgram{Name: fmt.Sprintf("C01-p%d", idx), Shared: progShared + progHelpers}
	for k := 0; k < cells; k++ {
		p.Cells = append(p.Cells, genCell(idx, k))
	}
	return p
}
