package main

import (
	"errors"
	"fmt"
	"go/constant"
	"go/token"
	"math/big"
	"reflect"
	"runtime"
	"sort"
	"strings"

	"verifharness/core"

	"github.com/traefik/yaegi/stdlib"
	ysyscall "github.com/traefik/yaegi/stdlib/syscall"
	"github.com/traefik/yaegi/stdlib/unrestricted"
	yunsafe "github.com/traefik/yaegi/stdlib/unsafe"
)

// C14: every standard-library binding denotes the symbol it is named after.
// Invariant walk of the live tables against a reference produced by an independent enumerator
// (cmd/genref: go/types over GOROOT sources + GOROOT/api), compiled into this monitor.

type c14Entry struct {
	K     byte // f func, v var, t type, c typed const, u untyped const
	Since int  // minor release that introduced the name (GOROOT/api), -1 unknown, -2 excepted
	V     reflect.Value
	Exact string // exact constant value (go/constant ExactString)
	CK    int    // constant.Kind
}

var c14Ref = map[string]map[string]c14Entry{}

// interface methods added by recent releases: "pkg.Type.Method" -> minor release
var c14IfaceMethodSince = map[string]int{}

// the release the loaded go1_NN_*.go files were generated for: the files selected by this toolchain
// carry the tag go1.22 (go1_22_*.go); names introduced later cannot be in them.
const c14TargetMinor = 22

// documented restricted replacements: table name -> function of package stdlib that must be bound instead
var c14Restricted = map[string]string{
	"os/os.Exit":        "github.com/traefik/yaegi/stdlib.osExit",
	"os/os.FindProcess": "github.com/traefik/yaegi/stdlib.osFindProcess",
	"log/log.Fatal":     "github.com/traefik/yaegi/stdlib.logFatal",
	"log/log.Fatalf":    "github.com/traefik/yaegi/stdlib.logFatalf",
	"log/log.Fatalln":   "github.com/traefik/yaegi/stdlib.logFatalln",
	"log/log.New":       "github.com/traefik/yaegi/stdlib.logNew",
	"log/log.Default":   "github.com/traefik/yaegi/stdlib.logDefault",
	"log/log.Logger":    "*stdlib.logLogger",

	"log/slog/slog.NewLogLogger":  "github.com/traefik/yaegi/stdlib.slogNewLogLogger",
	"log/syslog/syslog.NewLogger": "github.com/traefik/yaegi/stdlib.syslogNewLogger",
}

func c14ParseExact(s string, ck int) (constant.Value, error) {
	switch constant.Kind(ck) {
	case constant.Bool:
		return constant.MakeBool(s == "true"), nil
	case constant.String:
		return constant.MakeFromLiteral(s, token.STRING, 0), nil
	case constant.Int:
		z, ok := new(big.Int).SetString(s, 0)
		if !ok {
			return nil, fmt.Errorf("bad int %q", s)
		}
		return constant.Make(z), nil
	case constant.Float:
		if r, ok := new(big.Rat).SetString(s); ok {
			return constant.Make(r), nil
		}
		f, _, err := new(big.Float).SetPrec(4096).Parse(s, 0)
		if err != nil {
			return nil, err
		}
		return constant.Make(f), nil
	}
	return nil, fmt.Errorf("unsupported constant kind %d", ck)
}

// agreement of two float constants to n bits (relative)
func c14AgreeBits(a, b constant.Value, n uint) bool {
	fa, fb := c14BigFloat(a), c14BigFloat(b)
	if fa == nil || fb == nil {
		return false
	}
	if fa.Sign() == 0 || fb.Sign() == 0 {
		return fa.Sign() == fb.Sign()
	}
	d := new(big.Float).SetPrec(4096).Sub(fa, fb)
	d.Abs(d)
	lim := new(big.Float).SetPrec(4096).Abs(fa)
	lim.SetMantExp(lim, -int(n))
	return d.Cmp(lim) <= 0
}

func c14BigFloat(v constant.Value) *big.Float {
	switch x := constant.Val(constant.ToFloat(v)).(type) {
	case *big.Rat:
		return new(big.Float).SetPrec(4096).SetRat(x)
	case *big.Float:
		return new(big.Float).SetPrec(4096).Set(x)
	case *big.Int:
		return new(big.Float).SetPrec(4096).SetInt(x)
	case int64:
		return new(big.Float).SetPrec(4096).SetInt64(x)
	}
	return nil
}

func funcName(v reflect.Value) string {
	if v.Kind() != reflect.Func || v.IsNil() {
		return ""
	}
	if f := runtime.FuncForPC(v.Pointer()); f != nil {
		return f.Name()
	}
	return ""
}

// c14Walk compares one live table with the reference. onlyListed: the live table is a deliberate subset
// (unrestricted, syscall include lists) so completeness is not judged.
func c14Walk(r reporter, label string, live map[string]map[string]reflect.Value, complete bool, restricted bool, stats map[string]int) {
	var keys []string
	for k := range live {
		keys = append(keys, k)
	}
	sort.Strings(keys)
	for _, key := range keys {
		if !strings.Contains(key, "/") || strings.HasPrefix(key, "github.com/traefik/yaegi/") {
			continue
		}
		ref, ok := c14Ref[key]
		if !ok {
			if key == "unsafe/unsafe" {
				continue
			}
			r.Fail("C14/"+label+"/"+key, map[string]any{"diff": "table for a package the reference enumerator does not know"})
			continue
		}
		tab := live[key]
		for name, v := range tab {
			cell := "C14/" + label + "/" + key + "/" + name
			if strings.HasPrefix(name, "_") {
				continue // interface wrappers: see c14Wrappers
			}
			e, ok := ref[name]
			if !ok || e.Since > c14TargetMinor {
				r.Fail(cell, map[string]any{"diff": fmt.Sprintf("surplus name: the package declares no such exported non-generic object in release go1.%d", c14TargetMinor)})
				continue
			}
			if want, isR := c14Restricted[key+"."+name]; isR && restricted {
				got := funcName(v)
				if e.K == 't' {
					got = v.Type().String()
				}
				if got != want {
					r.Fail(cell, map[string]any{"diff": fmt.Sprintf("restricted replacement expected (%s), bound to %s", want, got)})
				} else {
					r.Ok(cell)
					stats["restricted"]++
				}
				continue
			}
			bad := ""
			switch e.K {
			case 'f':
				stats["funcs"]++
				if v.Kind() != reflect.Func || v.Pointer() != e.V.Pointer() {
					bad = fmt.Sprintf("bound to %s, not to the function of that name (%s)", funcName(v), funcName(e.V))
				}
			case 'v':
				stats["vars"]++
				if !v.CanAddr() || v.Addr().Pointer() != e.V.Addr().Pointer() {
					bad = "not the address of the variable of that name"
				}
			case 't':
				stats["types"]++
				if v.Type() != e.V.Type() {
					bad = fmt.Sprintf("type %v, want %v", v.Type(), e.V.Type())
				}
			case 'c':
				stats["typed_consts"]++
				if v.Type() != e.V.Type() || !reflect.DeepEqual(v.Interface(), e.V.Interface()) {
					bad = fmt.Sprintf("typed constant %v (%v), want %v (%v)", v, v.Type(), e.V, e.V.Type())
				}
			case 'u':
				stats["untyped_consts"]++
				cv, isC := v.Interface().(constant.Value)
				want, err := c14ParseExact(e.Exact, e.CK)
				switch {
				case err != nil:
					bad = "reference value unreadable: " + err.Error()
				case !isC && (want.Kind() == constant.Bool || want.Kind() == constant.String):
					// untyped boolean and string constants are bound as plain values
					if fmt.Sprint(v.Interface()) != fmt.Sprint(constant.Val(want)) {
						bad = fmt.Sprintf("constant %v, want %v", v.Interface(), constant.Val(want))
					}
				case !isC:
					bad = fmt.Sprintf("untyped constant bound as %v, want a constant.Value", v.Type())
				case cv.Kind() != want.Kind() && !(cv.Kind() == constant.Int && want.Kind() == constant.Float || cv.Kind() == constant.Float && want.Kind() == constant.Int):
					bad = fmt.Sprintf("constant kind %v, want %v", cv.Kind(), want.Kind())
				case want.Kind() == constant.Float || cv.Kind() == constant.Float:
					// two cells: agreement to 200 bits (what the re-materialised literals can deliver), and exactness
					if !c14AgreeBits(cv, want, 200) {
						bad = fmt.Sprintf("constant %s differs from the declared value %s beyond 200 bits", cv.ExactString(), e.Exact)
					} else if !constant.Compare(cv, token.EQL, want) {
						r.Fail(cell+"/exact", map[string]any{"diff": "constant agrees with the declared value to 200 bits but is not exactly equal"})
					} else {
						r.Ok(cell + "/exact")
					}
				default:
					if !constant.Compare(cv, token.EQL, want) {
						bad = fmt.Sprintf("constant %s, want %s", cv.ExactString(), e.Exact)
					}
				}
			}
			if bad != "" {
				r.Fail(cell, map[string]any{"diff": bad})
			} else {
				r.Ok(cell)
			}
		}
		if complete {
			for name, e := range ref {
				if e.Since < 0 || e.Since > c14TargetMinor {
					continue
				}
				if _, ok := tab[name]; !ok {
					r.Fail("C14/"+label+"/"+key+"/"+name, map[string]any{"diff": fmt.Sprintf("missing: declared by the package since go1.%d, absent from the table", e.Since)})
				}
			}
		}
	}
	if complete {
		for key := range c14Ref {
			if key == "syscall/syscall" || key == "os/exec/exec" {
				continue
			}
			if _, ok := live[key]; !ok {
				r.Fail("C14/"+label+"/"+key, map[string]any{"diff": "wrapped package absent from the live table"})
			}
		}
	}
}

var c14ErrSample = errors.New("sample")

// c14Sample draws a value of type t (deterministically from rg) for wrapper forwarding checks.
func c14Sample(t reflect.Type, rg *core.Rng, depth int) reflect.Value {
	v := reflect.New(t).Elem()
	switch t.Kind() {
	case reflect.Bool:
		v.SetBool(rg.Bool())
	case reflect.Int, reflect.Int8, reflect.Int16, reflect.Int32, reflect.Int64:
		v.SetInt(int64(rg.Intn(100) + 1))
	case reflect.Uint, reflect.Uint8, reflect.Uint16, reflect.Uint32, reflect.Uint64, reflect.Uintptr:
		v.SetUint(uint64(rg.Intn(100) + 1))
	case reflect.Float32, reflect.Float64:
		v.SetFloat(float64(rg.Intn(1000)) / 8)
	case reflect.Complex64, reflect.Complex128:
		v.SetComplex(complex(float64(rg.Intn(9)), float64(rg.Intn(9))))
	case reflect.String:
		v.SetString(fmt.Sprintf("s%d", rg.Intn(1000)))
	case reflect.Slice:
		if depth < 2 {
			n := 1 + rg.Intn(3)
			s := reflect.MakeSlice(t, n, n)
			for i := 0; i < n; i++ {
				s.Index(i).Set(c14Sample(t.Elem(), rg, depth+1))
			}
			v.Set(s)
		}
	case reflect.Array:
		for i := 0; i < t.Len() && i < 4; i++ {
			v.Index(i).Set(c14Sample(t.Elem(), rg, depth+1))
		}
	case reflect.Ptr:
		if depth < 2 && t.Elem().Kind() != reflect.Struct {
			p := reflect.New(t.Elem())
			p.Elem().Set(c14Sample(t.Elem(), rg, depth+1))
			v.Set(p)
		} else if depth < 2 {
			v.Set(reflect.New(t.Elem()))
		}
	case reflect.Interface:
		if t.NumMethod() == 0 {
			v.Set(reflect.ValueOf(rg.Intn(1000)))
		} else if reflect.TypeOf(c14ErrSample).Implements(t) && rg.Bool() {
			v.Set(reflect.ValueOf(c14ErrSample))
		}
	case reflect.Struct:
		if depth < 2 {
			for i := 0; i < t.NumField(); i++ {
				if t.Field(i).PkgPath == "" {
					k := t.Field(i).Type.Kind()
					if k != reflect.Struct && k != reflect.Ptr && k != reflect.Interface && k != reflect.Func && k != reflect.Chan && k != reflect.Map && k != reflect.UnsafePointer {
						v.Field(i).Set(c14Sample(t.Field(i).Type, rg, depth+1))
					}
				}
			}
		}
	}
	return v
}

func c14Equal(a, b reflect.Value) bool {
	if a.Kind() == reflect.Func || a.Kind() == reflect.Chan || a.Kind() == reflect.UnsafePointer {
		return a.IsNil() == b.IsNil()
	}
	return reflect.DeepEqual(a.Interface(), b.Interface())
}

// c14Wrappers instantiates every generated interface wrapper with recorder functions in all W fields and
// calls every method: exactly the recorder of the same name must see exactly the arguments, and its
// results must come back unchanged.
func c14Wrappers(r reporter, live map[string]map[string]reflect.Value, seed uint64, stats map[string]int) {
	for key, tab := range live {
		for name, v := range tab {
			if !strings.HasPrefix(name, "_") || v.Kind() != reflect.Ptr || v.Type().Elem().Kind() != reflect.Struct {
				continue
			}
			st := v.Type().Elem()
			cellBase := "C14/wrapper/" + key + "/" + name
			func() {
				defer func() {
					if x := recover(); x != nil {
						r.Fail(cellBase, map[string]any{"diff": fmt.Sprintf("panic while exercising the wrapper: %v", x)})
					}
				}()
				stats["wrappers"]++
				// the wrapper must implement the interface it is named after
				iname := strings.TrimPrefix(name, "_")
				if it, ok := tab[iname]; ok && it.Kind() == reflect.Ptr && it.Type().Elem().Kind() == reflect.Interface {
					itf := it.Type().Elem()
					sealed := false
					for m := 0; m < itf.NumMethod(); m++ {
						if itf.Method(m).PkgPath != "" {
							sealed = true // unexported method: no type outside the package can implement it
						}
					}
					if !sealed && !st.Implements(itf) {
						r.Fail(cellBase, map[string]any{"diff": fmt.Sprintf("%v does not implement %v", st, itf)})
						return
					}
					for m := 0; m < itf.NumMethod(); m++ {
						im := itf.Method(m)
						if im.PkgPath != "" {
							continue
						}
						wm, ok := st.MethodByName(im.Name)
						if !ok && c14IfaceMethodSince[key[:strings.LastIndex(key, "/")]+"."+iname+"."+im.Name] > c14TargetMinor {
							continue // the method joined the interface after the release the file targets
						}
						if !ok {
							r.Fail(cellBase+"/"+im.Name, map[string]any{"diff": "exported interface method missing from the wrapper"})
							continue
						}
						// same signature apart from the receiver
						if wm.Type.NumIn()-1 != im.Type.NumIn() || wm.Type.NumOut() != im.Type.NumOut() || wm.Type.IsVariadic() != im.Type.IsVariadic() {
							r.Fail(cellBase+"/"+im.Name, map[string]any{"diff": fmt.Sprintf("wrapper method has signature %v, interface method %v", wm.Type, im.Type)})
						}
					}
				} else {
					r.Fail(cellBase, map[string]any{"diff": "no interface type of that name in the table"})
					return
				}
				for m := 0; m < st.NumMethod(); m++ {
					meth := st.Method(m)
					cell := cellBase + "/" + meth.Name
					rg := core.NewRng(seed).Sub(cell)
					inst := reflect.New(st).Elem()
					var calledField string
					var calls int
					var seen []reflect.Value
					var returned []reflect.Value
					for f := 0; f < st.NumField(); f++ {
						fld := st.Field(f)
						if !strings.HasPrefix(fld.Name, "W") || fld.Type.Kind() != reflect.Func {
							continue
						}
						fname := fld.Name
						ft := fld.Type
						inst.Field(f).Set(reflect.MakeFunc(ft, func(args []reflect.Value) []reflect.Value {
							calls++
							calledField = fname
							seen = args
							out := make([]reflect.Value, ft.NumOut())
							for o := range out {
								out[o] = c14Sample(ft.Out(o), rg, 0)
							}
							returned = out
							return out
						}))
					}
					mt := meth.Type // receiver is the first parameter
					args := []reflect.Value{inst}
					for a := 1; a < mt.NumIn(); a++ {
						args = append(args, c14Sample(mt.In(a), rg, 0))
					}
					var out []reflect.Value
					if mt.IsVariadic() {
						out = meth.Func.CallSlice(args)
					} else {
						out = meth.Func.Call(args)
					}
					stats["wrapper_methods"]++
					bad := ""
					switch {
					case calls != 1:
						bad = fmt.Sprintf("%d recorder calls, want exactly 1", calls)
					case calledField != "W"+meth.Name:
						bad = fmt.Sprintf("forwarded to field %s, want W%s", calledField, meth.Name)
					case len(seen) != len(args)-1:
						bad = fmt.Sprintf("%d arguments forwarded, want %d", len(seen), len(args)-1)
					case len(out) != len(returned):
						bad = fmt.Sprintf("%d results, recorder returned %d", len(out), len(returned))
					}
					if bad == "" {
						for a := range seen {
							if !c14Equal(seen[a], args[a+1]) {
								bad = fmt.Sprintf("argument %d arrived as %v, sent %v", a, seen[a], args[a+1])
							}
						}
						for o := range out {
							if !c14Equal(out[o], returned[o]) {
								bad = fmt.Sprintf("result %d came back as %v, recorder returned %v", o, out[o], returned[o])
							}
						}
					}
					if bad != "" {
						r.Fail(cell, map[string]any{"diff": bad})
					} else {
						r.Ok(cell)
					}
					// String() with a nil WString must return "" (generated guard)
					if meth.Name == "String" && mt.NumIn() == 1 && mt.NumOut() == 1 && mt.Out(0).Kind() == reflect.String {
						empty := reflect.New(st).Elem()
						func() {
							defer func() {
								if x := recover(); x != nil {
									r.Fail(cell+"/nil-guard", map[string]any{"diff": fmt.Sprintf("String() with nil WString panics: %v", x)})
								}
							}()
							if s := meth.Func.Call([]reflect.Value{empty})[0].String(); s != "" {
								r.Fail(cell+"/nil-guard", map[string]any{"diff": "String() with nil WString returned " + s})
							} else {
								r.Ok(cell + "/nil-guard")
							}
						}()
					}
				}
			}()
		}
	}
}

func init() {
	checks["C14"] = checkC14
	core.ChildModes["c14"] = func(c *core.Case) *core.Result {
		col := &collector{Extra: map[string]any{}}
		stats := map[string]int{}
		var seed uint64
		fmt.Sscan(c.Params["seed"], &seed)
		c14Walk(col, "stdlib", stdlib.Symbols, true, true, stats)
		c14Wrappers(col, stdlib.Symbols, seed, stats)
		c14Walk(col, "unrestricted", unrestricted.Symbols, false, false, stats)
		c14Walk(col, "syscall", ysyscall.Symbols, false, false, stats)
		c14Wrappers(col, ysyscall.Symbols, seed, stats)
		// unsafe: the single binding must be the unsafe.Pointer type
		if v, ok := yunsafe.Symbols["unsafe/unsafe"]["Pointer"]; ok && v.Type().String() == "*unsafe.Pointer" {
			col.Ok("C14/unsafe/unsafe/unsafe/Pointer")
		} else {
			col.Fail("C14/unsafe/unsafe/unsafe/Pointer", map[string]any{"diff": "unsafe.Pointer binding is not (*unsafe.Pointer)(nil)"})
		}
		for k, v := range stats {
			col.Extra[k] = v
		}
		return resultOf(col)
	}
}

func resultOf(col *collector) *core.Result {
	b, _ := jsonMarshal(col)
	return &core.Result{Data: map[string]string{"report": string(b)}}
}

func checkC14(r *core.Run) {
	r.Rule = "cell = one entry of a live table (stdlib.Symbols go1_22 files, stdlib/unrestricted, stdlib/syscall linux/amd64, stdlib/unsafe) or one method of one generated interface wrapper; entries are compared with the reference compiled into the monitor: functions by code pointer, variables by address, types by reflect.Type, typed constants by value and type, untyped constants exactly (floats additionally: agreement to 200 bits as a separate cell), restricted replacements must be exactly the functions of restricted.go; completeness against GOROOT/api up to the release the files target; wrappers are exercised with recorder functions"
	r.Assume = []string{"reference = go/types view of GOROOT sources + GOROOT/api/go1*.txt, generated by cmd/genref and committed; independent of /repo",
		"go1_21_*.go files and the tables of platforms other than linux/amd64 cannot be loaded by the installed toolchain on this machine and are not observed (see DESIGN 2/C14)"}
	r.Exhaust = true
	pool := newPool(r)
	res := pool.RunCases([]core.Case{{ID: "C14/walk", Mode: "c14", TimeoutMs: 600000, Params: map[string]string{"seed": fmt.Sprint(r.Seed)}}})[0]
	if res.Crash || res.Timeout || res.HostPanic != "" {
		r.Fail("C14/walk", map[string]any{"diff": "the table walk ended abnormally (" + res.Ending() + "): " + firstLines2(res.CrashMsg+res.HostPanic, 8)})
		return
	}
	replayCollector(r, res)
}
