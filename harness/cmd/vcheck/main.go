// vcheck: runtime-monitoring checks for traefik/yaegi, one subcommand per property.
package main

import (
	"fmt"
	"os"
	"sort"

	"verifharness/core"
)

var checks = map[string]func(r *core.Run){}

func main() {
	if len(os.Args) >= 2 && os.Args[1] == "__child" {
		core.ChildMain()
		return
	}
	if len(os.Args) < 2 {
		usage()
	}
	fn, ok := checks[os.Args[1]]
	if !ok {
		usage()
	}
	r := core.NewRun(os.Args[1], os.Args[2:])
	fn(r)
	r.Finish()
}

func usage() {
	var ids []string
	for k := range checks {
		ids = append(ids, k)
	}
	sort.Strings(ids)
	fmt.Fprintln(os.Stderr, "usage: vcheck <id> [--tier quick|thorough] [--replay file]; ids:", ids)
	os.Exit(2)
}

func newPool(r *core.Run) *core.Pool {
	return &core.Pool{Workers: 14, Dir: r.Work + "/pool"}
}
