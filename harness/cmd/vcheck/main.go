// vcheck: runtime-monitoring checks for traefik/yaegi, one subcommand per property.
package main

import (
	"encoding/json"
	"fmt"
	"os"
	"sort"
	"strings"

	"verifharness/core"
)

var checks = map[string]func(r *core.Run){}

func main() {
	if len(os.Args) >= 2 && os.Args[1] == "__child" {
		core.ChildMain()
		return
	}
	if len(os.Args) >= 2 && os.Args[1] == "__c13io" {
		c13IOChild()
		return
	}
	if len(os.Args) < 2 {
		usage()
	}
	fn, ok := checks[os.Args[1]]
	if !ok {
		usage()
	}
	r := core.NewRun(os.Args[1], os.Args[2:])
	if r.Replay != "" && os.Args[1] != "probe" && !strings.HasSuffix(os.Args[1], "debug") {
		replay(r)
		return
	}
	fn(r)
	r.Finish()
}

// replay re-runs the witness of a violation: a program-shaped witness ("source") is run again under
// yaegi and gc and both streams are printed; other witnesses are printed as recorded.
func replay(r *core.Run) {
	b, err := os.ReadFile(r.Replay)
	if err != nil {
		fmt.Println(err)
		os.Exit(2)
	}
	var w map[string]any
	if err := json.Unmarshal(b, &w); err != nil {
		fmt.Println(err)
		os.Exit(2)
	}
	fmt.Printf("replay of %v (property %v, seed %v)\n", w["cell"], w["property"], w["seed"])
	src, ok := w["source"].(string)
	if !ok {
		fmt.Println(string(b))
		os.Exit(0)
	}
	pool := newPool(r)
	y := pool.RunCases([]core.Case{{ID: "replay", Mode: "eval", Src: src}})[0]
	n := core.Native(map[string]string{"main.go": src}, r.Work)
	fmt.Printf("--- yaegi (%s) ---\n%s%s%s%s\n--- gc (%s) ---\n%s%s\n", y.Ending(), y.Out, y.ErrText, y.HostPanic, y.CrashMsg, n.Ending(), n.Out, n.Stderr)
	os.RemoveAll(r.Work)
	if y.Out != n.Out || y.Ending() != n.Ending() {
		fmt.Printf("VIOLATION property=%s replay=%s\n", r.Prop, r.Replay)
		os.Exit(1)
	}
	fmt.Println("streams agree")
	os.Exit(0)
}

func usage() {
	var ids []string
	for k := range checks {
		ids = append(ids, k)
	}
	sort.Strings(ids)
	fmt.Fprintln(os.Stderr, "usage: vcheck <id> [--tier quick|thorough] [--replay file]; ids:", ids)
	os.Exit(2)
}

func newPool(r *core.Run) *core.Pool {
	return &core.Pool{Workers: 14, Dir: r.Work + "/pool"}
}
