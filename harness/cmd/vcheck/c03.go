package main

import (
	"bytes"
	"fmt"
	"go/ast"
	"go/constant"
	"go/importer"
	"go/parser"
	"go/token"
	"go/types"
	"math"
	"os"
	"regexp"
	"runtime"
	"strings"
	"sync"

	"verifharness/core"

	"github.com/traefik/yaegi/interp"
)

// C03: constant expressions follow Go's exact constant semantics.
// Reference model: go/types + go/constant on the same source; observation: value/type returned by Eval,
// or the error it returns.

type c03Expr struct {
	src  string
	tags []string
}

var c03Ints = []string{"0", "1", "2", "3", "7", "10", "63", "64", "127", "128", "255", "256", "32767", "32768", "65535", "65536",
	"2147483647", "2147483648", "4294967295", "4294967296", "9223372036854775807", "9223372036854775808", "18446744073709551615", "18446744073709551616",
	"1267650600228229401496703205376", "1606938044258990275541962092341162602522202993782792835301376", "0x7f", "0xff", "0o17", "0b101", "1_000"}
var c03Floats = []string{"0.0", "1.0", "1.5", "0.1", "2.5e10", "1e300", "1e-300", "3.4e38", "1e39", "1.8e308", "16777217.0", "0.5", "1e100", "4.0", "8.0"}
var c03Runes = []string{"'a'", "'0'", "'\\n'", "'\\xff'", "'世'", "'\\U0010FFFF'"}
var c03Strings = []string{`""`, `"a"`, `"ab"`, `"héllo"`, "`raw`"}
var c03IntTypes = []string{"int", "int8", "int16", "int32", "int64", "uint", "uint8", "uint16", "uint32", "uint64", "uintptr"}

type c03Gen struct{ rg *core.Rng }

func (g *c03Gen) intExpr(d int) string {
	r := g.rg
	if d <= 0 || r.Chance(1, 4) {
		switch r.Intn(8) {
		case 0:
			return core.Pick(r, c03Runes)
		case 1:
			return fmt.Sprintf("len(%s)", core.Pick(r, c03Strings))
		}
		return core.Pick(r, c03Ints)
	}
	switch r.Intn(14) {
	case 0, 1, 2:
		return "(" + g.intExpr(d-1) + " " + core.Pick(r, []string{"+", "-", "*"}) + " " + g.intExpr(d-1) + ")"
	case 3:
		return "(" + g.intExpr(d-1) + " " + core.Pick(r, []string{"/", "%"}) + " " + g.intExpr(d-1) + ")"
	case 4:
		return "(" + g.intExpr(d-1) + " " + core.Pick(r, []string{"&", "|", "^", "&^"}) + " " + g.intExpr(d-1) + ")"
	case 5, 6:
		return "(" + g.intExpr(d-1) + " " + core.Pick(r, []string{"<<", ">>"}) + " " + core.Pick(r, []string{"0", "1", "3", "7", "8", "31", "32", "63", "64", "65", "100", "200"}) + ")"
	case 7:
		return core.Pick(r, []string{"-", "+", "^"}) + g.intExpr(d-1)
	case 8, 9:
		return core.Pick(r, c03IntTypes) + "(" + g.intExpr(d-1) + ")"
	case 10:
		// integral float constant used as integer
		return "(" + core.Pick(r, []string{"4.0", "8.0", "1e3", "2.0"}) + " " + core.Pick(r, []string{"<<", "%", "&"}) + " " + core.Pick(r, []string{"1", "3", "5"}) + ")"
	case 11:
		return "int(" + g.floatExpr(d-1) + ")"
	case 12:
		return fmt.Sprintf("len([%s]int{})", core.Pick(r, []string{"0", "3", "1<<4", "10"}))
	}
	return core.Pick(r, c03Ints)
}

func (g *c03Gen) floatExpr(d int) string {
	r := g.rg
	if d <= 0 || r.Chance(1, 4) {
		return core.Pick(r, c03Floats)
	}
	switch r.Intn(9) {
	case 0, 1, 2:
		return "(" + g.floatExpr(d-1) + " " + core.Pick(r, []string{"+", "-", "*", "/"}) + " " + g.floatExpr(d-1) + ")"
	case 3:
		return "(" + g.floatExpr(d-1) + " " + core.Pick(r, []string{"+", "-", "*", "/"}) + " " + g.intExpr(d-1) + ")"
	case 4:
		return "-" + g.floatExpr(d-1)
	case 5:
		return core.Pick(r, []string{"float32", "float64"}) + "(" + g.floatExpr(d-1) + ")"
	case 6:
		return core.Pick(r, []string{"float32", "float64"}) + "(" + g.intExpr(d-1) + ")"
	case 7:
		return core.Pick(r, []string{"real", "imag"}) + "(" + g.complexExpr(d-1) + ")"
	}
	return core.Pick(r, c03Floats)
}

func (g *c03Gen) complexExpr(d int) string {
	r := g.rg
	if d <= 0 || r.Chance(1, 3) {
		return core.Pick(r, []string{"2i", "1.5i", "(1 + 2i)", "(0.5 - 3i)", "0i", "1e200i"})
	}
	switch r.Intn(5) {
	case 0, 1:
		return "(" + g.complexExpr(d-1) + " " + core.Pick(r, []string{"+", "-", "*", "/"}) + " " + g.complexExpr(d-1) + ")"
	case 2:
		return "complex(" + g.floatExpr(d-1) + ", " + g.floatExpr(d-1) + ")"
	case 3:
		return core.Pick(r, []string{"complex64", "complex128"}) + "(" + g.complexExpr(d-1) + ")"
	}
	return "(" + g.complexExpr(d-1) + " + " + g.floatExpr(d-1) + ")"
}

func (g *c03Gen) boolExpr(d int) string {
	r := g.rg
	switch r.Intn(6) {
	case 0:
		return "(" + g.intExpr(d-1) + " " + core.Pick(r, []string{"==", "!=", "<", "<=", ">", ">="}) + " " + g.intExpr(d-1) + ")"
	case 1:
		return "(" + g.floatExpr(d-1) + " " + core.Pick(r, []string{"==", "!=", "<", ">="}) + " " + g.floatExpr(d-1) + ")"
	case 2:
		return "(" + core.Pick(r, c03Strings) + " " + core.Pick(r, []string{"==", "!=", "<", ">"}) + " " + core.Pick(r, c03Strings) + ")"
	case 3:
		if d > 0 {
			return "(" + g.boolExpr(d-1) + " " + core.Pick(r, []string{"&&", "||"}) + " " + g.boolExpr(d-1) + ")"
		}
	case 4:
		if d > 0 {
			return "!" + g.boolExpr(d-1)
		}
	}
	return core.Pick(r, []string{"true", "false"})
}

func (g *c03Gen) stringExpr(d int) string {
	r := g.rg
	if d <= 0 || r.Chance(1, 2) {
		return core.Pick(r, c03Strings)
	}
	switch r.Intn(3) {
	case 0:
		return "(" + g.stringExpr(d-1) + " + " + g.stringExpr(d-1) + ")"
	case 1:
		return "string(rune(" + core.Pick(r, []string{"65", "0x4e16", "'x'", "1114112", "-1"}) + "))"
	}
	return core.Pick(r, c03Strings)
}

// c03Universe item i: (class, form, expression)
func c03Item(i uint64) (class, form, src string) {
	rg := core.NewRng(i).Sub("C03")
	g := &c03Gen{rg}
	d := 1 + rg.Intn(4)
	switch rg.Intn(12) {
	case 0, 1, 2, 3, 4:
		class, src = "int", g.intExpr(d)
	case 5, 6, 7:
		class, src = "float", g.floatExpr(d)
	case 8:
		class, src = "complex", g.complexExpr(d)
	case 9, 10:
		class, src = "bool", g.boolExpr(d)
	default:
		class, src = "string", g.stringExpr(d)
	}
	form = []string{"expr", "expr", "constdecl", "typedconst", "vardecl"}[rg.Intn(5)]
	return
}

// boundary set: min-1, min, max, max+1 of every integer width, as literal, as conversion, as result of + - * << -x ^x
func c03Boundary() []c03Expr {
	var out []c03Expr
	for _, k := range intKinds {
		lo, hi := k.minmax()
		lo1 := new(bigInt).Sub(lo, bigOne)
		hi1 := new(bigInt).Add(hi, bigOne)
		for _, v := range []*bigInt{lo1, lo, hi, hi1} {
			s := v.String()
			out = append(out,
				c03Expr{fmt.Sprintf("%s(%s)", k.name, s), []string{"boundary", "conv-lit", k.name}},
				c03Expr{fmt.Sprintf("%s(%s) + 0", k.name, s), []string{"boundary", "conv-lit-plus0", k.name}},
				c03Expr{fmt.Sprintf("%s(1) * (%s)", k.name, s), []string{"boundary", "typed-mul", k.name}},
			)
		}
		out = append(out,
			c03Expr{fmt.Sprintf("%s(%s) + 1", k.name, hi), []string{"boundary", "typed-add-overflow", k.name}},
			c03Expr{fmt.Sprintf("%s(%s) - 1", k.name, lo), []string{"boundary", "typed-sub-overflow", k.name}},
			c03Expr{fmt.Sprintf("%s(%s) * 2", k.name, hi), []string{"boundary", "typed-mul-overflow", k.name}},
			c03Expr{fmt.Sprintf("%s(1) << %d", k.name, k.bits), []string{"boundary", "typed-shl-overflow", k.name}},
			c03Expr{fmt.Sprintf("%s(1) << %d", k.name, k.bits-1), []string{"boundary", "typed-shl-signbit", k.name}},
			c03Expr{fmt.Sprintf("-%s(%s)", k.name, lo), []string{"boundary", "typed-neg-min", k.name}},
			c03Expr{fmt.Sprintf("-%s(1)", k.name), []string{"boundary", "typed-neg-one", k.name}},
			c03Expr{fmt.Sprintf("^%s(0)", k.name), []string{"boundary", "typed-bitnot-zero", k.name}},
			c03Expr{fmt.Sprintf("%s(%s) / %s(1)", k.name, hi, k.name), []string{"boundary", "typed-div", k.name}},
			c03Expr{fmt.Sprintf("%s(5) / %s(0)", k.name, k.name), []string{"boundary", "typed-div-zero", k.name}},
			c03Expr{fmt.Sprintf("%s(5) %% 0", k.name), []string{"boundary", "typed-rem-zero", k.name}},
			c03Expr{fmt.Sprintf("%s(1.5)", k.name), []string{"boundary", "conv-truncate", k.name}},
			c03Expr{fmt.Sprintf("%s(2.0)", k.name), []string{"boundary", "conv-integral-float", k.name}},
		)
	}
	// ordered and equality comparisons of typed constants at the ends of their range (the unsigned ones above
	// the signed maximum of the same width) with small and with extreme operands, in both orders
	for _, k := range intKinds {
		lo, hi := k.minmax()
		mid := new(bigInt).Add(new(bigInt).Rsh(hi, 1), bigOne) // unsigned: the sign bit of the same width; signed: 2^(bits-2)
		for vi, v := range []*bigInt{lo, hi, mid} {
			for _, op := range []string{"==", "!=", "<", "<=", ">", ">="} {
				for si, small := range []string{"0", "1", "100", hi.String()} {
					vs := []string{"lo", "hi", "mid"}[vi]
					ss := []string{"zero", "one", "hundred", "max"}[si]
					out = append(out,
						c03Expr{fmt.Sprintf("%s(%s) %s %s", k.name, v, op, small), []string{"boundary", "typed-compare", k.name, vs + op + ss}},
						c03Expr{fmt.Sprintf("%s(%s) %s %s(%s)", k.name, small, op, k.name, v), []string{"boundary", "typed-compare-rev", k.name, ss + op + vs}},
					)
				}
			}
		}
	}
	for _, e := range []string{"1 / 0", "1.0 / 0", "1 % 0", "1 / 0.0", "(1 + 2i) / 0", "1 << -1", "1.5 << 2", "float32(1e39)", "float64(1e309)", "float32(3.4e38)", "complex64(1e39)",
		"imag(3i)", "real(3i)", "imag(1)", "real(2.5)", "complex(1, 2)", "len(\"abc\")", "len([3]int{})", "'a' + 1", "'a' * 2.5", "1 << 62", "1 << 63", "-1 << 63", "1<<64 - 1", "-(1 << 63) - 1",
		"9223372036854775807 + 1", "1<<100 >> 98", "(1<<100) / (1<<98)", "1<<200 >> 199", "0.1 + 0.2", "1e300 * 1e300 / 1e300", "1 / 3.0", "7 / 2", "7 / 2.0", "-7 / 2", "-7 % 3", "7 % -3",
		"1 &^ 3", "^0", "^1", "-0.0", "1 == 1.0", "'a' == 97", "\"a\" < \"b\"", "!true", "true && false || true", "string(rune(65))", "\"a\" + \"b\"", "uint8(255) + uint8(0)", "int8(-128) / int8(-1)",
		"uint(1) << 64", "uint64(1) << 63", "int64(1) << 63", "int32(1) << 31", "uint32(1) << 31", "float32(16777217)", "float64(float32(0.1))", "int(float32(16777217))", "1i * 1i", "complex128(1 + 2i) * 2",
		// just above a float32 rounding tie by less than a float64 ulp: rounding twice gives another value
		"float32(1.00000005960464477539062500001)", "float32(16777217.000000001)", "float32(0.50000002980232238769531250001)", "float32(-16777219.000000001)",
		"float32(1<<128 - 1<<103 - 1)", "float32(1<<128 - 1<<103)", "float32(1.00000005960464477539062500001) * 2", "float64(9007199254740993.0000000001)", "float64(1<<1024 - 1<<970 - 1)"} {
		out = append(out, c03Expr{e, []string{"special", e}})
	}
	return out
}

// c03Features names the constructs of an expression that matter for attributing a divergence to a defect class.
func c03Features(src string) string {
	var f []string
	add := func(cond bool, name string) {
		if cond {
			f = append(f, name)
		}
	}
	add(strings.Contains(src, "real(") || strings.Contains(src, "imag("), "realimag")
	add(strings.Contains(src, "complex") || c03ImagLit.MatchString(src), "complex")
	add(c03BigLit.MatchString(src), "big")
	add(c03FloatShift.MatchString(src), "fshift")
	add(strings.Contains(src, "'"), "rune")
	add(c03ConvInt.MatchString(src), "convint")
	add(strings.Contains(src, "float32(") || strings.Contains(src, "float64("), "convfloat")
	add(strings.Contains(src, "len("), "len")
	add(strings.Contains(src, "/") || strings.Contains(src, "%"), "div")
	add(strings.Contains(src, "<<") || strings.Contains(src, ">>"), "shift")
	add(strings.Contains(src, "string("), "strconv")
	add(c03FloatLit.MatchString(src), "float")
	if len(f) == 0 {
		return "plain"
	}
	return strings.Join(f, "+")
}

var (
	c03ImagLit    = regexp.MustCompile(`[0-9.]i\b`)
	c03BigLit     = regexp.MustCompile(`[0-9]{19,}|e[0-9]{3}|e-[0-9]{3}|1e39|3\.4e38`)
	c03FloatShift = regexp.MustCompile(`[0-9]\.[0-9]+ (<<|>>|%|&)|1e3 (<<|>>|%|&)`)
	c03ConvInt    = regexp.MustCompile(`\b(u?int(8|16|32|64)?|uintptr)\(`)
	c03FloatLit   = regexp.MustCompile(`[0-9]\.[0-9]|[0-9]e[0-9-]`)
)

var c03Fset = token.NewFileSet()
var c03Importer = importer.Default()

// c03Reference type-checks the expression in a value context and returns accept/reject, the class of the
// rejection, and the expected value rendered as "%T %v" of the value the Go toolchain would produce.
func c03Reference(form, e, typ string) (accept bool, class string, want string) {
	var src string
	switch form {
	case "typedconst":
		src = fmt.Sprintf("package p\nconst X %s = %s\nvar Y = X\n", typ, e)
	default:
		src = fmt.Sprintf("package p\nconst X = %s\nvar Y = X\n", e)
	}
	f, err := parser.ParseFile(c03Fset, "x.go", src, 0)
	if err != nil {
		return false, "syntax", ""
	}
	var firstErr error
	conf := types.Config{Importer: c03Importer, Error: func(err error) {
		if firstErr == nil {
			firstErr = err
		}
	}}
	info := &types.Info{Defs: map[*ast.Ident]types.Object{}}
	pkg, _ := conf.Check("p", c03Fset, []*ast.File{f}, info)
	if firstErr != nil {
		msg := firstErr.Error()
		switch {
		case strings.Contains(msg, "overflows"), strings.Contains(msg, "truncated"), strings.Contains(msg, "division by zero"),
			strings.Contains(msg, "invalid shift count"), strings.Contains(msg, "negative shift count"):
			return false, "const-error", msg
		}
		return false, "other", msg
	}
	y := pkg.Scope().Lookup("Y")
	x := pkg.Scope().Lookup("X").(*types.Const)
	t := y.Type()
	b, ok := t.Underlying().(*types.Basic)
	if !ok {
		return false, "other", "non-basic type"
	}
	v := x.Val()
	tn := b.Name()
	switch tn { // %T prints the canonical names
	case "rune":
		tn = "int32"
	case "byte":
		tn = "uint8"
	}
	switch {
	case b.Info()&types.IsBoolean != 0:
		return true, "", fmt.Sprintf("%s %v", tn, constant.BoolVal(v))
	case b.Info()&types.IsString != 0:
		return true, "", fmt.Sprintf("%s %q", tn, constant.StringVal(v))
	case b.Info()&types.IsUnsigned != 0:
		u, _ := constant.Uint64Val(constant.ToInt(v))
		return true, "", fmt.Sprintf("%s %d", tn, u)
	case b.Info()&types.IsInteger != 0:
		i, _ := constant.Int64Val(constant.ToInt(v))
		return true, "", fmt.Sprintf("%s %d", tn, i)
	case b.Info()&types.IsFloat != 0:
		if b.Kind() == types.Float32 {
			f32, _ := constant.Float32Val(constant.ToFloat(v))
			return true, "", fmt.Sprintf("%s %v", tn, f32)
		}
		f64, _ := constant.Float64Val(constant.ToFloat(v))
		return true, "", fmt.Sprintf("%s %v", tn, f64)
	case b.Info()&types.IsComplex != 0:
		c := constant.ToComplex(v)
		if b.Kind() == types.Complex64 {
			re, _ := constant.Float32Val(constant.Real(c))
			im, _ := constant.Float32Val(constant.Imag(c))
			return true, "", fmt.Sprintf("%s %v", tn, complex(re, im))
		}
		re, _ := constant.Float64Val(constant.Real(c))
		im, _ := constant.Float64Val(constant.Imag(c))
		return true, "", fmt.Sprintf("%s %v", tn, complex(re, im))
	}
	return false, "other", "unsupported type " + tn
}

type c03Obs struct {
	got   string
	err   string
	panic string
	out   string
}

func c03Observe(form, e, typ string) (o c03Obs) {
	var out bytes.Buffer
	i := interp.New(interp.Options{Stdout: &out, Stderr: &out})
	defer func() {
		if r := recover(); r != nil {
			o.panic = fmt.Sprint(r)
		}
		o.out = out.String()
	}()
	var chunks []string
	switch form {
	case "expr":
		chunks = []string{e}
	case "constdecl":
		chunks = []string{"const X = " + e, "X"}
	case "typedconst":
		chunks = []string{fmt.Sprintf("const X %s = %s", typ, e), "X"}
	case "vardecl":
		chunks = []string{"var Y = " + e, "Y"}
	}
	for _, c := range chunks {
		v, err := i.Eval(c)
		if err != nil {
			o.err = err.Error()
			return
		}
		if v.IsValid() && v.CanInterface() {
			x := v.Interface()
			switch y := x.(type) {
			case string:
				o.got = fmt.Sprintf("%T %q", x, y)
			case float32:
				if y == 0 && math.Signbit(float64(y)) {
					o.got = "float32 -0"
				} else {
					o.got = fmt.Sprintf("%T %v", x, x)
				}
			default:
				o.got = fmt.Sprintf("%T %v", x, x)
			}
		} else {
			o.got = "<no value>"
		}
	}
	return
}

func init() {
	checks["C03"] = checkC03
	core.BatchModes["c03expr"] = func(it *core.BatchItem) map[string]string {
		o := c03Observe(it.Data["form"], it.Data["src"], it.Data["typ"])
		return map[string]string{"got": o.got, "err": o.err, "panic": o.panic}
	}
	core.BatchModes["c03block"] = c03BlockObserve
}

func checkC03(r *core.Run) {
	r.Rule = "cell = one constant expression in one form (bare expression, const declaration then use, typed const declaration, var declaration); reference = go/types + go/constant on the same source in a value context: accepted expressions must evaluate to the same default/declared type and the exactly rounded value; expressions the Go checker rejects for overflow, truncation, division by zero or an invalid shift must make Eval return an error; a Go panic escaping Eval is a violation. Expressions rejected for other reasons (operand type mismatch) are generator rejects and not judged. non-trivial = judged"
	r.Assume = []string{"go/types and go/constant of the installed toolchain are the reference model"}
	const universe = 200000
	n := 4000
	if r.Thorough() {
		n = 60000
	}
	if os.Getenv("VERIF_C03_ALL") != "" { // development: sweep the whole universe
		n = universe
	}
	start := (r.Seed * 15485863) % universe
	type job struct {
		cell, form, src, typ string
	}
	var jobs []job
	for _, b := range c03Boundary() {
		for _, form := range []string{"expr", "constdecl", "vardecl"} {
			jobs = append(jobs, job{"C03/" + strings.Join(b.tags, "/") + "/" + form, form, b.src, ""})
		}
	}
	typedTargets := []string{"int", "int8", "uint8", "int64", "uint64", "float32", "float64", "complex128", "rune", "uint16"}
	for k := 0; k < n; k++ {
		i := (start + uint64(k)) % universe
		class, form, src := c03Item(i)
		typ := ""
		if form == "typedconst" {
			switch class {
			case "bool":
				typ = "bool"
			case "string":
				typ = "string"
			default:
				typ = typedTargets[i%uint64(len(typedTargets))]
			}
		}
		fm := form
		if typ != "" {
			fm = form + ":" + typ
		}
		jobs = append(jobs, job{fmt.Sprintf("C03/gen/%s/%s/%s/@/%d", class, fm, c03Features(src), i), form, src, typ})
	}
	// const blocks with iota
	nb := 300
	if r.Thorough() {
		nb = 4000
	}
	if os.Getenv("VERIF_C03_ALL") != "" {
		nb = c03BlockUniverse
	}
	accepted, rejected, skipped := 0, 0, 0
	classes := map[string]int{}
	// reference verdicts (in parallel), then observations in child processes (a stack overflow or any other
	// Go fatal error inside the interpreter is attributed to the expression that was being evaluated)
	type refv struct {
		acc         bool
		class, want string
	}
	refs := make([]refv, len(jobs))
	var wg sync.WaitGroup
	sem := make(chan struct{}, runtime.NumCPU())
	for k := range jobs {
		wg.Add(1)
		sem <- struct{}{}
		go func(k int) {
			defer wg.Done()
			defer func() { <-sem }()
			a, c, w := c03Reference(jobs[k].form, jobs[k].src, jobs[k].typ)
			refs[k] = refv{a, c, w}
		}(k)
	}
	wg.Wait()
	var items []core.BatchItem
	var idx []int
	for k, j := range jobs {
		if !refs[k].acc && refs[k].class != "const-error" {
			skipped++
			continue
		}
		items = append(items, core.BatchItem{ID: j.cell, Data: map[string]string{"form": j.form, "src": j.src, "typ": j.typ}})
		idx = append(idx, k)
	}
	pool := newPool(r)
	for q, br := range pool.RunBatch("c03expr", items, 150, 120000) {
		j := jobs[idx[q]]
		acc, want := refs[idx[q]].acc, refs[idx[q]].want
		if acc {
			accepted++
		} else {
			rejected++
		}
		classes[strings.Split(j.cell, "/")[1]]++
		o := c03Obs{got: br.Data["got"], err: br.Data["err"], panic: br.Data["panic"]}
		kind := "ok"
		switch {
		case br.Crash != "":
			kind = "crash"
		case o.panic != "":
			kind = "panic"
		case acc && o.err != "":
			kind = "rejects-valid"
		case acc && o.got != want && strings.Split(o.got, " ")[0] != strings.Split(want, " ")[0]:
			kind = "wrong-type"
		case acc && o.got != want:
			kind = "wrong-value"
		case !acc && o.err == "":
			kind = "accepts-invalid"
		}
		j.cell = strings.Replace(j.cell, "/@/", "/"+kind+"/", 1)
		w := map[string]any{"expression": j.src, "form": j.form, "type": j.typ, "reference": want, "yaegi_value": o.got, "yaegi_error": o.err}
		switch {
		case br.Crash != "":
			w["diff"] = "the evaluating process died: " + firstLines2(br.Crash, 4)
			r.Fail(j.cell, w)
		case o.panic != "":
			w["diff"] = "a Go panic escaped Eval: " + o.panic
			r.Fail(j.cell, w)
		case acc && o.err != "":
			w["diff"] = fmt.Sprintf("valid constant expression rejected: %s (reference value %s)", o.err, want)
			r.Fail(j.cell, w)
		case acc && o.got != want:
			w["diff"] = fmt.Sprintf("value %s, Go's constant semantics give %s", o.got, want)
			r.Fail(j.cell, w)
		case !acc && o.err == "":
			w["diff"] = fmt.Sprintf("accepted with value %s; the Go type checker rejects it: %s", o.got, want)
			r.Fail(j.cell, w)
		default:
			r.Ok(j.cell)
			if q%53 == 0 {
				r.Sample(map[string]any{"cell": j.cell, "expr": j.src, "accepted": acc, "value": o.got})
			}
		}
	}
	c03Blocks(r, pool, nb)
	r.Extra["expressions_accepted_by_reference"] = accepted
	r.Extra["expressions_rejected_by_reference"] = rejected
	r.Extra["generator_rejects_not_judged"] = skipped
	r.Extra["judged_by_family"] = classes
	r.Extra["universe"] = universe
	r.Extra["window"] = []uint64{start, uint64(n)}
}
