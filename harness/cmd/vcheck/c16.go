package main

import (
	"bytes"
	"encoding/json"
	"fmt"
	"os"
	"path"
	"path/filepath"
	"sort"
	"strings"
	"testing/fstest"

	"verifharness/core"

	"github.com/traefik/yaegi/interp"
	"github.com/traefik/yaegi/stdlib"
)

// C16: source imports resolve to the right directory, once, without cycles.
// Monitor: executable model of the documented rule (nearest enclosing vendor directory walking up to
// GOPATH/src, else GOPATH/src/<path>); each package reports its own directory; trees are materialised on
// disk and as fstest.MapFS.

type c16Pkg struct {
	Dir     string   // physical directory relative to GOPATH/src
	Path    string   // import path it is known by (what importers write)
	Imports []string // import paths
}

type c16Tree struct {
	ID    string
	Pkgs  []c16Pkg
	Top   string // import path evaluated by the script
	Cycle bool
	Feat  []string
}

func (t *c16Tree) byDir() map[string]*c16Pkg {
	m := map[string]*c16Pkg{}
	for i := range t.Pkgs {
		m[t.Pkgs[i].Dir] = &t.Pkgs[i]
	}
	return m
}

// c16Resolve is the model: directory (relative to GOPATH/src) that import path p denotes for an importer
// located in dir (dir == "" for the top-level script).
func c16Resolve(dirs map[string]*c16Pkg, dir, p string) (string, bool) {
	for d := dir; d != "" && d != "."; d = path.Dir(d) {
		cand := path.Join(d, "vendor", p)
		if _, ok := dirs[cand]; ok {
			return cand, true
		}
	}
	if _, ok := dirs[p]; ok {
		return p, true
	}
	return "", false
}

// expected value of Deps() of the package in dir, and the init log (each physical package once,
// dependencies first, in import order).
func c16Expect(dirs map[string]*c16Pkg, dir string, inits *[]string, seen map[string]bool, depth int) string {
	p := dirs[dir]
	var parts []string
	for _, ip := range p.Imports {
		d, ok := c16Resolve(dirs, dir, ip)
		if !ok {
			parts = append(parts, "?"+ip)
			continue
		}
		parts = append(parts, c16Expect(dirs, d, inits, seen, depth+1))
	}
	if !seen[dir] {
		seen[dir] = true
		*inits = append(*inits, dir)
	}
	return dir + "[" + strings.Join(parts, ",") + "]"
}

// c16Hazards names the shapes for which yaegi's known resolution defects apply (see known findings):
// "relative-shadow": for an importer in D (or an ancestor A of D) the directory A/<path> exists, so the path
// is found relative to the importer before vendor/GOPATH are consulted; "nonpackage-dir": a directory that
// merely is a prefix of some package directory (it holds no Go files) sits where a candidate is looked up.
func c16Hazards(t *c16Tree) []string {
	dirs := t.byDir()
	isDir := func(x string) bool {
		for d := range dirs {
			if d == x || strings.HasPrefix(d, x+"/") {
				return true
			}
		}
		return false
	}
	hz := map[string]bool{}
	for _, p := range t.Pkgs {
		for _, ip := range p.Imports {
			want, _ := c16Resolve(dirs, p.Dir, ip)
			for a := p.Dir; a != "" && a != "."; a = path.Dir(a) {
				if x := path.Join(a, ip); isDir(x) && x != want {
					hz["relative-shadow"] = true
				}
				if x := path.Join(a, "vendor", ip); isDir(x) && dirs[x] == nil {
					hz["nonpackage-dir"] = true
				}
			}
			if isDir(ip) && dirs[ip] == nil {
				hz["nonpackage-dir"] = true
			}
			// the candidate yaegi derives from the importer's root and the path (interp/src.go effectivePkg,
			// replicated here only to name the defect shape, never as an oracle)
			for a := p.Dir; a != "" && a != "."; a = path.Dir(a) {
				if x := c16EffectivePkg(a, ip); x != want && isDir(x) {
					if dirs[x] == nil {
						hz["nonpackage-dir"] = true
					} else {
						hz["relative-shadow"] = true
					}
				}
			}
			// the importer's directory and the import path overlap: GOPATH/src/<path> is consulted (through
			// effectivePkg) before the vendor directories of the importer's ancestors
			if dirs[ip] != nil && want != ip && !strings.HasPrefix(want, p.Dir+"/vendor/") && strings.Split(ip, "/")[0] == strings.Split(p.Dir, "/")[0] {
				hz["relative-shadow"] = true
			}
		}
	}
	// an import path that denotes two different directories for two importers of the tree
	res := map[string]map[string]bool{}
	for _, p := range t.Pkgs {
		for _, ip := range p.Imports {
			if d, ok := c16Resolve(dirs, p.Dir, ip); ok {
				if res[ip] == nil {
					res[ip] = map[string]bool{}
				}
				res[ip][d] = true
			}
		}
	}
	if d, ok := c16Resolve(dirs, "", t.Top); ok {
		if res[t.Top] == nil {
			res[t.Top] = map[string]bool{}
		}
		res[t.Top][d] = true
	}
	for _, ds := range res {
		if len(ds) > 1 {
			hz["multi-resolution"] = true
		}
	}
	var out []string
	for _, k := range []string{"multi-resolution", "relative-shadow", "nonpackage-dir"} {
		if hz[k] {
			out = append(out, k)
		}
	}
	return out
}

func c16Ident(ip string) string {
	return "p_" + strings.NewReplacer("/", "_", ".", "_", "-", "_").Replace(ip)
}

func (t *c16Tree) files() map[string]string {
	fs := map[string]string{}
	fs["rec/rec.go"] = "package rec\n\nvar Log []string\n\nfunc Add(s string) { Log = append(Log, s) }\n"
	for _, p := range t.Pkgs {
		var b strings.Builder
		name := path.Base(p.Path)
		fmt.Fprintf(&b, "package %s\n\nimport (\n\t\"rec\"\n", name)
		for _, ip := range p.Imports {
			fmt.Fprintf(&b, "\t%s %q\n", c16Ident(ip), ip)
		}
		fmt.Fprintf(&b, ")\n\nfunc init() { rec.Add(%q) }\n\nfunc Deps() string {\n\ts := %q + \"[\"\n", p.Dir, p.Dir)
		for i, ip := range p.Imports {
			if i > 0 {
				b.WriteString("\ts += \",\"\n")
			}
			fmt.Fprintf(&b, "\ts += %s.Deps()\n", c16Ident(ip))
		}
		b.WriteString("\treturn s + \"]\"\n}\n")
		fs[p.Dir+"/"+name+".go"] = b.String()
	}
	return fs
}

// --- generator --------------------------------------------------------------------------------------

var c16Paths = []string{"a", "a/b", "a/b/c", "x", "x/y", "lib", "lib/util", "a/b/a/b", "vendored/v", "x/y/x", "m/n/o/p", "lib/a"}

func c16Gen(idx uint64) *c16Tree {
	rg := core.NewRng(idx).Sub("C16tree")
	t := &c16Tree{ID: fmt.Sprintf("t%d", idx)}
	dirs := map[string]*c16Pkg{}
	add := func(dir, ip string) *c16Pkg {
		if p, ok := dirs[dir]; ok {
			return p
		}
		t.Pkgs = append(t.Pkgs, c16Pkg{Dir: dir, Path: ip})
		p := &t.Pkgs[len(t.Pkgs)-1]
		dirs[dir] = p
		return p
	}
	// pick 4..8 import paths, place each at top level (mostly) and some also in vendor dirs
	n := 4 + rg.Intn(5)
	perm := append([]string{}, c16Paths...)
	core.Shuffle(rg, perm)
	paths := perm[:n]
	sort.Strings(paths)
	top := paths[rg.Intn(len(paths))]
	t.Top = top
	t.Pkgs = make([]c16Pkg, 0, 64)
	for _, ip := range paths {
		if ip == top || rg.Chance(3, 4) {
			add(ip, ip)
		}
	}
	multi := rg.Chance(1, 2) // the same import path present in several places
	if multi {
		t.Feat = append(t.Feat, "multi")
	}
	// vendor copies: under top-level packages (and under vendor copies themselves, depth 2)
	nv := 1 + rg.Intn(5)
	for v := 0; v < nv; v++ {
		var hosts []string
		for _, p := range t.Pkgs {
			if strings.Count(p.Dir, "/vendor/") < 2 {
				hosts = append(hosts, p.Dir)
			}
		}
		sort.Strings(hosts)
		host := hosts[rg.Intn(len(hosts))]
		// a vendor dir may sit at the host or at one of its ancestors
		vd := host
		for rg.Chance(1, 3) && strings.Contains(vd, "/") && !strings.HasSuffix(path.Dir(vd), "vendor") {
			vd = path.Dir(vd)
		}
		ip := paths[rg.Intn(len(paths))]
		if ip == top {
			continue
		}
		dir := path.Join(vd, "vendor", ip)
		if _, top := dirs[ip]; top && !multi {
			continue
		}
		if strings.Contains(dir, "vendor/"+ip+"/vendor/"+ip) {
			continue
		}
		add(dir, ip)
		t.Feat = append(t.Feat, "vendor")
	}
	// imports: acyclic by import-path order (an edge goes from a path to a later one in a fixed permutation)
	order := append([]string{}, paths...)
	core.Shuffle(rg, order)
	pos := map[string]int{}
	for i, p := range order {
		pos[p] = i
	}
	// top first
	pos[top] = -1
	dm := t.byDir()
	for i := range t.Pkgs {
		p := &t.Pkgs[i]
		k := rg.Intn(4)
		var cands []string
		for _, q := range paths {
			if pos[q] > pos[p.Path] {
				if _, ok := c16Resolve(dm, p.Dir, q); ok {
					cands = append(cands, q)
				}
			}
		}
		core.Shuffle(rg, cands)
		if k > len(cands) {
			k = len(cands)
		}
		p.Imports = append([]string{}, cands[:k]...)
		sort.Strings(p.Imports)
	}
	if len(dm[top].Imports) == 0 {
		for _, q := range paths {
			if q != top {
				if _, ok := c16Resolve(dm, top, q); ok {
					dm[top].Imports = []string{q}
					break
				}
			}
		}
	}
	// every fourth tree gets an import cycle of length 1..4 reachable from top
	if idx%4 == 3 {
		t.Cycle = true
		l := 1 + rg.Intn(4)
		names := []string{"cyc/c0", "cyc/c1", "cyc/c2", "cyc/c3"}[:l]
		for i, nme := range names {
			pk := add(nme, nme)
			pk.Imports = []string{names[(i+1)%l]}
		}
		dm = t.byDir()
		dm[top].Imports = append(dm[top].Imports, names[0])
		t.Feat = append(t.Feat, fmt.Sprintf("cycle%d", l))
	}
	return t
}

// c16GenNested builds trees of the second family: a project with vendored modules that have sub-packages and
// their own vendor directories; every import path has exactly one physical copy and no path element is
// shared between project, modules and dependencies, so none of the known-defect shapes applies.
func c16GenNested(idx uint64) *c16Tree {
	rg := core.NewRng(idx).Sub("C16nested")
	t := &c16Tree{ID: fmt.Sprintf("n%d", idx), Feat: []string{"nested"}}
	t.Pkgs = make([]c16Pkg, 0, 64)
	proj := core.Pick(rg, []string{"proj", "org/app", "org/team/app"})
	mods := []string{"moda", "ext/modb", "modc"}[:1+rg.Intn(3)]
	deps := []string{"dep1", "dp/two", "dthree/x/y", "dfour"}[:2+rg.Intn(3)]
	add := func(dir, ip string) { t.Pkgs = append(t.Pkgs, c16Pkg{Dir: dir, Path: ip}) }
	add(proj, proj)
	t.Top = proj
	projSub := proj + "/pkg"
	add(projSub, projSub)
	var importers []string
	importers = append(importers, proj, projSub)
	for _, m := range mods {
		mdir := proj + "/vendor/" + m
		add(mdir, m)
		importers = append(importers, mdir)
		if rg.Chance(2, 3) {
			add(mdir+"/sub", m+"/sub")
			importers = append(importers, mdir+"/sub")
			if rg.Chance(1, 2) {
				add(mdir+"/sub/deep", m+"/sub/deep")
				importers = append(importers, mdir+"/sub/deep")
			}
		}
	}
	// one location per dependency
	for _, d := range deps {
		var locs []string
		locs = append(locs, d, proj+"/vendor/"+d)
		for _, m := range mods {
			locs = append(locs, proj+"/vendor/"+m+"/vendor/"+d)
		}
		if len(strings.Split(proj, "/")) > 1 {
			locs = append(locs, path.Dir(proj)+"/vendor/"+d)
		}
		add(core.Pick(rg, locs), d)
	}
	dm := t.byDir()
	// imports: project -> its sub package, modules, sub-packages; everything -> visible dependencies
	for i := range t.Pkgs {
		p := &t.Pkgs[i]
		var cands []string
		switch {
		case p.Dir == proj:
			cands = append(cands, projSub)
			for _, m := range mods {
				cands = append(cands, m)
			}
		case strings.HasSuffix(p.Dir, "/sub"):
			if _, ok := dm[p.Dir+"/deep"]; ok {
				cands = append(cands, p.Path+"/deep")
			}
		default:
			if _, ok := dm[p.Dir+"/sub"]; ok && strings.Contains(p.Dir, "/vendor/") && !strings.Contains(p.Path, "/sub") {
				cands = append(cands, p.Path+"/sub")
			}
		}
		isDep := false
		for _, d := range deps {
			if p.Path == d {
				isDep = true
			}
		}
		if !isDep {
			for _, d := range deps {
				if _, ok := c16Resolve(dm, p.Dir, d); ok && rg.Chance(2, 3) {
					cands = append(cands, d)
				}
			}
		}
		var imps []string
		for _, c := range cands {
			if _, ok := c16Resolve(dm, p.Dir, c); ok {
				imps = append(imps, c)
			}
		}
		sort.Strings(imps)
		p.Imports = imps
	}
	return t
}

type c16Obs struct {
	Deps, Inits, Err string
	Panic            string
}

func c16Eval(t *c16Tree, disk string) (o c16Obs) {
	var out bytes.Buffer
	opt := interp.Options{Stdout: &out, Stderr: &out}
	files := t.files()
	if disk == "" {
		m := fstest.MapFS{}
		for k, v := range files {
			m["gp/src/"+k] = &fstest.MapFile{Data: []byte(v)}
		}
		opt.SourcecodeFilesystem = m
		opt.GoPath = "gp"
	} else {
		for k, v := range files {
			p := filepath.Join(disk, "src", filepath.FromSlash(k))
			os.MkdirAll(filepath.Dir(p), 0o755)
			os.WriteFile(p, []byte(v), 0o644)
		}
		opt.GoPath = disk
	}
	defer func() {
		if r := recover(); r != nil {
			o.Panic = fmt.Sprint(r)
		}
	}()
	i := interp.New(opt)
	i.Use(stdlib.Symbols)
	if _, err := i.Eval(fmt.Sprintf("import top %q\nimport \"rec\"", t.Top)); err != nil {
		o.Err = err.Error()
		return
	}
	v, err := i.Eval("top.Deps()")
	if err != nil {
		o.Err = err.Error()
		return
	}
	o.Deps = fmt.Sprint(v)
	v, err = i.Eval(`rec.Log`)
	if err != nil {
		o.Err = err.Error()
		return
	}
	o.Inits = strings.Join(v.Interface().([]string), " ")
	return
}

func init() {
	checks["C16"] = checkC16
	core.ChildModes["c16"] = func(c *core.Case) *core.Result {
		var t c16Tree
		json.Unmarshal([]byte(c.Params["tree"]), &t)
		mem := c16Eval(&t, "")
		dir, _ := os.MkdirTemp(c.Params["work"], "c16-")
		dsk := c16Eval(&t, dir)
		os.RemoveAll(dir)
		b, _ := json.Marshal(map[string]c16Obs{"mapfs": mem, "disk": dsk})
		return &core.Result{Data: map[string]string{"obs": string(b)}}
	}
}

func checkC16(r *core.Run) {
	r.Rule = "cell = one generated tree (GOPATH/src packages at depth 1..4, vendor directories at several levels, optionally the same import path in several places, diamonds; every fourth tree has an import cycle of length 1..4); each package reports its own directory and its dependencies' reports, and logs its init; verdict = report and init log equal the model's (nearest enclosing vendor, else GOPATH/src; each physical package initialised once, dependencies first), identical on disk and on fstest.MapFS; a cyclic tree must yield an error (a crashed or hung child is the refuting event). non-trivial = the tree has at least one vendor directory or a cycle"
	r.Assume = []string{"no vendor directory directly under GOPATH/src", "relative imports are exercised separately (C16/relative cells)"}
	const universe = 30000
	n := 500
	if r.Thorough() {
		n = universe
	}
	start := (r.Seed * 104729) % universe
	var cases []core.Case
	trees := map[string]*c16Tree{}
	os.MkdirAll(r.Work, 0o755)
	for k := 0; k < n; k++ {
		idx := (start + uint64(k)) % universe
		t := c16Gen(idx)
		if k%2 == 1 {
			t = c16GenNested(idx)
		}
		b, _ := json.Marshal(t)
		id := "C16/tree/" + t.ID
		trees[id] = t
		cases = append(cases, core.Case{ID: id, Mode: "c16", TimeoutMs: 60000, Params: map[string]string{"tree": string(b), "work": r.Work}})
	}
	pool := newPool(r)
	results := pool.RunCases(cases)
	vend, cyc, multi, hazard := 0, 0, 0, 0
	for ci, res := range results {
		id := cases[ci].ID
		t := trees[id]
		feat := strings.Join(dedup(t.Feat), "+")
		if feat == "" {
			feat = "plain"
		}
		cell := "C16/" + feat + "/" + t.ID
		if hz := c16Hazards(t); len(hz) > 0 && !t.Cycle {
			cell = "C16/hazard/" + hz[0] + "/" + feat + "/" + t.ID
			hazard++
		}
		w := map[string]any{"tree": t, "files": t.files()}
		if res.Crash || res.Timeout || res.HostPanic != "" {
			w["diff"] = "the evaluating process crashed or hung (" + res.Ending() + "): " + firstLines2(res.CrashMsg+res.HostPanic, 5)
			r.Fail(cell, w)
			continue
		}
		var obs map[string]c16Obs
		json.Unmarshal([]byte(res.Data["obs"]), &obs)
		dm := t.byDir()
		var bad []string
		if t.Cycle {
			cyc++
			for _, k := range []string{"mapfs", "disk"} {
				o := obs[k]
				if o.Panic != "" {
					bad = append(bad, k+": host panic "+o.Panic)
				} else if o.Err == "" {
					bad = append(bad, k+": import cycle not reported, Deps="+o.Deps)
				}
			}
		} else {
			var inits []string
			want := c16Expect(dm, t.Top, &inits, map[string]bool{}, 0)
			wantInits := strings.Join(inits, " ")
			for _, k := range []string{"mapfs", "disk"} {
				o := obs[k]
				switch {
				case o.Panic != "":
					bad = append(bad, k+": host panic "+o.Panic)
				case o.Err != "":
					bad = append(bad, k+": error "+o.Err)
				case o.Deps != want:
					bad = append(bad, fmt.Sprintf("%s: resolution %s, model %s", k, o.Deps, want))
				case o.Inits != wantInits:
					bad = append(bad, fmt.Sprintf("%s: init log %q, model %q", k, o.Inits, wantInits))
				}
			}
			if obs["mapfs"] != obs["disk"] {
				bad = append(bad, "disk and MapFS disagree")
			}
		}
		if strings.Contains(feat, "vendor") {
			vend++
		}
		if strings.Contains(feat, "multi") {
			multi++
		}
		if len(bad) > 0 {
			w["diff"] = strings.Join(bad, "\n")
			w["observed"] = obs
			r.Fail(cell, w)
			continue
		}
		r.Ok(cell)
		if ci%61 == 0 {
			r.Sample(map[string]any{"cell": cell, "top": t.Top, "packages": len(t.Pkgs), "observed": obs["mapfs"].Deps})
		}
	}
	r.Extra["trees"] = n
	r.Extra["trees_with_vendor"] = vend
	r.Extra["trees_with_cycle"] = cyc
	r.Extra["trees_with_same_path_in_several_places"] = multi
	r.Extra["universe"] = universe
	r.Extra["trees_in_known_defect_shapes"] = hazard
	r.Extra["window_start"] = start
}

func dedup(a []string) []string {
	seen := map[string]bool{}
	var out []string
	for _, x := range a {
		if !seen[x] {
			seen[x] = true
			out = append(out, x)
		}
	}
	sort.Strings(out)
	return out
}

func c16EffectivePkg(root, p string) string {
	splitRoot := strings.Split(root, "/")
	splitPath := strings.Split(p, "/")
	var result []string
	rootIndex, prevRootIndex := 0, 0
	for i := 0; i < len(splitPath); i++ {
		part := splitPath[len(splitPath)-1-i]
		index := len(splitRoot) - 1 - rootIndex
		if index > 0 && part == splitRoot[index] && i != 0 {
			prevRootIndex = rootIndex
			rootIndex++
		} else if prevRootIndex == rootIndex {
			result = append(result, part)
		}
	}
	frag := ""
	for i := len(result) - 1; i >= 0; i-- {
		frag = path.Join(frag, result[i])
	}
	return path.Join(root, frag)
}
