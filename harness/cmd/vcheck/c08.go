package main

import (
	"bytes"
	"encoding/json"
	"fmt"
	"os"
	"path/filepath"
	"reflect"
	"runtime"
	"sort"
	"strings"
	"sync"
	"sync/atomic"
	"time"

	"verifharness/core"

	"github.com/anishathalye/porcupine"
	"github.com/traefik/yaegi/interp"
	"github.com/traefik/yaegi/stdlib"
)

// C08: concurrent execution is correct and free of interpreter-induced races.
// Children are built with -race (GORACE halt_on_error=0, log to a file): every cell runs a script that is
// data-race-free by construction (all sharing through channels, sync.WaitGroup, sync.Mutex), so any report is the
// interpreter's. Outputs are schedule-independent and compared with the gc binary of the same source. The step
// hook yields (runtime.Gosched) with a seeded probability at every interpreted operation to put several goroutines
// inside the same statement.

type c08Tpl struct {
	name string
	gen  func(w, n int) string
}

const c08Head = "package main\n\nimport (\n\t\"fmt\"\n\t\"sync\"\n)\n\nvar _ sync.Mutex\n\n"

var c08Templates = []c08Tpl{
	{"pipeline", func(w, n int) string {
		return c08Head + fmt.Sprintf(`func stage(k int, in <-chan int, out chan<- int) {
	for v := range in {
		out <- v*k + 1
	}
	close(out)
}

func main() {
	src := make(chan int)
	var in <-chan int = src
	for k := 1; k <= %d; k++ {
		out := make(chan int)
		go stage(k, in, out)
		in = out
	}
	go func() {
		for i := 0; i < %d; i++ {
			src <- i
		}
		close(src)
	}()
	sum, cnt := 0, 0
	for v := range in {
		sum += v %% 1000003
		cnt++
	}
	fmt.Println("pipeline", sum, cnt)
}
`, w, n)
	}},
	{"fan-out-fan-in", func(w, n int) string {
		return c08Head + fmt.Sprintf(`func worker(id int, jobs <-chan int, results chan<- int, wg *sync.WaitGroup) {
	defer wg.Done()
	for j := range jobs {
		acc := 0
		for k := 0; k < j%%7+1; k++ {
			acc += j * k
		}
		results <- acc + j
	}
}

func main() {
	jobs := make(chan int, 4)
	results := make(chan int, 4)
	var wg sync.WaitGroup
	for i := 0; i < %d; i++ {
		wg.Add(1)
		go worker(i, jobs, results, &wg)
	}
	go func() {
		for i := 0; i < %d; i++ {
			jobs <- i
		}
		close(jobs)
	}()
	go func() {
		wg.Wait()
		close(results)
	}()
	sum, cnt := 0, 0
	for r := range results {
		sum += r
		cnt++
	}
	fmt.Println("pool", sum, cnt)
}
`, w, n)
	}},
	{"private-channels-same-select", func(w, n int) string {
		return c08Head + fmt.Sprintf(`func worker(id int, in chan int, tick chan int, done chan [2]int) {
	acc, ticks := 0, 0
	for {
		select {
		case v, ok := <-in:
			if !ok {
				done <- [2]int{id, acc}
				return
			}
			acc += v
		case t := <-tick:
			ticks += t
		}
	}
}

func main() {
	const W = %d
	const N = %d
	ins := make([]chan int, W)
	ticks := make([]chan int, W)
	done := make(chan [2]int, W)
	for i := 0; i < W; i++ {
		ins[i] = make(chan int)
		ticks[i] = make(chan int)
		go worker(i, ins[i], ticks[i], done)
	}
	var wg sync.WaitGroup
	for i := 0; i < W; i++ {
		wg.Add(1)
		go func(i int) {
			defer wg.Done()
			for k := 0; k < N; k++ {
				ins[i] <- (i+1)*1000 + k
			}
			close(ins[i])
		}(i)
	}
	wg.Wait()
	res := make([]int, W)
	for i := 0; i < W; i++ {
		r := <-done
		res[r[0]] = r[1]
	}
	fmt.Println("private", res)
}
`, w, n)
	}},
	{"mutex-counter", func(w, n int) string {
		return c08Head + fmt.Sprintf(`type Counter struct {
	mu sync.Mutex
	n  int
	m  map[int]int
}

func (c *Counter) Inc(k int) {
	c.mu.Lock()
	c.n++
	c.m[k%%5]++
	c.mu.Unlock()
}

func main() {
	c := &Counter{m: map[int]int{}}
	var wg sync.WaitGroup
	for i := 0; i < %d; i++ {
		wg.Add(1)
		go func(id int) {
			defer wg.Done()
			for k := 0; k < %d; k++ {
				c.Inc(id + k)
			}
		}(i)
	}
	wg.Wait()
	fmt.Println("counter", c.n, c.m[0]+c.m[1]+c.m[2]+c.m[3]+c.m[4])
}
`, w, n)
	}},
	{"producer-consumer-close-range", func(w, n int) string {
		return c08Head + fmt.Sprintf(`func consume(id int, ch <-chan int, out []int, wg *sync.WaitGroup) {
	defer wg.Done()
	s := 0
	for v := range ch {
		s += v
	}
	out[id] = s
}

func main() {
	const W = %d
	chs := make([]chan int, W)
	out := make([]int, W)
	var wg sync.WaitGroup
	for i := range chs {
		chs[i] = make(chan int, i%%3)
		wg.Add(1)
		go consume(i, chs[i], out, &wg)
	}
	var pw sync.WaitGroup
	for i := range chs {
		pw.Add(1)
		go func(i int, ch chan<- int) {
			defer pw.Done()
			for k := 1; k <= %d; k++ {
				ch <- k * (i + 1)
			}
			close(ch)
		}(i, chs[i])
	}
	pw.Wait()
	wg.Wait()
	fmt.Println("consumers", out)
}
`, w, n)
	}},
	{"go-arguments-fixed-at-go-statement", func(w, n int) string {
		return c08Head + fmt.Sprintf(`type T struct{ id int }

func (t T) run(ch chan int, v int, wg *sync.WaitGroup) {
	defer wg.Done()
	ch <- t.id*100 + v
}

func main() {
	const W = %d
	chs := make([]chan int, W+1)
	for i := range chs {
		chs[i] = make(chan int, 4*%d+4)
	}
	var wg sync.WaitGroup
	for r := 0; r < %d; r++ {
		for i := 0; i < W; i++ {
			ch := chs[i]
			v := r
			p := &v
			m := map[string]int{"r": r}
			s := []int{r}
			t := T{i}
			wg.Add(4)
			go func(c chan int, q *int, mm map[string]int, ss []int) {
				defer wg.Done()
				c <- *q + mm["r"] + ss[0]
			}(ch, p, m, s)
			go t.run(ch, v, &wg)
			go func(f func() int, c chan int) { defer wg.Done(); c <- f() }(func() int { return r }, ch)
			f2 := func(c chan int) { defer wg.Done(); c <- 1 }
			go f2(ch)
			// the spawning goroutine moves on: the started goroutines must not see these assignments
			ch = chs[W]
			nv := -1000
			p = &nv
			m = map[string]int{"r": -1000}
			s = []int{-1000}
			t = T{-1}
			f2 = func(c chan int) { defer wg.Done(); c <- -1000 }
			wg.Add(1)
			go func() { defer wg.Done() }()
			_, _, _, _, _ = p, m, s, t, f2
		}
	}
	wg.Wait()
	sums := make([]int, W+1)
	for i := range chs {
		close(chs[i])
		for v := range chs[i] {
			sums[i] += v
		}
	}
	fmt.Println("goargs", sums)
}
`, w, n, n)
	}},
	{"range-over-private-channels", func(w, n int) string {
		return c08Head + fmt.Sprintf(`func drain(id int, ch chan int, res []int, wg *sync.WaitGroup) {
	defer wg.Done()
	for v := range ch {
		res[id] += v
	}
}

func main() {
	const W = %d
	res := make([]int, W)
	chs := make([]chan int, W)
	var wg sync.WaitGroup
	for i := range chs {
		chs[i] = make(chan int)
		wg.Add(1)
		go drain(i, chs[i], res, &wg)
	}
	var pw sync.WaitGroup
	for i := range chs {
		pw.Add(1)
		go func(i int) {
			defer pw.Done()
			for k := 0; k < %d; k++ {
				chs[i] <- (i+1)*10000 + k
			}
			close(chs[i])
		}(i)
	}
	pw.Wait()
	wg.Wait()
	fmt.Println("drained", res)
}
`, w, n)
	}},
	{"select-send-recv-mix", func(w, n int) string {
		return c08Head + fmt.Sprintf(`func node(id int, in, out chan int, quit chan struct{}, wg *sync.WaitGroup) {
	defer wg.Done()
	pending, has := 0, false
	for {
		var o chan int
		if has {
			o = out
		}
		var i chan int
		if !has {
			i = in
		}
		select {
		case v := <-i:
			pending, has = v+id, true
		case o <- pending:
			has = false
		case <-quit:
			return
		}
	}
}

func main() {
	const W = %d
	quit := make(chan struct{})
	first := make(chan int)
	var in chan int = first
	var wg sync.WaitGroup
	for k := 0; k < W; k++ {
		out := make(chan int)
		wg.Add(1)
		go node(k, in, out, quit, &wg)
		in = out
	}
	go func() {
		for i := 0; i < %d; i++ {
			first <- i
		}
	}()
	sum := 0
	for i := 0; i < %d; i++ {
		sum += <-in
	}
	close(quit)
	wg.Wait()
	fmt.Println("ring", sum)
}
`, w, n, n)
	}},
	{"atomic-counters", func(w, n int) string {
		return "package main\n\nimport (\n\t\"fmt\"\n\t\"sync\"\n\t\"sync/atomic\"\n)\n\n" + fmt.Sprintf(`func main() {
	var total int64
	var max int64
	var wg sync.WaitGroup
	for i := 0; i < %d; i++ {
		wg.Add(1)
		go func(id int64) {
			defer wg.Done()
			for k := int64(0); k < %d; k++ {
				v := atomic.AddInt64(&total, id+k)
				_ = v
				for {
					m := atomic.LoadInt64(&max)
					if id*1000+k <= m || atomic.CompareAndSwapInt64(&max, m, id*1000+k) {
						break
					}
				}
			}
		}(int64(i))
	}
	wg.Wait()
	fmt.Println("atomic", atomic.LoadInt64(&total), atomic.LoadInt64(&max))
}
`, w, n)
	}},
	{"rwmutex-readers-writers", func(w, n int) string {
		return c08Head + fmt.Sprintf(`type Store struct {
	mu sync.RWMutex
	m  map[int]int
}

func (s *Store) Get(k int) (int, bool) {
	s.mu.RLock()
	defer s.mu.RUnlock()
	v, ok := s.m[k]
	return v, ok
}

func (s *Store) Add(k, d int) {
	s.mu.Lock()
	s.m[k] += d
	s.mu.Unlock()
}

func main() {
	st := &Store{m: map[int]int{}}
	var wg sync.WaitGroup
	reads := make([]int, %d)
	for i := 0; i < %d; i++ {
		wg.Add(1)
		go func(id int) {
			defer wg.Done()
			for k := 0; k < %d; k++ {
				if id%%2 == 0 {
					st.Add(k%%5, id+1)
				} else if _, ok := st.Get(k %% 5); ok || !ok {
					reads[id]++
				}
			}
		}(i)
	}
	wg.Wait()
	sum, nr := 0, 0
	for k := 0; k < 5; k++ {
		v, _ := st.Get(k)
		sum += v * (k + 1)
	}
	for _, r := range reads {
		nr += r
	}
	fmt.Println("rw", sum, nr)
}
`, w, w, n)
	}},
	{"once-semaphore-and-recovered-panics", func(w, n int) string {
		return c08Head + fmt.Sprintf(`var once sync.Once
var table []int

func setup() {
	for i := 0; i < 8; i++ {
		table = append(table, i*i)
	}
}

func work(id, k int) (res int, err error) {
	defer func() {
		if r := recover(); r != nil {
			err = fmt.Errorf("worker %%d: %%v", id, r)
		}
	}()
	once.Do(setup)
	if (id+k)%%7 == 0 {
		var m map[string]int
		m["x"] = 1
	}
	if (id+k)%%11 == 0 {
		panic(fmt.Sprint("boom ", id+k))
	}
	return table[(id+k)%%8], nil
}

func main() {
	sem := make(chan struct{}, 3)
	var mu sync.Mutex
	var wg sync.WaitGroup
	sum, nerr, inflight, maxInflight := 0, 0, 0, 0
	for i := 0; i < %d; i++ {
		for k := 0; k < %d; k++ {
			wg.Add(1)
			sem <- struct{}{}
			go func(id, k int) {
				defer wg.Done()
				defer func() { <-sem }()
				mu.Lock()
				inflight++
				if inflight > maxInflight {
					maxInflight = inflight
				}
				mu.Unlock()
				r, err := work(id, k)
				mu.Lock()
				inflight--
				if err != nil {
					nerr++
				} else {
					sum += r
				}
				mu.Unlock()
			}(i, k)
		}
	}
	wg.Wait()
	fmt.Println("once", sum, nerr, maxInflight <= 3, len(table))
}
`, w, n/4+1)
	}},
	{"goroutine-tree-with-result-channels", func(w, n int) string {
		return c08Head + fmt.Sprintf(`type Node struct {
	val         int
	left, right *Node
}

func build(d, v int) *Node {
	if d == 0 {
		return nil
	}
	return &Node{v, build(d-1, 2*v), build(d-1, 2*v+1)}
}

func sum(n *Node, out chan<- int) {
	if n == nil {
		out <- 0
		return
	}
	l, r := make(chan int), make(chan int)
	go sum(n.left, l)
	go func() { sum(n.right, r) }()
	out <- n.val + <-l + <-r
}

func main() {
	res := make(chan int)
	total := 0
	for i := 0; i < %d; i++ {
		go sum(build(%d%%4+3, i+1), res)
	}
	for i := 0; i < %d; i++ {
		total += <-res
	}
	fmt.Println("tree", total)
}
`, w%9+2, n, w%9+2)
	}},
	{"private-state-statement-mix", func(w, n int) string {
		// every worker runs the same statements on its own data only: any state the interpreter keeps per
		// statement instead of per execution is shared between them
		return c08Head + fmt.Sprintf(`type rec struct {
	id   int
	tags []string
	m    map[string]int
}

type shaper interface{ area() int }
type sq struct{ s int }
type rc struct{ a, b int }

func (q sq) area() int { return q.s * q.s }
func (r rc) area() int { return r.a * r.b }

func work(id, n int) int {
	buf := []int{}
	names := []string{}
	m := map[int]string{}
	arr := [4]int{}
	sum := 0
	for k := 0; k < n; k++ {
		buf = append(buf, id, k, id+k)
		buf = append(buf, []int{k, k}...)
		names = append(names, fmt.Sprint(id), "x")
		m[k%%5] = fmt.Sprint(id, "-", k)
		arr[k%%4], arr[(k+1)%%4] = id, k
		r := rec{id: id, tags: []string{"a", fmt.Sprint(k)}, m: map[string]int{"k": k}}
		var sh shaper = sq{k}
		if k%%2 == 0 {
			sh = rc{id, k}
		}
		switch v := sh.(type) {
		case sq:
			sum += v.s
		case rc:
			sum += v.a + v.b
		}
		f := func(d int) int { return d + r.id + len(r.tags) + r.m["k"] }
		sum += f(k) + sh.area() + copy(buf[1:], buf[:2]) + len(names[len(names)-1]) + len(m) + arr[k%%4]
		s := fmt.Sprint(id) + "/" + names[0] + "/" + m[k%%5]
		if s[0] != fmt.Sprint(id)[0] || buf[0] != id || names[0] != fmt.Sprint(id) {
			return -1
		}
		for i, v := range buf[len(buf)-3:] {
			sum += i * v %% 7
		}
		func() {
			defer func() { sum += len(buf) %% 3 }()
			sum, arr[0] = sum+1, arr[0]+0
		}()
	}
	for _, v := range buf {
		if v != id && v >= n+id {
			return -2
		}
	}
	return sum %% 100003
}

func main() {
	const W = %d
	res := make([]int, W)
	var wg sync.WaitGroup
	for i := 0; i < W; i++ {
		wg.Add(1)
		go func(id int) {
			defer wg.Done()
			res[id] = work(id+1, %d)
		}(i)
	}
	wg.Wait()
	fmt.Println("mix", res)
}
`, w, n)
	}},
	{"closures-sharing-a-mutex-protected-variable", func(w, n int) string {
		return c08Head + fmt.Sprintf(`func main() {
	var mu sync.Mutex
	total := 0
	hist := map[int]int{}
	add := func(k int) {
		mu.Lock()
		defer mu.Unlock()
		total += k
		hist[k%%3]++
	}
	var wg sync.WaitGroup
	for i := 0; i < %d; i++ {
		wg.Add(1)
		go func(id int) {
			defer wg.Done()
			local := []int{}
			for k := 0; k < %d; k++ {
				local = append(local, k*id)
				add(k)
			}
			s := 0
			for _, v := range local {
				s += v
			}
			add(s %% 7)
		}(i)
	}
	wg.Wait()
	mu.Lock()
	fmt.Println("closures", total, hist[0]+hist[1]+hist[2])
	mu.Unlock()
}
`, w, n)
	}},
}

// ---- child side ----

var c08Counter atomic.Uint64

func c08Yielder(den uint64, seed uint64) func(interp.VerifStep) {
	if den == 0 {
		return nil
	}
	return func(interp.VerifStep) {
		k := c08Counter.Add(1)
		if core.Hash64(fmt.Sprint(seed, k))%den == 0 {
			runtime.Gosched()
		}
	}
}

func c08FastYielder(den uint64, seed uint64) func(interp.VerifStep) {
	if den == 0 {
		return nil
	}
	return func(interp.VerifStep) {
		k := c08Counter.Add(1)
		x := (k + seed) * 0x9E3779B97F4A7C15
		x ^= x >> 29
		if x%den == 0 {
			runtime.Gosched()
		}
	}
}

func c08RaceLog() string {
	for _, kv := range strings.Fields(os.Getenv("GORACE")) {
		if strings.HasPrefix(kv, "log_path=") {
			return fmt.Sprintf("%s.%d", strings.TrimPrefix(kv, "log_path="), os.Getpid())
		}
	}
	return ""
}

func c08RaceDelta(before int64) string {
	p := c08RaceLog()
	if p == "" {
		return ""
	}
	b, err := os.ReadFile(p)
	if err != nil || int64(len(b)) <= before {
		return ""
	}
	return string(b[before:])
}

func c08RaceSize() int64 {
	if st, err := os.Stat(c08RaceLog()); err == nil {
		return st.Size()
	}
	return 0
}

func c08RunScript(src string, timeout time.Duration) (out string, errText string) {
	var buf bytes.Buffer
	var mu sync.Mutex
	w := &lockedWriter{mu: &mu, b: &buf}
	i := interp.New(interp.Options{Stdout: w, Stderr: w})
	i.Use(stdlib.Symbols)
	done := make(chan struct{})
	go func() {
		defer close(done)
		defer func() {
			if r := recover(); r != nil {
				errText = fmt.Sprintf("Go panic: %v", r)
			}
		}()
		if _, err := i.Eval(src); err != nil {
			errText = firstLines2(err.Error(), 3)
		}
	}()
	select {
	case <-done:
	case <-time.After(timeout):
		mu.Lock()
		out = buf.String()
		mu.Unlock()
		return out, "WATCHDOG"
	}
	mu.Lock()
	defer mu.Unlock()
	return buf.String(), errText
}

type lockedWriter struct {
	mu *sync.Mutex
	b  *bytes.Buffer
}

func (l *lockedWriter) Write(p []byte) (int, error) {
	l.mu.Lock()
	defer l.mu.Unlock()
	return l.b.Write(p)
}

const c08WorkSrc = `package main

import "sort"

type Acc struct {
	sum  int
	seen map[int]bool
}

func (a *Acc) add(v int) { a.sum += v; a.seen[v] = true }

func Work(n int) (r int) {
	defer func() { r += 1 }()
	a := &Acc{seen: map[int]bool{}}
	xs := []int{}
	for i := 0; i < n%17+3; i++ {
		xs = append(xs, (i*7+n)%13)
	}
	sort.Slice(xs, func(i, j int) bool { return xs[i] < xs[j] })
	f := func(k int) int { return k*2 + n }
	for _, x := range xs {
		a.add(f(x))
	}
	ch := make(chan int, 1)
	select {
	case ch <- n:
	default:
	}
	select {
	case v := <-ch:
		a.sum += v
	default:
	}
	if n > 0 && n%5 == 0 {
		return a.sum + Work(n-1)
	}
	return a.sum + len(a.seen)
}
`

// c08WorkModel is the native twin of Work.
func c08WorkModel(n int) (r int) {
	defer func() { r++ }()
	sum := 0
	seen := map[int]bool{}
	xs := []int{}
	for i := 0; i < n%17+3; i++ {
		xs = append(xs, (i*7+n)%13)
	}
	sort.Ints(xs)
	for _, x := range xs {
		v := x*2 + n
		sum += v
		seen[v] = true
	}
	sum += n
	if n > 0 && n%5 == 0 {
		return sum + c08WorkModel(n-1)
	}
	return sum + len(seen)
}

const c08KVSrc = `package main

import "sync"

var mu sync.Mutex
var m = map[string]int{}

func Put(k string, v int) {
	mu.Lock()
	m[k] = v
	mu.Unlock()
}

func Get(k string) int {
	mu.Lock()
	defer mu.Unlock()
	return m[k]
}

func CAS(k string, old, nv int) bool {
	mu.Lock()
	defer mu.Unlock()
	if m[k] != old {
		return false
	}
	m[k] = nv
	return true
}
`

type c08Op struct {
	Kind    int // 0 put 1 get 2 cas
	Key     string
	A, B    int
	OutInt  int
	OutBool bool
}

func c08Linearizable(g, per int, seed uint64) (nops int, verdict string) {
	i := interp.New(interp.Options{})
	i.Use(stdlib.Symbols)
	if _, err := i.Eval(c08KVSrc); err != nil {
		return 0, "script rejected: " + err.Error()
	}
	get := func(name string) reflect.Value { v, _ := i.Eval(name); return v }
	put, ok1 := get("Put").Interface().(func(string, int))
	gt, ok2 := get("Get").Interface().(func(string) int)
	cas, ok3 := get("CAS").Interface().(func(string, int, int) bool)
	if !ok1 || !ok2 || !ok3 {
		return 0, "exported functions do not have their declared types"
	}
	var mu sync.Mutex
	var ops []porcupine.Operation
	t0 := time.Now()
	var wg sync.WaitGroup
	for c := 0; c < g; c++ {
		wg.Add(1)
		go func(c int) {
			defer wg.Done()
			rg := core.NewRng(seed).Sub(fmt.Sprint("client", c))
			for k := 0; k < per; k++ {
				op := c08Op{Kind: rg.Intn(3), Key: fmt.Sprint("k", rg.Intn(2))}
				call := time.Since(t0).Nanoseconds()
				switch op.Kind {
				case 0:
					op.A = c*1000 + k + 1 // unique written values
					put(op.Key, op.A)
				case 1:
					op.OutInt = gt(op.Key)
				default:
					op.A, op.B = rg.Intn(3)*0+gt(op.Key), c*1000+500+k
					op.OutBool = cas(op.Key, op.A, op.B)
				}
				ret := time.Since(t0).Nanoseconds()
				mu.Lock()
				ops = append(ops, porcupine.Operation{ClientId: c, Input: op, Call: call, Output: op, Return: ret})
				mu.Unlock()
			}
		}(c)
	}
	wg.Wait()
	model := porcupine.Model{
		Partition: func(history []porcupine.Operation) [][]porcupine.Operation {
			by := map[string][]porcupine.Operation{}
			for _, o := range history {
				by[o.Input.(c08Op).Key] = append(by[o.Input.(c08Op).Key], o)
			}
			var out [][]porcupine.Operation
			for _, v := range by {
				out = append(out, v)
			}
			return out
		},
		Init: func() interface{} { return 0 },
		Step: func(state, input, output interface{}) (bool, interface{}) {
			in, out, st := input.(c08Op), output.(c08Op), state.(int)
			switch in.Kind {
			case 0:
				return true, in.A
			case 1:
				return out.OutInt == st, st
			default:
				if out.OutBool {
					return st == in.A, in.B
				}
				return st != in.A, st
			}
		},
	}
	switch porcupine.CheckOperationsTimeout(model, ops, 60*time.Second) {
	case porcupine.Ok:
		return len(ops), "ok"
	case porcupine.Illegal:
		b, _ := json.Marshal(ops[:min(len(ops), 60)])
		return len(ops), "history is not linearizable: " + string(b)
	}
	return len(ops), "inconclusive: checker timeout"
}

func init() {
	checks["C08"] = checkC08
	core.BatchModes["c08"] = func(it *core.BatchItem) map[string]string {
		var procs, w, n int
		var den, seed uint64
		fmt.Sscan(it.Data["procs"], &procs)
		fmt.Sscan(it.Data["w"], &w)
		fmt.Sscan(it.Data["n"], &n)
		fmt.Sscan(it.Data["yield"], &den)
		fmt.Sscan(it.Data["seed"], &seed)
		runtime.GOMAXPROCS(procs)
		before := c08RaceSize()
		c08Counter.Store(0)
		if y := c08FastYielder(den, seed); y != nil {
			interp.VerifSetStep(y, false)
			defer interp.VerifSetStep(nil, false)
			// a goroutine launched on a function value is also delayed at its start (before the run-id
			// test and before the call), so that its parent runs on first
			interp.VerifSetGoStart(func(_ *interp.Interpreter, stage int) {
				if stage == 2 {
					return
				}
				k := c08Counter.Add(1)
				x := (k + seed) * 0x9E3779B97F4A7C15
				x ^= x >> 29
				for j := uint64(0); j < x%4; j++ {
					runtime.Gosched()
				}
			})
			defer interp.VerifSetGoStart(nil)
		}
		res := map[string]string{}
		switch it.Data["kind"] {
		case "template":
			out, errText := c08RunScript(it.Data["src"], 120*time.Second)
			res["out"], res["err"] = out, errText
		case "hostcalls":
			i := interp.New(interp.Options{})
			i.Use(stdlib.Symbols)
			if _, err := i.Eval(c08WorkSrc); err != nil {
				res["err"] = err.Error()
				break
			}
			v, _ := i.Eval("Work")
			work, ok := v.Interface().(func(int) int)
			if !ok {
				res["err"] = "Work does not have type func(int) int"
				break
			}
			var wg sync.WaitGroup
			var bad atomic.Int64
			var first atomic.Value
			for g := 0; g < w; g++ {
				wg.Add(1)
				go func(g int) {
					defer wg.Done()
					defer func() {
						if r := recover(); r != nil {
							bad.Add(1)
							first.CompareAndSwap(nil, fmt.Sprintf("panic in goroutine %d: %v", g, r))
						}
					}()
					for k := 0; k < n; k++ {
						arg := (g*7 + k) % 64
						if got, want := work(arg), c08WorkModel(arg); got != want {
							bad.Add(1)
							first.CompareAndSwap(nil, fmt.Sprintf("Work(%d) = %d in goroutine %d, want %d", arg, got, g, want))
						}
					}
				}(g)
			}
			wg.Wait()
			res["calls"] = fmt.Sprint(w * n)
			if bad.Load() > 0 {
				res["err"] = fmt.Sprintf("%d wrong results, first: %v", bad.Load(), first.Load())
			}
		case "linear":
			nops, verdict := c08Linearizable(w, n, seed)
			res["calls"] = fmt.Sprint(nops)
			if verdict != "ok" {
				res["err"] = verdict
			}
		case "parallel":
			// w interpreters, each running its own generated program, in parallel; sequential outputs first
			type job struct{ src, seq, par, err string }
			jobs := make([]*job, w)
			for k := range jobs {
				p := c01Program(uint64(n*97+k*13) % 4000)
				jobs[k] = &job{src: p}
				jobs[k].seq, _ = c08RunScript(p, 60*time.Second)
			}
			var wg sync.WaitGroup
			for _, j := range jobs {
				wg.Add(1)
				go func(j *job) {
					defer wg.Done()
					j.par, j.err = c08RunScript(j.src, 120*time.Second)
				}(j)
			}
			wg.Wait()
			for k, j := range jobs {
				if j.par != j.seq {
					res["err"] = fmt.Sprintf("interpreter %d printed something else in parallel than alone: %s", k, firstDiffText(j.seq, j.par))
					res["src"] = j.src
				}
			}
			res["calls"] = fmt.Sprint(w)
		}
		res["steps"] = fmt.Sprint(c08Counter.Load())
		res["race"] = c08RaceDelta(before)
		return res
	}
}

// c01Program renders one program of the C01 universe as plain source.
func c01Program(idx uint64) string {
	cp := genProgram(idx, c01CellsPerProgram)
	return cp.Render(nil)
}

func checkC08(r *core.Run) {
	r.Rule = "cell = (workload, goroutine count, GOMAXPROCS, yield pattern, repetition), run in a child built with the race detector (GORACE halt_on_error=0, reports read from the log after each cell). Workloads: fourteen schedule-independent script templates (workers running the same broad statement mix (multi-value append, copy, map and array updates, composite literals, type switches, closures, defers, string building) on private data only, pipeline, fan-out/fan-in pool, per-worker private channels in the same select statement, mutex-protected counter and map, producer/consumer with close and range, go statements whose arguments are reassigned right after, range over per-worker channels, ring of select nodes mixing send / receive / quit, closures sharing mutex-protected variables, sync/atomic counters with compare-and-swap loops, RWMutex readers and writers, sync.Once with a buffered-channel semaphore and panics recovered inside goroutines, a recursive goroutine tree with per-node result channels), compared with the gc binary of the same source; N host goroutines calling the same exported recursive function (locals, closures, defer, sort callback, select) with distinct arguments, compared with a native twin; Put/Get/CAS on a script-side mutex-protected map called from host goroutines, history checked for linearizability (porcupine, partitioned by key); N interpreters running different generated programs in parallel, each compared with its own sequential output. The step hook yields with probability 0, 1/64 or 1/4 per interpreted operation; when it does, the goroutine-start hook also yields 0-3 times before a goroutine launched on a function value makes its call. Verdict: no race report, expected output, no error. non-trivial = the cell executed interpreted operations in more than one goroutine"
	r.Assume = []string{"the scripts are data-race-free by construction, so a race report is attributed to the interpreter", "the race detector reports a given pair of stacks once per process: every cell runs in its own child"}
	raceBin := os.Args[0] + ".race"
	if _, err := os.Stat(raceBin); err != nil {
		r.Inconclusive("C08/build", "race-enabled harness binary missing")
		r.Finish()
		return
	}
	logDir := filepath.Join(r.Work, "c08race")
	os.MkdirAll(logDir, 0o755)
	pool := &core.Pool{Workers: 8, Dir: r.Work + "/pool08", Bin: raceBin, Env: []string{"GORACE=halt_on_error=0 log_path=" + filepath.Join(logDir, "race")}}
	rg := core.NewRng(r.Seed).Sub("C08")
	var items []core.BatchItem
	expect := map[string]string{}
	add := func(id string, d map[string]string) {
		items = append(items, core.BatchItem{ID: id, Data: d})
	}
	ws := []int{2, 8, 32}
	procs := []int{1, 2, 4, 16}
	yields := []uint64{0, 64, 4}
	reps := 1
	if r.Thorough() {
		reps = 8
	}
	k := 0
	for ti, t := range c08Templates {
		for _, w := range ws {
			n := 40
			if w == 32 {
				n = 12
			}
			src := t.gen(w, n)
			for _, p := range procs {
				for _, y := range yields {
					k++
					if !r.Thorough() && (k+int(r.Seed)+ti)%3 != 0 {
						continue
					}
					for rep := 0; rep < reps; rep++ {
						id := fmt.Sprintf("C08/%s/w%d/procs%d/yield%d/rep%d", t.name, w, p, y, rep)
						expect[id] = src
						add(id, map[string]string{"kind": "template", "src": src, "procs": fmt.Sprint(p), "yield": fmt.Sprint(y), "seed": fmt.Sprint(rg.U64() % 1000003), "w": fmt.Sprint(w), "n": fmt.Sprint(n)})
					}
				}
			}
		}
	}
	for _, p := range procs {
		for _, y := range yields {
			k++
			if !r.Thorough() && (k+int(r.Seed))%3 != 0 {
				continue
			}
			for rep := 0; rep < reps; rep++ {
				sd := fmt.Sprint(rg.U64() % 1000003)
				add(fmt.Sprintf("C08/host-goroutines-same-function/procs%d/yield%d/rep%d", p, y, rep), map[string]string{"kind": "hostcalls", "procs": fmt.Sprint(p), "yield": fmt.Sprint(y), "seed": sd, "w": "32", "n": "30"})
				add(fmt.Sprintf("C08/linearizable-kv/procs%d/yield%d/rep%d", p, y, rep), map[string]string{"kind": "linear", "procs": fmt.Sprint(p), "yield": fmt.Sprint(y), "seed": sd, "w": "6", "n": "12"})
				add(fmt.Sprintf("C08/parallel-interpreters/procs%d/yield%d/rep%d", p, y, rep), map[string]string{"kind": "parallel", "procs": fmt.Sprint(p), "yield": fmt.Sprint(y), "seed": sd, "w": "8", "n": fmt.Sprint(k*7 + rep)})
			}
		}
	}
	// reference outputs
	type ref struct {
		out string
		err string
	}
	refs := map[string]*ref{}
	var rmu sync.Mutex
	var wg sync.WaitGroup
	for _, src := range expect {
		rmu.Lock()
		_, ok := refs[src]
		if !ok {
			refs[src] = &ref{}
		}
		rmu.Unlock()
		if ok {
			continue
		}
		wg.Add(1)
		go func(src string) {
			defer wg.Done()
			nat := core.Native(map[string]string{"main.go": src}, r.Work)
			rmu.Lock()
			refs[src].out, refs[src].err = nat.Out, nat.BuildErr
			if nat.Exit != 0 || nat.Timeout {
				refs[src].err = "reference failed: " + firstLines2(nat.Stderr, 3)
			}
			rmu.Unlock()
		}(src)
	}
	wg.Wait()
	steps, calls, races := 0, 0, 0
	sigs := map[string]int{}
	for _, br := range pool.RunBatch("c08", items, 1, 400000) {
		if br.Crash != "" {
			if strings.Contains(br.Crash, "TIMEOUT") {
				r.Fail(br.ID, map[string]any{"diff": "the cell did not finish (deadlock or livelock): " + firstLines2(br.Crash, 3), "source": expect[br.ID]})
			} else {
				r.Fail(br.ID, map[string]any{"diff": "the process died: " + firstLines2(br.Crash, 8), "source": expect[br.ID]})
			}
			continue
		}
		var st, cl int
		fmt.Sscan(br.Data["steps"], &st)
		fmt.Sscan(br.Data["calls"], &cl)
		steps += st
		calls += cl
		var why []string
		if rc := br.Data["race"]; rc != "" {
			nrep := strings.Count(rc, "WARNING: DATA RACE")
			races += nrep
			sig := c08RaceSig(rc)
			sigs[sig]++
			why = append(why, fmt.Sprintf("%d race report(s), first: %s", nrep, sig))
		}
		if e := br.Data["err"]; e != "" {
			if e == "WATCHDOG" {
				why = append(why, "the script did not finish within 120 s (deadlock or lost message)")
			} else if strings.HasPrefix(e, "inconclusive") {
				r.Inconclusive(br.ID, e)
				continue
			} else {
				why = append(why, e)
			}
		}
		if src, ok := expect[br.ID]; ok {
			rf := refs[src]
			if rf.err != "" {
				r.Inconclusive(br.ID, rf.err)
				continue
			}
			if br.Data["out"] != rf.out {
				why = append(why, fmt.Sprintf("output %q, compiled program prints %q", clipStr8(br.Data["out"]), clipStr8(rf.out)))
			}
		}
		if len(why) > 0 {
			w := map[string]any{"diff": strings.Join(why, "; "), "source": expect[br.ID], "race_log": clipN(br.Data["race"], 6000)}
			if br.Data["src"] != "" {
				w["source"] = br.Data["src"]
			}
			r.Fail(br.ID, w)
			continue
		}
		r.Ok(br.ID)
	}
	r.Extra["interpreted_operations_observed"] = steps
	r.Extra["host_calls_observed"] = calls
	r.Extra["race_reports"] = races
	r.Extra["distinct_race_signatures"] = sigs
	os.RemoveAll(logDir)
}

func clipStr8(s string) string { return clipN(s, 300) }

func clipN(s string, n int) string {
	if len(s) > n {
		return s[:n] + "..."
	}
	return s
}

// c08RaceSig: the outermost interp frames of the two accesses of the first report, line numbers stripped.
func c08RaceSig(log string) string {
	var fr []string
	for _, l := range strings.Split(log, "\n") {
		l = strings.TrimSpace(l)
		if strings.HasPrefix(l, "github.com/traefik/yaegi/interp.") {
			f := strings.TrimPrefix(l, "github.com/traefik/yaegi/interp.")
			if i := strings.Index(f, "("); i > 0 {
				f = f[:i]
			}
			if len(fr) == 0 || fr[len(fr)-1] != f {
				fr = append(fr, f)
			}
		}
		if strings.HasPrefix(l, "Goroutine ") && len(fr) > 0 {
			break
		}
	}
	if len(fr) > 6 {
		fr = fr[:6]
	}
	return strings.Join(fr, " < ")
}
