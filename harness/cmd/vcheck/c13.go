package main

import (
	"bytes"
	"encoding/json"
	"fmt"
	"go/constant"
	"io"
	"log"
	"os"
	"os/exec"
	"path"
	"path/filepath"
	"reflect"
	"runtime"
	"sort"
	"strings"
	"sync"

	"verifharness/core"

	"github.com/traefik/yaegi/interp"
	"github.com/traefik/yaegi/stdlib"
	"github.com/traefik/yaegi/stdlib/unrestricted"
)

// C13: restricted mode confines scripts.

func c13ImportPath(key string) string { return key[:strings.LastIndex(key, "/")] }

// a usable (non-type) symbol of a package table, preferring functions
func c13UsableSymbol(syms map[string]reflect.Value) string {
	var names []string
	for n := range syms {
		names = append(names, n)
	}
	sort.Strings(names)
	pick := ""
	for _, n := range names {
		v := syms[n]
		if !v.IsValid() || strings.HasPrefix(n, "_") {
			continue
		}
		if v.Kind() == reflect.Func {
			return n
		}
		if _, ok := v.Interface().(constant.Value); ok && pick == "" {
			pick = n
		}
		if v.Kind() != reflect.Ptr && v.CanAddr() && pick == "" {
			pick = n
		}
	}
	return pick
}

var c13Forbidden = []string{"unsafe", "syscall", "os/exec"}

func c13Imports(r reporter) {
	var keys []string
	for k := range stdlib.Symbols {
		if strings.Contains(k, "/") && !strings.HasPrefix(k, "github.com/traefik/yaegi/") {
			keys = append(keys, k)
		}
	}
	sort.Strings(keys)
	type job struct{ key, form string }
	var jobs []job
	for _, k := range keys {
		for _, f := range []string{"plain", "named", "dot", "blank"} {
			jobs = append(jobs, job{k, f})
		}
	}
	for _, p := range c13Forbidden {
		for _, f := range []string{"plain", "named", "dot", "blank", "auto", "plain-block", "after-other-eval"} {
			jobs = append(jobs, job{p + "/" + path.Base(p), "forbid-" + f})
		}
	}
	jobs = append(jobs, job{"", "auto-all"})
	ch := make(chan job, len(jobs))
	for _, j := range jobs {
		ch <- j
	}
	close(ch)
	var wg sync.WaitGroup
	for w := 0; w < runtime.NumCPU(); w++ {
		wg.Add(1)
		go func() {
			defer wg.Done()
			for j := range ch {
				c13ImportJob(r, j.key, j.form)
			}
		}()
	}
	wg.Wait()
}

func c13New() (*interp.Interpreter, *bytes.Buffer) {
	var out bytes.Buffer
	i := interp.New(interp.Options{Stdout: &out, Stderr: &out, Stdin: strings.NewReader("")})
	if err := i.Use(stdlib.Symbols); err != nil {
		panic(err)
	}
	return i, &out
}

func c13ImportJob(r reporter, key, form string) {
	defer func() {
		if x := recover(); x != nil {
			r.Fail("C13/import/"+key+"/"+form, map[string]any{"diff": fmt.Sprintf("host panic: %v", x)})
		}
	}()
	if form == "auto-all" {
		// ImportUsed: every package whose base name is unique is reachable without import; forbidden ones are not
		i, _ := c13New()
		i.ImportUsed()
		count := map[string]int{}
		for k := range stdlib.Symbols {
			count[path.Base(k)]++
		}
		for k, syms := range stdlib.Symbols {
			if !strings.Contains(k, "/") || strings.HasPrefix(k, "github.com/traefik/yaegi/") {
				continue
			}
			name := path.Base(k)
			sym := c13UsableSymbol(syms)
			if count[name] != 1 || sym == "" || name == "main" {
				continue
			}
			cell := "C13/import/" + k + "/auto"
			if _, err := i.Eval(fmt.Sprintf("_ = %s.%s", name, sym)); err != nil {
				r.Fail(cell, map[string]any{"diff": fmt.Sprintf("ImportUsed: %s.%s not usable: %v", name, sym, err)})
			} else {
				r.Ok(cell)
			}
		}
		for _, e := range []string{"unsafe.Pointer(nil)", "syscall.Getpid()", `exec.Command("true")`, "unsafe.Sizeof(1)", "syscall.Exit(3)"} {
			cell := "C13/forbidden-auto/" + e
			if _, err := i.Eval("_ = " + e); err == nil {
				r.Fail(cell, map[string]any{"diff": "ImportUsed made a forbidden package reachable: " + e})
			} else {
				r.Ok(cell)
			}
		}
		return
	}
	ip := c13ImportPath(key)
	name := path.Base(key)
	if strings.HasPrefix(form, "forbid-") {
		cell := "C13/forbidden/" + ip + "/" + form
		i, _ := c13New()
		var src string
		switch form {
		case "forbid-plain":
			src = fmt.Sprintf("import %q", ip)
		case "forbid-named":
			src = fmt.Sprintf("import x %q", ip)
		case "forbid-dot":
			src = fmt.Sprintf("import . %q", ip)
		case "forbid-blank":
			src = fmt.Sprintf("import _ %q", ip)
		case "forbid-plain-block":
			src = fmt.Sprintf("package main\n\nimport (\n\t\"fmt\"\n\t%q\n)\n\nfunc main() { fmt.Println(\"ran\") }\n", ip)
		case "forbid-after-other-eval":
			i.Eval(`import "fmt"`)
			src = fmt.Sprintf("import %q", ip)
		case "forbid-auto":
			i.ImportUsed()
			src = map[string]string{"unsafe": "_ = unsafe.Pointer(nil)", "syscall": "_ = syscall.Getpid()", "os/exec": `_ = exec.Command("true")`}[ip]
		}
		_, err := i.Eval(src)
		if err == nil {
			r.Fail(cell, map[string]any{"diff": "forbidden import succeeded", "source": src})
			return
		}
		if len(i.Symbols(ip)) != 0 {
			r.Fail(cell, map[string]any{"diff": "interpreter table holds symbols for " + ip})
			return
		}
		r.Ok(cell)
		return
	}
	cell := "C13/import/" + key + "/" + form
	sym := c13UsableSymbol(stdlib.Symbols[key])
	i, _ := c13New()
	var src, use string
	switch form {
	case "plain":
		src, use = fmt.Sprintf("import %q", ip), name+"."+sym
	case "named":
		src, use = fmt.Sprintf("import zz %q", ip), "zz."+sym
	case "dot":
		src, use = fmt.Sprintf("import . %q", ip), sym
	case "blank":
		src, use = fmt.Sprintf("import _ %q", ip), ""
	}
	if _, err := i.Eval(src); err != nil {
		r.Fail(cell, map[string]any{"diff": "import failed: " + err.Error(), "source": src})
		return
	}
	if use != "" && sym != "" {
		if _, err := i.Eval("_ = " + use); err != nil {
			r.Fail(cell, map[string]any{"diff": fmt.Sprintf("symbol %s not usable after %s: %v", use, src, err)})
			return
		}
	}
	r.Ok(cell)
}

// c13Table walks the live table of an interpreter in restricted mode.
func c13Table(r reporter) (funcs, apiPanics int) {
	i, _ := c13New()
	forbidden := map[uintptr]string{}
	add := func(name string, f any) { forbidden[reflect.ValueOf(f).Pointer()] = name }
	add("os.Exit", os.Exit)
	add("log.Fatal", log.Fatal)
	add("log.Fatalf", log.Fatalf)
	add("log.Fatalln", log.Fatalln)
	add("(*log.Logger).Fatal", (*log.Logger).Fatal)
	add("(*log.Logger).Fatalf", (*log.Logger).Fatalf)
	add("(*log.Logger).Fatalln", (*log.Logger).Fatalln)
	add("os.Getenv", os.Getenv)
	add("os.Setenv", os.Setenv)
	add("os.Unsetenv", os.Unsetenv)
	add("os.Clearenv", os.Clearenv)
	add("os.Environ", os.Environ)
	add("os.LookupEnv", os.LookupEnv)
	add("os.ExpandEnv", os.ExpandEnv)
	add("log.Default", log.Default)
	add("log.New", log.New)
	rawLogger := reflect.TypeOf((*log.Logger)(nil))
	symbolsOf := func(ip, key string) (m map[string]map[string]reflect.Value) {
		defer func() {
			if x := recover(); x != nil {
				// Interpreter.Symbols panics for packages that also have interpreted generic source
				// (maps, slices, ...): fall back to the shared table, which fixStdlib does not touch for them
				m = map[string]map[string]reflect.Value{key: stdlib.Symbols[key]}
				apiPanics++
			}
		}()
		return i.Symbols(ip)
	}
	for key := range stdlib.Symbols {
		if !strings.Contains(key, "/") {
			continue
		}
		ip := c13ImportPath(key)
		for _, syms := range symbolsOf(ip, key) {
			for name, v := range syms {
				cell := "C13/table/" + key + "/" + name
				if !v.IsValid() {
					continue
				}
				if v.Kind() == reflect.Func {
					funcs++
					if what, bad := forbidden[v.Pointer()]; bad {
						r.Fail(cell, map[string]any{"diff": fmt.Sprintf("%s.%s is bound to the raw %s", ip, name, what)})
						continue
					}
					t := v.Type()
					leak := false
					for o := 0; o < t.NumOut(); o++ {
						if t.Out(o) == rawLogger {
							leak = true
						}
					}
					if leak {
						r.Fail(cell, map[string]any{"diff": fmt.Sprintf("%s.%s hands out a raw *log.Logger, whose Fatal methods exit the host", ip, name)})
						continue
					}
					r.Ok(cell)
				} else if name == "Logger" && ip == "log" {
					if v.Type() == rawLogger {
						r.Fail(cell, map[string]any{"diff": "log.Logger is the raw type"})
					} else {
						r.Ok(cell)
					}
				}
			}
		}
	}
	for _, p := range c13Forbidden {
		for k := range stdlib.Symbols {
			if strings.Contains(k, "/") && c13ImportPath(k) == p {
				r.Fail("C13/table/"+p, map[string]any{"diff": "default symbol table contains " + k})
			}
		}
		if len(i.Symbols(p)) == 0 {
			r.Ok("C13/table/" + p + "/absent")
		} else {
			r.Fail("C13/table/"+p+"/absent", map[string]any{"diff": "interpreter table has package " + p})
		}
	}
	return funcs, apiPanics
}

// exit entry points, each evaluated in a child process whose death is the refuting event
var c13Exits = []struct{ id, body string }{
	{"os.Exit", `os.Exit(3)`},
	{"log.Fatal", `log.Fatal("x")`},
	{"log.Fatalf", `log.Fatalf("%d", 1)`},
	{"log.Fatalln", `log.Fatalln("x")`},
	{"log.New.Fatal", `log.New(os.Stderr, "", 0).Fatal("x")`},
	{"log.New.Fatalf", `log.New(os.Stderr, "", 0).Fatalf("%d", 1)`},
	{"log.New.Fatalln", `log.New(os.Stderr, "", 0).Fatalln("x")`},
	{"log.Default.Fatal", `log.Default().Fatal("x")`},
	{"log.Default.Fatalf", `log.Default().Fatalf("%d", 1)`},
	{"log.Default.Fatalln", `log.Default().Fatalln("x")`},
	{"logger-var.Fatal", `var l *log.Logger = log.New(os.Stderr, "p", 0); l.Fatal("x")`},
	{"logger-in-func.Fatal", `f := func(l *log.Logger) { l.Fatalln("x") }; f(log.Default())`},
	{"slog.NewLogLogger.Fatal", `slog.NewLogLogger(slog.NewTextHandler(os.Stderr, nil), slog.LevelInfo).Fatal("x")`},
	{"goroutine.os.Exit", `done := make(chan bool); go func() { defer func() { recover(); done <- true }(); os.Exit(4) }(); <-done; panic("after")`},
}

func c13ExitCases() []core.Case {
	var cs []core.Case
	for _, e := range c13Exits {
		for _, rec := range []bool{false, true} {
			fn := "func run() {\n"
			if rec {
				fn += "\tdefer func() {\n\t\tif r := recover(); r != nil {\n\t\t\tfmt.Println(\"RECOVERED\")\n\t\t}\n\t}()\n"
			}
			fn += "\t" + e.body + "\n}\n"
			id := "C13/exit/" + e.id
			if rec {
				id += "/recovered"
			} else {
				id += "/uncaught"
			}
			// interactive style: imports, the function, then the statements that call it
			cs = append(cs, core.Case{ID: id, Mode: "chunks", TimeoutMs: 30000, Post: []string{"1 + 1"},
				Chunks: []string{"import (\n\t\"fmt\"\n\t\"log\"\n\t\"log/slog\"\n\t\"os\"\n)", fn, "fmt.Println(\"START\")", "run()", "fmt.Println(\"END\")"}})
		}
	}
	return cs
}

// environment model
type c13EnvOp struct {
	Op, K, V string
}

func c13EnvSeq(rg *core.Rng, n int) []c13EnvOp {
	keys := []string{"A", "B", "HOME", "PATH", "VERIF_CANARY", "X_Y", "lower", "E"}
	vals := []string{"", "1", "a=b", "x y", "$A", "${B}", "é", "/bin:/usr/bin"}
	var ops []c13EnvOp
	for len(ops) < n {
		k, v := core.Pick(rg, keys), core.Pick(rg, vals)
		switch rg.Intn(12) {
		case 0, 1, 2:
			ops = append(ops, c13EnvOp{"Setenv", k, v})
		case 3:
			ops = append(ops, c13EnvOp{"Unsetenv", k, ""})
		case 4:
			if rg.Chance(1, 2) {
				ops = append(ops, c13EnvOp{"Clearenv", "", ""})
			}
		case 5, 6, 7:
			ops = append(ops, c13EnvOp{"Getenv", k, ""})
		case 8, 9:
			ops = append(ops, c13EnvOp{"LookupEnv", k, ""})
		case 10:
			ops = append(ops, c13EnvOp{"Environ", "", ""})
		case 11:
			ops = append(ops, c13EnvOp{"ExpandEnv", "", "pre-$" + k + "-${" + core.Pick(rg, keys) + "}-$$-post"})
		}
	}
	return ops
}

func c13EnvRun(r reporter, idx int, initial []string, ops []c13EnvOp) {
	cellFor := func(op string) string { return "C13/env/" + op }
	hostBefore := strings.Join(os.Environ(), "\x00")
	var out bytes.Buffer
	i := interp.New(interp.Options{Stdout: &out, Stderr: &out, Env: initial})
	i.Use(stdlib.Symbols)
	if _, err := i.Eval(`import ("os"; "sort"; "fmt"; "strings")`); err != nil {
		r.Fail("C13/env/setup", map[string]any{"diff": err.Error()})
		return
	}
	i.Eval(`func envSorted() string { e := os.Environ(); sort.Strings(e); return fmt.Sprintf("%q", e) }`)
	i.Eval(`var _ = strings.Join`)
	i.Eval(`func lookup(k string) string { v, ok := os.LookupEnv(k); return fmt.Sprint(v, "|", ok) }`)
	model := map[string]string{}
	for _, kv := range initial {
		if j := strings.IndexByte(kv, '='); j >= 0 {
			model[kv[:j]] = kv[j+1:]
		}
	}
	for step, op := range ops {
		var expr, want string
		switch op.Op {
		case "Setenv":
			expr = fmt.Sprintf("os.Setenv(%q, %q)", op.K, op.V)
			model[op.K] = op.V
			want = "<nil>"
		case "Unsetenv":
			expr = fmt.Sprintf("os.Unsetenv(%q)", op.K)
			delete(model, op.K)
			want = "<nil>"
		case "Clearenv":
			expr = "os.Clearenv()"
			model = map[string]string{}
			want = ""
		case "Getenv":
			expr = fmt.Sprintf("os.Getenv(%q)", op.K)
			want = model[op.K]
		case "LookupEnv":
			expr = fmt.Sprintf("lookup(%q)", op.K)
			v, ok := model[op.K]
			want = fmt.Sprint(v, "|", ok)
		case "Environ":
			expr = "envSorted()"
			var e []string
			for k, v := range model {
				e = append(e, k+"="+v)
			}
			sort.Strings(e)
			want = fmt.Sprintf("%q", e)
		case "ExpandEnv":
			expr = fmt.Sprintf("os.ExpandEnv(%q)", op.V)
			want = os.Expand(op.V, func(k string) string { return model[k] })
		}
		v, err := i.Eval(expr)
		got := ""
		if err != nil {
			got = "error: " + err.Error()
		} else if op.Op == "Clearenv" {
			got = ""
		} else {
			got = fmt.Sprint(v)
		}
		if got != want {
			r.Fail(cellFor(op.Op), map[string]any{"diff": fmt.Sprintf("sequence %d step %d %s: script saw %q, map model %q", idx, step, expr, got, want), "initial": initial, "ops": ops[:step+1]})
			return
		}
		r.Ok(cellFor(op.Op) + "/" + fmt.Sprint(idx%50))
	}
	if hostAfter := strings.Join(os.Environ(), "\x00"); hostAfter != hostBefore {
		r.Fail("C13/env/host-environment", map[string]any{"diff": "the host environment changed while the script ran", "ops": ops})
		return
	}
	if os.Getenv("VERIF_CANARY") != "host-canary" {
		r.Fail("C13/env/host-environment", map[string]any{"diff": "VERIF_CANARY of the host changed", "ops": ops})
	}
}

// I/O redirection: a dedicated child whose real fd 0/1/2 are canary files.
type c13IORes struct {
	ID                string
	Out, Err          string
	EvalErr           string
	Fd1, Fd2, StdinAt int64
}

var c13IOCases = []struct{ id, body, wantOut, wantErr string }{
	{"fmt.Print", `fmt.Print("a", 1)`, "a1", ""},
	{"fmt.Printf", `fmt.Printf("%d-%s", 2, "b")`, "2-b", ""},
	{"fmt.Println", `fmt.Println("c", 3)`, "c 3\n", ""},
	{"builtin.print", `print("d", 4)`, "?", "?d4"},
	{"builtin.println", `println("e", 5)`, "?", "?e5"},
	{"log.Print", `log.SetFlags(0); log.Print("f")`, "", "f\n"},
	{"log.Printf", `log.SetFlags(0); log.Printf("g%d", 6)`, "", "g6\n"},
	{"log.Println", `log.SetFlags(0); log.Println("h")`, "", "h\n"},
	{"log.Panic", `defer func() { recover() }(); log.SetFlags(0); log.Panic("i")`, "", "i\n"},
	{"log.Fatal-output", `defer func() { recover() }(); log.SetFlags(0); log.Fatal("j")`, "", "j\n"},
	{"log.Default.Print", `l := log.Default(); l.SetFlags(0); l.Print("k")`, "", "k\n"},
	{"log.Writer", `fmt.Fprint(log.Writer(), "m")`, "", "m"},
	{"fmt.Scan", `var x int; n, err := fmt.Scan(&x); fmt.Println(x, n, err)`, "42 1 <nil>\n", ""},
	{"fmt.Scanln", `var s string; n, err := fmt.Scanln(&s); fmt.Println(s, n, err)`, "42 1 <nil>\n", ""},
	{"fmt.Scanf", `var x int; n, err := fmt.Scanf("%d", &x); fmt.Println(x, n, err)`, "42 1 <nil>\n", ""},
	{"os.Args", `fmt.Println(os.Args)`, "[prog -n 7 rest]\n", ""},
	{"flag.Parse", `n := flag.Int("n", 0, ""); flag.Parse(); fmt.Println(*n, flag.Args())`, "7 [rest]\n", ""},
	{"flag.usage-output", `defer func() { recover() }(); flag.CommandLine.Parse([]string{"-nosuchflag"})`, "", "*"},
}

func c13IOChild() {
	w := os.NewFile(3, "results")
	enc := json.NewEncoder(w)
	for _, c := range c13IOCases {
		var out, errb bytes.Buffer
		i := interp.New(interp.Options{Stdout: &out, Stderr: &errb, Stdin: strings.NewReader("42\n"), Args: []string{"prog", "-n", "7", "rest"}})
		i.Use(stdlib.Symbols)
		src := "package main\n\nimport (\n\t\"flag\"\n\t\"fmt\"\n\t\"log\"\n\t\"os\"\n)\n\nvar _ = flag.Args\nvar _ = log.Flags\nvar _ = os.Args\nvar _ = fmt.Sprint\n\nfunc main() {\n\t" + c.body + "\n}\n"
		res := c13IORes{ID: c.id}
		func() {
			defer func() {
				if r := recover(); r != nil {
					res.EvalErr = fmt.Sprintf("HOSTPANIC %v", r)
				}
			}()
			if _, err := i.Eval(src); err != nil {
				res.EvalErr = err.Error()
			}
		}()
		res.Out, res.Err = out.String(), errb.String()
		if st, err := os.Stdout.Stat(); err == nil {
			res.Fd1 = st.Size()
		}
		if st, err := os.Stderr.Stat(); err == nil {
			res.Fd2 = st.Size()
		}
		res.StdinAt, _ = os.Stdin.Seek(0, io.SeekCurrent)
		enc.Encode(&res)
	}
}

func c13IO(r *core.Run) {
	dir := filepath.Join(r.Work, "io")
	os.MkdirAll(dir, 0o755)
	in := filepath.Join(dir, "stdin")
	os.WriteFile(in, []byte("99 HOSTSTDIN\n"), 0o644)
	fin, _ := os.Open(in)
	f1, _ := os.Create(filepath.Join(dir, "fd1"))
	f2, _ := os.Create(filepath.Join(dir, "fd2"))
	pr, pw, _ := os.Pipe()
	cmd := exec.Command(os.Args[0], "__c13io")
	cmd.Stdin, cmd.Stdout, cmd.Stderr = fin, f1, f2
	cmd.ExtraFiles = []*os.File{pw}
	cmd.Env = append(os.Environ(), "GOTRACEBACK=none")
	if err := cmd.Start(); err != nil {
		r.Inconclusive("C13/io", err.Error())
		return
	}
	pw.Close()
	dec := json.NewDecoder(pr)
	got := map[string]c13IORes{}
	var prev1, prev2 int64
	for {
		var x c13IORes
		if err := dec.Decode(&x); err != nil {
			break
		}
		got[x.ID] = x
	}
	cmd.Wait()
	fin.Close()
	f1.Close()
	f2.Close()
	for _, c := range c13IOCases {
		cell := "C13/io/" + c.id
		x, ok := got[c.id]
		if !ok {
			b2, _ := os.ReadFile(filepath.Join(dir, "fd2"))
			r.Fail(cell, map[string]any{"diff": "the child process ended before reporting this case", "fd2": string(b2)})
			break
		}
		var why []string
		if x.Fd1 != prev1 {
			why = append(why, fmt.Sprintf("%d bytes reached the process's real stdout", x.Fd1-prev1))
		}
		if x.Fd2 != prev2 {
			why = append(why, fmt.Sprintf("%d bytes reached the process's real stderr", x.Fd2-prev2))
		}
		prev1, prev2 = x.Fd1, x.Fd2
		if x.StdinAt != 0 {
			why = append(why, "the process's real stdin was read")
		}
		if c.wantOut == "?" {
			// the print builtins: the text must arrive on one of the Options streams (which one, and the
			// spacing, are not part of this property)
			all := strings.NewReplacer(" ", "", "\n", "").Replace(x.Out + x.Err)
			if all != c.wantErr[1:] {
				why = append(why, fmt.Sprintf("Options streams got %q/%q, want the text %q on one of them", x.Out, x.Err, c.wantErr[1:]))
			}
		} else if x.Out != c.wantOut {
			why = append(why, fmt.Sprintf("Options.Stdout got %q, want %q", x.Out, c.wantOut))
		}
		if c.wantOut == "?" {
		} else if c.wantErr == "*" {
			if x.Err == "" {
				why = append(why, "Options.Stderr got nothing")
			}
		} else if x.Err != c.wantErr {
			why = append(why, fmt.Sprintf("Options.Stderr got %q, want %q", x.Err, c.wantErr))
		}
		if len(why) > 0 {
			r.Fail(cell, map[string]any{"diff": strings.Join(why, "; "), "eval_error": x.EvalErr, "body": c.body})
		} else {
			r.Ok(cell)
		}
	}
}

func init() { checks["C13"] = checkC13 }

func checkC13(r *core.Run) {
	r.Rule = "cells: (package key x import form) importable and usable / forbidden package x form rejected; every function value of the live per-interpreter table compared by code pointer with the raw exit, Fatal and environment functions and scanned for raw *log.Logger results; each exit entry point run in a child process (death = refutation) with and without recover; seeded environment operation sequences against a map model with the host environment snapshotted; each redirected I/O function run in a child whose real fd 0/1/2 are canary files"
	r.Assume = []string{"default symbol set = stdlib.Symbols, Options.Unrestricted false", "direct writes to file descriptors are documented as out of scope by fixStdlib"}
	pool := newPool(r)
	// the in-process monitors (imports, table walk, isolation between interpreters, environment model) run in
	// child processes: a Go fatal error there (e.g. concurrent map writes on a table shared between
	// interpreters) is attributed to the part that ran
	nSeq := 600
	if r.Thorough() {
		nSeq = 12000
	}
	parts := []core.Case{
		{ID: "C13/inprocess/imports", Mode: "c13part", Params: map[string]string{"part": "imports"}, TimeoutMs: 600000},
		{ID: "C13/inprocess/table", Mode: "c13part", Params: map[string]string{"part": "table"}, TimeoutMs: 600000},
		{ID: "C13/inprocess/isolation", Mode: "c13part", Params: map[string]string{"part": "isolation"}, TimeoutMs: 600000},
	}
	for lo := 0; lo < nSeq; lo += 500 {
		parts = append(parts, core.Case{ID: fmt.Sprintf("C13/inprocess/env-%d", lo), Mode: "c13part", TimeoutMs: 600000,
			Params: map[string]string{"part": "env", "lo": fmt.Sprint(lo), "hi": fmt.Sprint(minInt(lo+500, nSeq)), "seed": fmt.Sprint(r.Seed)}})
	}
	for pi, res := range pool.RunCases(parts) {
		if res.Crash || res.Timeout || res.HostPanic != "" {
			r.Fail(parts[pi].ID, map[string]any{"diff": "the process running this part ended abnormally (" + res.Ending() + "): " + firstLines2(res.CrashMsg+res.HostPanic, 8)})
			continue
		}
		var col collector
		json.Unmarshal([]byte(res.Data["report"]), &col)
		for _, c := range col.Oks {
			r.Ok(c)
		}
		for _, f := range col.Fails {
			r.Fail(f.Cell, f.W)
		}
		for k, v := range col.Extra {
			if old, ok := r.Extra[k].(float64); ok {
				if nv, ok := v.(float64); ok {
					r.Extra[k] = old + nv
					continue
				}
			}
			r.Extra[k] = v
		}
	}
	// exits
	cases := c13ExitCases()
	for ci, res := range pool.RunCases(cases) {
		cell := cases[ci].ID
		recovered := strings.HasSuffix(cell, "/recovered")
		switch {
		case res.Crash:
			r.Fail(cell, map[string]any{"diff": "the host process ended: " + firstLines2(res.CrashMsg, 6), "chunks": cases[ci].Chunks})
		case res.Timeout:
			r.Inconclusive(cell, "timeout")
		case res.HostPanic != "":
			r.Fail(cell, map[string]any{"diff": "a Go panic escaped Eval: " + firstLines2(res.HostPanic, 3), "chunks": cases[ci].Chunks})
		case recovered && (res.ErrClass != "" || !strings.Contains(res.Out, "RECOVERED") || !strings.Contains(res.Out, "END")):
			r.Fail(cell, map[string]any{"diff": fmt.Sprintf("not a recoverable panic: out=%q err=%s", res.Out, res.ErrText), "chunks": cases[ci].Chunks})
		case !recovered && (res.ErrClass != "panic" || strings.Contains(res.Out, "END")):
			r.Fail(cell, map[string]any{"diff": fmt.Sprintf("uncaught exit call did not surface as interp.Panic: class=%q out=%q err=%s", res.ErrClass, res.Out, res.ErrText), "chunks": cases[ci].Chunks})
		case len(res.Post) == 1 && !strings.HasPrefix(res.Post[0].Out, "2|"):
			r.Fail(cell, map[string]any{"diff": "interpreter unusable afterwards: " + res.Post[0].Err, "chunks": cases[ci].Chunks})
		default:
			r.Ok(cell)
		}
	}
	r.Extra["exit_entry_points"] = len(cases)
	r.Extra["package_keys"] = len(stdlib.Symbols)
	c13IO(r)
	r.Extra["io_functions"] = len(c13IOCases)
	r.Sample(map[string]any{"exit_case": cases[0].ID, "chunks": cases[0].Chunks})
}

func firstLines2(s string, n int) string {
	ls := strings.Split(strings.TrimSpace(s), "\n")
	if len(ls) > n {
		ls = ls[:n]
	}
	return strings.Join(ls, " | ")
}

type reporter interface {
	Ok(cell string)
	Fail(cell string, witness map[string]any)
}

type collFail struct {
	Cell string
	W    map[string]any
}

// collector gathers verdicts in a child process.
type collector struct {
	mu    sync.Mutex
	Oks   []string
	Fails []collFail
	Extra map[string]any
}

func (c *collector) Ok(cell string) { c.mu.Lock(); c.Oks = append(c.Oks, cell); c.mu.Unlock() }
func (c *collector) Fail(cell string, w map[string]any) {
	c.mu.Lock()
	c.Fails = append(c.Fails, collFail{cell, w})
	c.mu.Unlock()
}

func init() {
	core.ChildModes["c13part"] = func(c *core.Case) *core.Result {
		os.Setenv("VERIF_CANARY", "host-canary")
		col := &collector{Extra: map[string]any{}}
		switch c.Params["part"] {
		case "imports":
			c13Imports(col)
		case "table":
			f, a := c13Table(col)
			col.Extra["functions_scanned"] = f
			col.Extra["symbols_api_panics_worked_around"] = a
		case "isolation":
			c13Isolation(col)
		case "env":
			var lo, hi int
			var seed uint64
			fmt.Sscan(c.Params["lo"], &lo)
			fmt.Sscan(c.Params["hi"], &hi)
			fmt.Sscan(c.Params["seed"], &seed)
			initials := [][]string{nil, {"A=1", "HOME=/h"}, {"A=b=c", "E=", "PATH=/bin", "lower=x"}}
			var wg sync.WaitGroup
			sem := make(chan struct{}, 4)
			ops := 0
			for s := lo; s < hi; s++ {
				rg := core.NewRng(seed*7919 + uint64(s)).Sub("C13env")
				seq := c13EnvSeq(rg, 5+rg.Intn(26))
				ops += len(seq)
				wg.Add(1)
				sem <- struct{}{}
				go func(s int, seq []c13EnvOp) {
					defer wg.Done()
					defer func() { <-sem }()
					c13EnvRun(col, s, initials[s%len(initials)], seq)
				}(s, seq)
			}
			wg.Wait()
			col.Extra["env_sequences"] = hi - lo
			col.Extra["env_operations"] = ops
		}
		b, _ := json.Marshal(col)
		return &core.Result{Data: map[string]string{"report": string(b)}}
	}
}

// c13Isolation: what one interpreter is given or loads must not leak into another one of the same process.
func c13Isolation(r reporter) {
	mk := func(args []string, env []string) (*interp.Interpreter, *bytes.Buffer) {
		var out bytes.Buffer
		i := interp.New(interp.Options{Stdout: &out, Stderr: &out, Stdin: strings.NewReader(""), Args: args, Env: env})
		if err := i.Use(stdlib.Symbols); err != nil {
			panic(err)
		}
		return i, &out
	}
	a, outA := mk([]string{"proga", "1"}, []string{"WHO=a"})
	b, outB := mk([]string{"progb", "2"}, []string{"WHO=b"})
	u, outU := mk([]string{"progu"}, []string{"WHO=u"})
	if err := u.Use(unrestricted.Symbols); err != nil {
		panic(err)
	}
	const src = `import ("fmt"; "os")`
	for _, x := range []struct {
		id   string
		i    *interp.Interpreter
		out  *bytes.Buffer
		want string
	}{{"a", a, outA, "[proga 1] a\n"}, {"b", b, outB, "[progb 2] b\n"}, {"u", u, outU, "[progu] u\n"}, {"a-again", a, outA, "[proga 1] a\n"}} {
		cell := "C13/isolation/streams-args-env/" + x.id
		x.out.Reset()
		others := outA.Len() + outB.Len() + outU.Len()
		x.i.Eval(src)
		if _, err := x.i.Eval(`fmt.Println(os.Args, os.Getenv("WHO"))`); err != nil {
			r.Fail(cell, map[string]any{"diff": err.Error()})
			continue
		}
		if x.out.String() != x.want || outA.Len()+outB.Len()+outU.Len() != others+len(x.want) {
			r.Fail(cell, map[string]any{"diff": fmt.Sprintf("interpreter %s wrote %q to its own stream (want %q); streams of all three hold A=%q B=%q U=%q", x.id, x.out.String(), x.want, outA.String(), outB.String(), outU.String())})
			continue
		}
		r.Ok(cell)
	}
	// a restricted interpreter created after another one loaded the unrestricted symbols
	c, _ := mk(nil, nil)
	c.Eval(`import ("os"; "log")`)
	for _, sym := range []struct {
		name string
		raw  any
	}{{"Exit", os.Exit}, {"Getenv", os.Getenv}, {"Setenv", os.Setenv}} {
		cell := "C13/isolation/restricted-after-unrestricted/os." + sym.name
		v := c.Symbols("os")["os"][sym.name]
		if v.IsValid() && v.Pointer() == reflect.ValueOf(sym.raw).Pointer() {
			r.Fail(cell, map[string]any{"diff": "a restricted interpreter created after another interpreter loaded unrestricted.Symbols is bound to the raw os." + sym.name})
		} else {
			r.Ok(cell)
		}
	}
	for _, sym := range []struct {
		name string
		raw  any
	}{{"Fatal", log.Fatal}, {"Fatalf", log.Fatalf}, {"Fatalln", log.Fatalln}} {
		cell := "C13/isolation/restricted-after-unrestricted/log." + sym.name
		v := c.Symbols("log")["log"][sym.name]
		if v.IsValid() && v.Pointer() == reflect.ValueOf(sym.raw).Pointer() {
			r.Fail(cell, map[string]any{"diff": "a restricted interpreter created after another interpreter loaded unrestricted.Symbols is bound to the raw log." + sym.name})
		} else {
			r.Ok(cell)
		}
	}
	// and the shared table itself is still the restricted one
	if v := stdlib.Symbols["os/os"]["Exit"]; v.Pointer() == reflect.ValueOf(os.Exit).Pointer() {
		r.Fail("C13/isolation/shared-table/os.Exit", map[string]any{"diff": "stdlib.Symbols[os/os][Exit] was overwritten with the raw os.Exit"})
	} else {
		r.Ok("C13/isolation/shared-table/os.Exit")
	}
}

func jsonMarshal(v any) ([]byte, error) { return json.Marshal(v) }

// replayCollector feeds a child's verdicts into the run.
func replayCollector(r *core.Run, res *core.Result) {
	var col collector
	json.Unmarshal([]byte(res.Data["report"]), &col)
	for i, c := range col.Oks {
		r.Ok(c)
		if i%997 == 0 {
			r.Sample(map[string]any{"cell": c, "verdict": "agrees with the reference"})
		}
	}
	for _, f := range col.Fails {
		r.Fail(f.Cell, f.W)
	}
	for k, v := range col.Extra {
		r.Extra[k] = v
	}
}
