package main

import (
	"bytes"
	"context"
	"encoding/json"
	"fmt"
	"os"
	"reflect"
	"strings"
	"time"

	"verifharness/core"

	"github.com/traefik/yaegi/interp"
)

// C10: a cancelled evaluation does not damage earlier definitions.
// Histories define* ; (use | cancelled-eval)* run against one interpreter; every use is compared with a model.

const c10Defs = `package main

func Add(a, b int) int { return a + b }

type T struct{ N int }

func (t T) Get() int     { return t.N * 2 }
func (t *T) Twice() int  { return t.N * 2 }
func (t *T) Bump() int   { t.N++; return t.N }

var Clo = func(x int) int { return x + 100 }

func Mk(k int) func(int) int { return func(x int) int { return x + k } }

var Clo2 = Mk(7)
var tv = T{21}
var MV = tv.Get
var pt = &T{5}
var MVP = pt.Twice
var FM = map[string]func(int) int{"f": func(x int) int { return x * 3 }}
var FS = struct{ F func(int) int }{F: func(x int) int { return x - 1 }}
var FL = []func(int) int{func(x int) int { return x * x }}
var Counter = func() func() int { c := 0; return func() int { c++; return c } }()
var bp = &T{0}
var Side int

func Void() { Side += 5 }

func Rec(n int) int {
	if n <= 0 {
		return 0
	}
	return n + Rec(n-1)
}

func Wait(x int) int {
	c := make(chan int)
	go func() {
		n := 0
		for i := 0; i < 3000; i++ { // the receiver is blocked by the time the value is sent
			n += i % 3
		}
		c <- x*2 + n - n
	}()
	return <-c + 1
}

var WaitClo = func(x int) int {
	c, d := make(chan int), make(chan int)
	go func() {
		n := 0
		for i := 0; i < 3000; i++ {
			n += i % 3
		}
		c <- x + n - n
	}()
	select {
	case v := <-c:
		return v + 2
	case v := <-d:
		return v
	}
}
`

type c10Def struct {
	name   string
	expr   string // call expression, evaluated with Eval
	hostEx string // expression yielding the function value handed to the host
	args   []int
	want   func(st *c10State) int
}

type c10State struct{ counter, bump, side int }

var c10DefList = []c10Def{
	{"named-func", "Add(1, 2)", "Add", []int{1, 2}, func(*c10State) int { return 3 }},
	{"recursive-func", "Rec(4)", "Rec", []int{4}, func(*c10State) int { return 10 }},
	{"method-value-recv", "T{3}.Get()", "T{3}.Get", nil, func(*c10State) int { return 6 }},
	{"method-ptr-recv", "pt.Twice()", "pt.Twice", nil, func(*c10State) int { return 10 }},
	{"method-stateful", "bp.Bump()", "bp.Bump", nil, func(s *c10State) int { s.bump++; return s.bump }},
	{"closure-var", "Clo(1)", "Clo", []int{1}, func(*c10State) int { return 101 }},
	{"factory-closure", "Clo2(1)", "Clo2", []int{1}, func(*c10State) int { return 8 }},
	{"method-value-var", "MV()", "MV", nil, func(*c10State) int { return 42 }},
	{"method-value-ptr-var", "MVP()", "MVP", nil, func(*c10State) int { return 10 }},
	{"func-in-map", `FM["f"](2)`, `FM["f"]`, []int{2}, func(*c10State) int { return 6 }},
	{"func-in-struct", "FS.F(2)", "FS.F", []int{2}, func(*c10State) int { return 1 }},
	{"func-in-slice", "FL[0](3)", "FL[0]", []int{3}, func(*c10State) int { return 9 }},
	{"stateful-closure", "Counter()", "Counter", nil, func(s *c10State) int { s.counter++; return s.counter }},
	// definitions which block in channel operations: they must not see a stale cancellation
	{"blocking-func", "Wait(3)", "Wait", []int{3}, func(*c10State) int { return 7 }},
	{"blocking-closure", "WaitClo(3)", "WaitClo", []int{3}, func(*c10State) int { return 5 }},
	// a call statement without result (allocates no new global slot); observed through Side
	{"void-func", "Void()", "Void", nil, func(s *c10State) int { s.side += 5; return s.side }},
}

type c10Op struct {
	Kind string `json:"kind"` // cancel | eval | host | plain | latedef | lateuse | latehost
	Def  int    `json:"def,omitempty"`
	CK   string `json:"ck,omitempty"` // cancel kind: busy | blocked | expired | callsdef | goroutines
	K    int64  `json:"k,omitempty"`
}

type c10OpRes struct {
	Op    c10Op  `json:"op"`
	Cell  string `json:"cell,omitempty"`
	Got   string `json:"got"`
	Want  string `json:"want"`
	OK    bool   `json:"ok"`
	Note  string `json:"note,omitempty"`
	Setup bool   `json:"setup,omitempty"`
}

var c10CancelSrc = map[string]string{
	"busy":        `for { }`,
	"busy-work":   `x := 0; for { x++; if x > 1000 { x = 0 } }`,
	"blocked":     `<-make(chan int)`,
	"blocked-sel": `a, b := make(chan int), make(chan int); select { case <-a: case <-b: }`,
	"expired":     `y := 0; for i := 0; i < 50; i++ { y += i }`,
	"callsdef":    `for { Add(1, 2); Clo(1); Clo2(1); MV(); pt.Twice(); FL[0](2); Rec(3) }`,
	"goroutines":  `c := make(chan int); go func() { for { Add(1, 2) } }(); go func() { <-c }(); for { Clo(1) }`,
}

var sidePtr *int // address of the script's Side variable, obtained from the interpreter

func callHost(fn reflect.Value, args []int) (res string) {
	defer func() {
		if r := recover(); r != nil {
			res = fmt.Sprintf("PANIC %v", r)
		}
	}()
	in := make([]reflect.Value, len(args))
	for i, a := range args {
		in[i] = reflect.ValueOf(a)
	}
	out := fn.Call(in)
	if len(out) == 0 && sidePtr != nil {
		return fmt.Sprint(*sidePtr)
	}
	if len(out) != 1 {
		return fmt.Sprintf("%d results", len(out))
	}
	return fmt.Sprint(out[0].Interface())
}

// c10Run executes one history in the current process.
func c10Run(ops []c10Op) []c10OpRes {
	var out bytes.Buffer
	m := newCancelMon(0)
	markPreexisting()
	i := newCancelInterp(m, nil, &out)
	m.interp = i
	var res []c10OpRes
	fail := func(note string) []c10OpRes {
		return append(res, c10OpRes{Setup: true, Note: note})
	}
	// a first evaluation with a context switches the interpreter to cancellable channel operations, so that
	// the definitions below are compiled in the form a later cancellation can reach
	if _, err := i.EvalWithContext(context.Background(), "1 + 1"); err != nil {
		return fail("warm-up: " + err.Error())
	}
	if _, err := i.Eval(c10Defs); err != nil {
		return fail("defs: " + err.Error())
	}
	// function values handed to the host before any cancellation
	host := make([]reflect.Value, len(c10DefList))
	for d := range c10DefList {
		v, err := i.Eval(c10DefList[d].hostEx)
		if err != nil {
			return fail("obtaining " + c10DefList[d].hostEx + ": " + err.Error())
		}
		host[d] = v
	}
	if v, err := i.Eval("&Side"); err == nil {
		sidePtr, _ = v.Interface().(*int)
	}
	if sidePtr == nil {
		return fail("cannot obtain &Side")
	}
	st := &c10State{}
	// every definition behaves as modelled before any cancellation (both ways)
	for d := range c10DefList {
		want := fmt.Sprint(c10DefList[d].want(st))
		v, err := i.Eval(c10DefList[d].expr)
		if err == nil && c10DefList[d].name == "void-func" {
			v, err = i.Eval("Side")
		}
		if err != nil || fmt.Sprint(v) != want {
			return fail(fmt.Sprintf("pre-cancel eval %s = %v %v, model %s", c10DefList[d].expr, v, err, want))
		}
		want = fmt.Sprint(c10DefList[d].want(st))
		if got := callHost(host[d], c10DefList[d].args); got != want {
			return fail(fmt.Sprintf("pre-cancel host %s = %s, model %s", c10DefList[d].hostEx, got, want))
		}
	}
	lastCancel := ""
	cancels := 0
	evalSince := false
	// closures defined in the course of the history (possibly by the evaluation right before a cancelled one)
	lateN := 0
	lateCalls := map[int]int{}
	lateNext := map[int]string{} // kind of the operation which followed the definition
	prevLateDef := -1
	for _, op := range ops {
		r := c10OpRes{Op: op}
		if prevLateDef >= 0 {
			lateNext[prevLateDef] = op.Kind
			if op.Kind == "cancel" {
				lateNext[prevLateDef] = "cancel-" + op.CK
			}
			prevLateDef = -1
		}
		switch op.Kind {
		case "latedef":
			k := lateN
			lateN++
			_, err := i.Eval(fmt.Sprintf("var LateN%d = 0; var Late%d = func() int { LateN%d++; return LateN%d * 3 }", k, k, k, k))
			r.Got, r.Want = fmt.Sprint(err), "<nil>"
			r.OK = err == nil
			r.Cell = "C10/late-closure/define"
			lateNext[k] = "end"
			prevLateDef = k
			evalSince = true
		case "lateuse", "latehost":
			if lateN == 0 {
				continue
			}
			k := lateN - 1
			lateCalls[k]++
			r.Want = fmt.Sprint(lateCalls[k] * 3)
			func() {
				defer func() {
					if x := recover(); x != nil {
						r.Got = fmt.Sprintf("HOSTPANIC %v", x)
					}
				}()
				if op.Kind == "lateuse" {
					v, err := i.Eval(fmt.Sprintf("Late%d()", k))
					if err != nil {
						r.Got = "error: " + err.Error()
					} else {
						r.Got = fmt.Sprint(v)
					}
					return
				}
				v, err := i.Eval(fmt.Sprintf("Late%d", k))
				if err != nil {
					r.Got = "error: " + err.Error()
					return
				}
				r.Got = fmt.Sprint(v.Interface().(func() int)())
			}()
			r.OK = r.Got == r.Want
			if !r.OK {
				// resynchronise the model with the observed counter
				if v, err := i.Eval(fmt.Sprintf("LateN%d", k)); err == nil {
					lateCalls[k] = int(v.Int())
				}
			}
			r.Cell = fmt.Sprintf("C10/late-closure/%s/defined-before=%s/after=%s/cancels=%d", op.Kind, lateNext[k], lastCancel, minInt(cancels, 2))
			evalSince = true
		case "cancel":
			src := c10CancelSrc[op.CK]
			mon := newCancelMon(op.K)
			mon.interp = i
			interp.VerifSetStep(mon.step, false)
			ctx, cancel := context.WithCancel(context.Background())
			if op.CK == "expired" {
				cancel()
			}
			ret := make(chan error, 1)
			go func() { _, err := i.EvalWithContext(ctx, src); ret <- err }()
			var err error
			done := false
			switch op.CK {
			case "expired":
			case "blocked", "blocked-sel":
				// wait until the evaluation is parked in its channel operation, then cancel
				deadline := time.Now().Add(5 * time.Second)
				last := int64(-1)
				for time.Now().Before(deadline) {
					c := mon.count.Load()
					st, _ := interpGoroutines()
					if c == last && c > 0 && len(st) > 0 && parked(st) {
						break
					}
					last = c
					time.Sleep(300 * time.Microsecond)
				}
			default:
				select {
				case <-mon.reached:
					settle(2 * time.Second)
				case err = <-ret:
					done = true
				case <-time.After(20 * time.Second):
				}
			}
			cancel()
			if !done {
				select {
				case err = <-ret:
				case <-time.After(20 * time.Second):
					err = fmt.Errorf("did not return")
				}
			}
			mon.post.Store(true)
			close(mon.gate)
			left, _ := waitQuiet(2 * time.Second)
			interp.VerifSetStep(nil, false)
			r.Got = fmt.Sprint(err)
			r.Want = "context canceled"
			r.OK = true // the behaviour of the cancelled call itself is C09's subject
			r.Note = fmt.Sprintf("ops=%d leftover=%d", mon.count.Load(), len(left))
			lastCancel = op.CK
			cancels++
			evalSince = false
		case "plain":
			v, err := i.Eval("1 + 1")
			r.Got, r.Want = fmt.Sprint(v, err), "2 <nil>"
			r.OK = r.Got == r.Want
			r.Cell = fmt.Sprintf("C10/plain-eval/after=%s/cancels=%d", lastCancel, minInt(cancels, 2))
			evalSince = true
		case "eval":
			d := &c10DefList[op.Def]
			r.Want = fmt.Sprint(d.want(st))
			v, err := func() (v reflect.Value, err error) {
				defer func() {
					if x := recover(); x != nil {
						err = fmt.Errorf("HOSTPANIC %v", x)
					}
				}()
				v, err = i.Eval(d.expr)
				if err == nil && d.name == "void-func" {
					return i.Eval("Side")
				}
				return v, err
			}()
			if err != nil {
				r.Got = "error: " + err.Error()
			} else {
				r.Got = fmt.Sprint(v)
			}
			r.OK = r.Got == r.Want
			if !r.OK {
				c10Resync(st, d.name)
			}
			mode := "eval-first"
			if evalSince {
				mode = "eval-later"
			}
			r.Cell = fmt.Sprintf("C10/%s/%s/after=%s/cancels=%d", d.name, mode, lastCancel, minInt(cancels, 2))
			evalSince = true
		case "host":
			d := &c10DefList[op.Def]
			r.Want = fmt.Sprint(d.want(st))
			r.Got = callHost(host[op.Def], d.args)
			r.OK = r.Got == r.Want
			if !r.OK {
				c10Resync(st, d.name)
			}
			mode := "host-before-eval"
			if evalSince {
				mode = "host-after-eval"
			}
			r.Cell = fmt.Sprintf("C10/%s/%s/after=%s/cancels=%d", d.name, mode, lastCancel, minInt(cancels, 2))
		}
		if cancels == 0 && r.Cell != "" {
			r.Cell = strings.Replace(r.Cell, "after=/cancels=0", "after=none/cancels=0", 1)
		}
		res = append(res, r)
	}
	return res
}

func minInt(a, b int) int {
	if a < b {
		return a
	}
	return b
}

func init() {
	checks["C10"] = checkC10
	core.ChildModes["c10"] = func(c *core.Case) *core.Result {
		var hists [][]c10Op
		json.Unmarshal([]byte(c.Params["histories"]), &hists)
		var all [][]c10OpRes
		for _, h := range hists {
			t0 := time.Now()
			if os.Getenv("C10_TRACE") != "" {
				hb, _ := json.Marshal(h)
				fmt.Fprintf(os.Stderr, "H %s\n", hb)
			}
			hr := c10Run(h)
			if os.Getenv("C10_TRACE") != "" {
				fmt.Fprintf(os.Stderr, "  took %dms\n", time.Since(t0).Milliseconds())
			}
			if d := time.Since(t0); d > 1500*time.Millisecond && len(hr) > 0 {
				hr[0].Note += fmt.Sprintf(" SLOW %dms", d.Milliseconds())
			}
			all = append(all, hr)
		}
		b, _ := json.Marshal(all)
		return &core.Result{Data: map[string]string{"results": string(b)}}
	}
}

func checkC10(r *core.Run) {
	r.Rule = "history = definitions; function values handed to the host; then a sequence over {cancelled EvalWithContext (busy loop frozen at operation k, goroutines, blocked receive/select, expired context, loop calling the definitions), Eval of a call of a definition, direct host call of a function value obtained before, plain Eval, definition of a new counter closure (possibly by the evaluation right before a cancelled one) and its use through Eval or through a function value handed to the host afterwards}; every use is compared with a model of the definition (constant or counter). cell = (definition kind, use mode, kind of the last cancelled evaluation, number of cancellations so far (1, 2+)); non-trivial = a use executed after at least one cancellation"
	r.Assume = []string{"the cancelled call itself is C09's subject and is not judged here", "cancellation is produced deterministically through the verif step hook (freeze at operation k) or by waiting until the evaluation is parked"}
	var hists [][]c10Op
	cancelVariants := []c10Op{}
	for _, ck := range []string{"busy", "busy-work", "callsdef", "goroutines"} {
		ks := []int64{3, 17, 60}
		if r.Thorough() {
			ks = []int64{1, 2, 3, 5, 8, 13, 17, 21, 29, 34, 47, 60, 99, 150, 400}
		}
		for _, k := range ks {
			cancelVariants = append(cancelVariants, c10Op{Kind: "cancel", CK: ck, K: k})
		}
	}
	for _, ck := range []string{"blocked", "blocked-sel", "expired"} {
		cancelVariants = append(cancelVariants, c10Op{Kind: "cancel", CK: ck})
	}
	// enumerated part: one or two cancellations, then one use of one definition in one mode
	for _, cv := range cancelVariants {
		for d := range c10DefList {
			for _, mode := range []string{"eval", "host", "plain-host", "plain-eval"} {
				for _, two := range []bool{false, true} {
					h := []c10Op{cv}
					if two {
						if !r.Thorough() && (d+int(cv.K))%3 != int(r.Seed%3) {
							continue
						}
						h = append(h, c10Op{Kind: "cancel", CK: "busy", K: 9})
					}
					switch mode {
					case "eval":
						h = append(h, c10Op{Kind: "eval", Def: d})
					case "host":
						h = append(h, c10Op{Kind: "host", Def: d})
					case "plain-host":
						h = append(h, c10Op{Kind: "plain"}, c10Op{Kind: "host", Def: d})
					case "plain-eval":
						h = append(h, c10Op{Kind: "plain"}, c10Op{Kind: "eval", Def: d})
					}
					hists = append(hists, h)
				}
			}
		}
	}
	// a closure defined by the evaluation right before the cancelled one (or one evaluation earlier), then used
	for _, cv := range cancelVariants {
		for _, use := range []string{"lateuse", "latehost"} {
			hists = append(hists, []c10Op{{Kind: "latedef"}, cv, {Kind: use}, {Kind: use}})
			if r.Thorough() || cv.K%2 == int64(r.Seed%2) {
				hists = append(hists, []c10Op{{Kind: "latedef"}, {Kind: "plain"}, cv, {Kind: use}})
				hists = append(hists, []c10Op{cv, {Kind: "latedef"}, cv, {Kind: use}, {Kind: "latedef"}, {Kind: use}})
			}
		}
	}
	// seeded longer histories
	nRand := 400
	if r.Thorough() {
		nRand = 6000
	}
	rg := core.NewRng(r.Seed).Sub("C10")
	for n := 0; n < nRand; n++ {
		var h []c10Op
		h = append(h, cancelVariants[rg.Intn(len(cancelVariants))])
		for len(h) < 3+rg.Intn(5) {
			switch rg.Intn(8) {
			case 6:
				h = append(h, c10Op{Kind: "latedef"})
			case 7:
				h = append(h, c10Op{Kind: core.Pick(rg, []string{"lateuse", "latehost"})})
			case 0:
				h = append(h, cancelVariants[rg.Intn(len(cancelVariants))])
			case 1:
				h = append(h, c10Op{Kind: "plain"})
			case 2, 3:
				h = append(h, c10Op{Kind: "eval", Def: rg.Intn(len(c10DefList))})
			default:
				h = append(h, c10Op{Kind: "host", Def: rg.Intn(len(c10DefList))})
			}
		}
		hists = append(hists, h)
	}
	// distribute over children
	var cases []core.Case
	const per = 40
	for i := 0; i < len(hists); i += per {
		j := i + per
		if j > len(hists) {
			j = len(hists)
		}
		b, _ := json.Marshal(hists[i:j])
		cases = append(cases, core.Case{ID: fmt.Sprintf("C10-batch-%d", i/per), Mode: "c10", TimeoutMs: 600000, Params: map[string]string{"histories": string(b)}})
	}
	pool := newPool(r)
	results := pool.RunCases(cases)
	uses, cancels, slow := 0, 0, 0
	for ci, res := range results {
		if res.Crash || res.Timeout || res.HostPanic != "" {
			r.Fail(fmt.Sprintf("C10/batch-%d/child", ci), map[string]any{"diff": "child ended abnormally: " + res.Ending() + " " + res.CrashMsg + res.HostPanic, "histories": cases[ci].Params["histories"]})
			continue
		}
		var all [][]c10OpRes
		json.Unmarshal([]byte(res.Data["results"]), &all)
		for hi, hr := range all {
			if len(hr) > 0 && strings.Contains(hr[0].Note, "SLOW") {
				slow++
				if slow <= 8 {
					b, _ := json.Marshal(hr)
					fmt.Printf("SLOW-HISTORY %s\n", b)
				}
			}
			for _, o := range hr {
				if o.Setup {
					r.Fail("C10/setup", map[string]any{"diff": o.Note})
					continue
				}
				if o.Op.Kind == "cancel" {
					cancels++
					continue
				}
				uses++
				if o.OK {
					r.Ok(o.Cell)
					if uses%97 == 0 {
						r.Sample(map[string]any{"cell": o.Cell, "history": hr})
					}
					continue
				}
				r.Fail(o.Cell, map[string]any{"diff": fmt.Sprintf("%s: got %s, model %s", o.Cell, o.Got, o.Want), "history": hists[ci*per+hi], "observed": hr})
			}
		}
	}
	r.Extra["histories"] = len(hists)
	r.Extra["uses_after_cancellation"] = uses
	r.Extra["cancelled_evaluations"] = cancels
	r.Extra["definition_kinds"] = len(c10DefList)
}

// c10Resync: a failed use of a stateful definition is assumed not to have executed (the observed
// failure mode is "nothing ran, zero values returned"), so the model takes back its step; otherwise
// one failure would cascade into every later use of that definition.
func c10Resync(st *c10State, name string) {
	switch name {
	case "method-stateful":
		st.bump--
	case "stateful-closure":
		st.counter--
	case "void-func":
		st.side -= 5
	}
}

// vcheck c10debug --replay witness.json : runs the histories of a timed-out batch one per child (development aid)
func init() {
	checks["c10debug"] = func(r *core.Run) {
		b, _ := os.ReadFile(r.Replay)
		var w map[string]any
		json.Unmarshal(b, &w)
		var hists [][]c10Op
		json.Unmarshal([]byte(w["histories"].(string)), &hists)
		var cases []core.Case
		for i, h := range hists {
			hb, _ := json.Marshal([][]c10Op{h})
			cases = append(cases, core.Case{ID: fmt.Sprint(i), Mode: "c10", TimeoutMs: 30000, Params: map[string]string{"histories": string(hb)}})
		}
		if os.Getenv("C10_TRACE") != "" {
			os.Setenv("VERIF_CHILD_STDERR", "1")
			cases = []core.Case{{ID: "all", Mode: "c10", TimeoutMs: 200000, Params: map[string]string{"histories": w["histories"].(string)}}}
			x := newPool(r).RunCases(cases)[0]
			fmt.Println(x.Ending(), x.CrashMsg)
			os.Exit(0)
		}
		res := newPool(r).RunCases(cases)
		for i, x := range res {
			if x.Timeout || x.Crash {
				hb, _ := json.Marshal(hists[i])
				fmt.Println("STUCK", x.Ending(), string(hb))
			}
		}
		os.Exit(0)
	}
}
