package main

import (
	"encoding/json"
	"fmt"
	"os"
	"strings"

	"verifharness/core"
)

// vcheck shrink --replay witness.json : greedy chunk deletion on the witness program ("source"), keeping
// candidates that still compile with gc and still diverge under yaegi. Development aid for triage; prints
// the shrunk program.
func init() {
	checks["shrinkdebug"] = func(r *core.Run) {
		b, err := os.ReadFile(r.Replay)
		if err != nil {
			fmt.Println(err)
			os.Exit(2)
		}
		var w map[string]any
		json.Unmarshal(b, &w)
		src, _ := w["source"].(string)
		if strings.HasSuffix(r.Replay, ".go") {
			src = string(b)
		}
		pool := newPool(r)
		diverges := func(s string) bool {
			n := core.NativeEnv(map[string]string{"main.go": s}, r.Work, nil, "")
			if n.BuildErr != "" || n.Timeout {
				return false
			}
			y := pool.RunCases([]core.Case{{ID: "s", Mode: "eval", Src: s, TimeoutMs: 20000}})[0]
			return y.Out != n.Out || y.Ending() != n.Ending()
		}
		if !diverges(src) {
			fmt.Println("witness does not diverge (any more)")
			os.Exit(0)
		}
		lines := strings.Split(src, "\n")
		// only lines after the cell runtime (first "func c" or "func h_") are candidates
		start := 0
		for i, l := range lines {
			if strings.HasPrefix(l, "func c") || strings.HasPrefix(l, "func h_") || strings.HasPrefix(l, "// CELL") {
				start = i
				break
			}
		}
		changed := true
		for rounds := 0; changed && rounds < 6; rounds++ {
			changed = false
			for i := len(lines) - 1; i > start; i-- {
				if i >= len(lines) {
					continue
				}
				l := strings.TrimSpace(lines[i])
				if l == "" || l == "}" || strings.HasPrefix(l, "func ") || strings.HasPrefix(l, "} else") || strings.HasPrefix(l, "case ") || l == "default:" {
					continue
				}
				end := i
				if i+1 < len(lines) && strings.HasPrefix(strings.TrimSpace(lines[i+1]), "_ = ") && (strings.Contains(l, ":=") || strings.HasPrefix(l, "var ")) {
					end = i + 1 // a declaration and its "_ = v" use go together
				}
				if strings.HasSuffix(l, "{") {
					depth := 0
					for j := i; j < len(lines); j++ {
						depth += strings.Count(lines[j], "{") - strings.Count(lines[j], "}")
						if depth == 0 {
							end = j
							break
						}
					}
				}
				cand := append(append([]string{}, lines[:i]...), lines[end+1:]...)
				if diverges(strings.Join(cand, "\n")) {
					lines = cand
					changed = true
				}
			}
		}
		out := strings.Join(lines[start:], "\n")
		fmt.Println(out)
		os.Exit(0)
	}
}
