package main

import (
	"fmt"
	"os"
	"sort"
	"strings"

	"verifharness/core"
)

// C15: package-level variables initialise in dependency order (through function and method bodies, across
// files), then init functions in source order, then main; imported packages first, exactly once.
//
// A program is a set of packages (main + 0..3 libraries forming a DAG). Inside a package every entity (variable,
// function, method) has a hidden rank; it refers only to entities of lower rank, so the reference graph is acyclic
// and gc accepts the program, while the declaration order (and the file an entity lives in) is independent of
// the rank. Every variable initialiser, init function and main logs itself; main finally dumps every variable.

type c15Ent struct {
	Kind string // var | func | method | pmethod
	Name string
	Rank int
	Refs []string // expressions of type int
	Id   int
}

type c15Pkg struct {
	Name    string // "main" or "l<k>"
	Imports []int  // indices of library packages
	Files   []string
}

type c15Prog struct {
	Files   map[string]string // relative to the module / GOPATH src/ref root
	Pkgs    []string          // package names, libraries first, main last
	Imports map[string][]string
	Single  bool // one package, one file
	MainSrc string
}

const c15Universe = 6000

func c15Gen(idx uint64) *c15Prog {
	rg := core.NewRng(idx).Sub("C15")
	p := &c15Prog{Files: map[string]string{}, Imports: map[string][]string{}}
	nlib := 0
	switch idx % 3 {
	case 0: // single package, single file
		p.Single = true
	case 1: // single package, several files
	default:
		nlib = 1 + rg.Intn(3)
	}
	type pkgInfo struct {
		name string
		vars []string // exported variable names (libraries)
		fns  []string
	}
	var libs []pkgInfo
	for k := 0; k <= nlib; k++ {
		isMain := k == nlib
		name := fmt.Sprintf("l%d", k)
		if isMain {
			name = "main"
		}
		// imports
		var imps []int
		for j := 0; j < len(libs); j++ {
			if rg.Chance(1, 2) || (isMain && j == len(libs)-1) {
				imps = append(imps, j)
			}
		}
		for _, j := range imps {
			p.Imports[name] = append(p.Imports[name], libs[j].name)
		}
		nfiles := 1
		if !p.Single {
			nfiles = 1 + rg.Intn(3)
			if idx%3 == 1 && nfiles == 1 {
				nfiles = 2
			}
		}
		vp, fp := "v", "g"
		if !isMain {
			vp, fp = "V", "G"
		}
		nv, nf, nm := 3+rg.Intn(6), rg.Intn(5), rg.Intn(3)
		var ents []*c15Ent
		for i := 0; i < nv; i++ {
			ents = append(ents, &c15Ent{Kind: "var", Name: fmt.Sprintf("%s%d", vp, i)})
		}
		for i := 0; i < nf; i++ {
			ents = append(ents, &c15Ent{Kind: "func", Name: fmt.Sprintf("%s%d", fp, i)})
		}
		for i, nfv := 0, rg.Intn(3); i < nfv; i++ {
			k := "fvar" // function-typed variable initialised with a declared function
			if rg.Bool() {
				k = "flit" // function-typed variable initialised with a function literal
			}
			ents = append(ents, &c15Ent{Kind: k, Name: fmt.Sprintf("%sf%d", vp, i)})
		}
		for i := 0; i < nm; i++ {
			k := "method"
			if rg.Chance(1, 3) {
				k = "pmethod"
			}
			ents = append(ents, &c15Ent{Kind: k, Name: fmt.Sprintf("M%d", i)})
		}
		perm := make([]int, len(ents))
		for i := range perm {
			perm[i] = i
		}
		core.Shuffle(rg, perm)
		for i, e := range ents {
			e.Rank = perm[i]
			e.Id = i
		}
		byRank := make([]*c15Ent, len(ents))
		for _, e := range ents {
			byRank[e.Rank] = e
		}
		refExpr := func(t *c15Ent) string {
			switch t.Kind {
			case "var":
				switch rg.Intn(16) {
				case 0:
					return fmt.Sprintf("*(&%s)", t.Name)
				case 1:
					return fmt.Sprintf("S{%s}.F", t.Name)
				case 2:
					return fmt.Sprintf("map[int]int{1: %s}[1]", t.Name)
				case 3:
					return fmt.Sprintf("[2]int{%s, 0}[0]", t.Name)
				case 4:
					return fmt.Sprintf("func() int { return %s }()", t.Name)
				case 5:
					return fmt.Sprintf("apply(func() int { return %s })", t.Name)
				case 6:
					return fmt.Sprintf("[]int{0, %s}[1]", t.Name)
				}
				return t.Name
			case "fvar", "flit":
				if rg.Chance(1, 4) {
					return fmt.Sprintf("apply(%s)", t.Name)
				}
				return t.Name + "()"
			case "func":
				switch rg.Intn(6) {
				case 0:
					return fmt.Sprintf("func() int { return %s() }()", t.Name)
				case 1:
					return fmt.Sprintf("apply(%s)", t.Name)
				default:
					return t.Name + "()"
				}
			case "method":
				switch rg.Intn(8) {
				case 7:
					// a call through an interface value is not a reference to the method
					return fmt.Sprintf("via%s(T{})", t.Name)
				case 0:
					return fmt.Sprintf("apply(T{}.%s)", t.Name)
				case 1:
					return fmt.Sprintf("T.%s(T{})", t.Name)
				default:
					return fmt.Sprintf("T{}.%s()", t.Name)
				}
			default:
				if rg.Chance(1, 3) {
					return fmt.Sprintf("apply((&T{}).%s)", t.Name)
				}
				return fmt.Sprintf("(&T{}).%s()", t.Name)
			}
		}
		for _, e := range byRank {
			n := rg.Intn(4)
			if e.Rank == 0 {
				n = 0
			}
			for q := 0; q < n; q++ {
				if len(imps) > 0 && rg.Chance(1, 4) {
					l := libs[imps[rg.Intn(len(imps))]]
					if len(l.fns) > 0 && rg.Bool() {
						e.Refs = append(e.Refs, l.name+"."+core.Pick(rg, l.fns)+"()")
					} else {
						e.Refs = append(e.Refs, l.name+"."+core.Pick(rg, l.vars))
					}
					continue
				}
				t := byRank[rg.Intn(e.Rank)]
				e.Refs = append(e.Refs, refExpr(t))
			}
		}
		// render declarations, in an order independent of the ranks, spread over the files
		decls := make([][]string, nfiles)
		order := make([]int, len(ents))
		for i := range order {
			order[i] = i
		}
		core.Shuffle(rg, order)
		sum := func(e *c15Ent, base string) string {
			s := base
			for i, r := range e.Refs {
				s += fmt.Sprintf(" + %d*%s", i+2, r)
			}
			return s
		}
		skip := map[int]bool{}
		var varNames []string
		for _, oi := range order {
			e := ents[oi]
			if skip[oi] {
				continue
			}
			f := rg.Intn(nfiles)
			tag := fmt.Sprintf("%s.%s", name, e.Name)
			switch e.Kind {
			case "var":
				varNames = append(varNames, e.Name)
				base := fmt.Sprintf("lg(%q, %d)", tag, 10+e.Id)
				switch c := rg.Intn(10); {
				case c == 0 && len(e.Refs) == 0:
					decls[f] = append(decls[f], fmt.Sprintf("var %s int", e.Name))
				case c == 1:
					decls[f] = append(decls[f], fmt.Sprintf("var %s int = %s", e.Name, sum(e, base)))
				case c == 2:
					// two variables from one two-valued call
					pn := fmt.Sprintf("pair%s", e.Name)
					x := e.Name + "x"
					varNames = append(varNames, x)
					decls[f] = append(decls[f], fmt.Sprintf("var %s, %s = %s()", e.Name, x, pn))
					g := rg.Intn(nfiles)
					decls[g] = append(decls[g], fmt.Sprintf("func %s() (int, int) { return %s, %d }", pn, sum(e, base), 7+e.Id))
				case c == 3:
					// two variables, two initialisers in one declaration
					var o *c15Ent
					for _, oj := range order {
						if !skip[oj] && oj != oi && ents[oj].Kind == "var" && !contains15(varNames, ents[oj].Name) {
							o = ents[oj]
							break
						}
					}
					if o == nil {
						decls[f] = append(decls[f], fmt.Sprintf("var %s = %s", e.Name, sum(e, base)))
						break
					}
					skip[o.Id] = true
					varNames = append(varNames, o.Name)
					decls[f] = append(decls[f], fmt.Sprintf("var %s, %s = %s, %s", e.Name, o.Name, sum(e, base), sum(o, fmt.Sprintf("lg(%q, %d)", name+"."+o.Name, 10+o.Id))))
				case c == 4:
					decls[f] = append(decls[f], fmt.Sprintf("var (\n\t%s = %s\n\t_ = lg(%q, 0)\n)", e.Name, sum(e, base), tag+".blank"))
				default:
					decls[f] = append(decls[f], fmt.Sprintf("var %s = %s", e.Name, sum(e, base)))
				}
			case "func":
				body := fmt.Sprintf("return %s", sum(e, fmt.Sprint(100+e.Id)))
				if rg.Chance(1, 8) && nv > 0 {
					// a local variable shadowing a package variable is not a reference to it
					body = fmt.Sprintf("%s := %d\n\t_ = %s\n\t%s", ents[0].Name, 3, ents[0].Name, body)
					if refsName(e.Refs, ents[0].Name) {
						body = fmt.Sprintf("return %s", sum(e, fmt.Sprint(100+e.Id)))
					}
				}
				decls[f] = append(decls[f], fmt.Sprintf("func %s() int {\n\t%s\n}", e.Name, body))
			case "fvar", "flit":
				varNames = append(varNames, e.Name+"()")
				var target string
				if e.Kind == "fvar" {
					// needs a declared function of lower rank; otherwise falls back to a literal
					for _, o := range byRank[:e.Rank] {
						if o.Kind == "func" {
							target = o.Name
						}
					}
				}
				if target == "" {
					target = fmt.Sprintf("func() int { return %s }", sum(e, fmt.Sprint(400+e.Id)))
				}
				decls[f] = append(decls[f], fmt.Sprintf("var %s = logf(%q, %s)", e.Name, tag, target))
			case "method":
				decls[f] = append(decls[f], fmt.Sprintf("type I%s interface{ %s() int }\n\nfunc via%s(i I%s) int { return i.%s() }", e.Name, e.Name, e.Name, e.Name, e.Name))
				decls[f] = append(decls[f], fmt.Sprintf("func (T) %s() int {\n\treturn %s\n}", e.Name, sum(e, fmt.Sprint(200+e.Id))))
			case "pmethod":
				decls[f] = append(decls[f], fmt.Sprintf("func (*T) %s() int {\n\treturn %s\n}", e.Name, sum(e, fmt.Sprint(300+e.Id))))
			}
		}
		// init functions
		ninit := 0
		for f := 0; f < nfiles; f++ {
			for q := rg.Intn(3); q > 0; q-- {
				body := fmt.Sprintf("lg(%q, 0)", fmt.Sprintf("%s.init%d", name, ninit))
				if v := core.Pick(rg, varNames); rg.Bool() && !strings.HasSuffix(v, "()") {
					body += fmt.Sprintf("\n\t%s += %d", v, 1000*(ninit+1))
				}
				pos := rg.Intn(len(decls[f]) + 1)
				d := fmt.Sprintf("func init() {\n\t%s\n}", body)
				decls[f] = append(decls[f][:pos], append([]string{d}, decls[f][pos:]...)...)
				ninit++
			}
		}
		// support declarations live in a random file
		sup := []string{
			"type T struct{}",
			"type S struct{ F int }",
			"func logf(s string, f func() int) func() int {\n\tfmt.Println(\"init\", s)\n\treturn f\n}",
			"func apply(f func() int) int { return f() }",
			fmt.Sprintf("func lg(s string, v int) int {\n\tfmt.Println(\"init\", s)\n\treturn v\n}"),
		}
		sort.Strings(varNames)
		var dump []string
		for _, v := range varNames {
			dump = append(dump, fmt.Sprintf("\tfmt.Println(%q, %s)", name+"."+v, v))
		}
		if isMain {
			body := "\tfmt.Println(\"main starts\")\n"
			for _, j := range imps {
				body += fmt.Sprintf("\t%s.Dump()\n", libs[j].name)
			}
			sup = append(sup, "func main() {\n"+body+strings.Join(dump, "\n")+"\n}")
		} else {
			sup = append(sup, "func Dump() {\n"+strings.Join(dump, "\n")+"\n}")
		}
		for _, s := range sup {
			f := rg.Intn(nfiles)
			pos := rg.Intn(len(decls[f]) + 1)
			decls[f] = append(decls[f][:pos], append([]string{s}, decls[f][pos:]...)...)
		}
		for f := 0; f < nfiles; f++ {
			src := "package " + name + "\n\n"
			body := strings.Join(decls[f], "\n\n") + "\n"
			var imports []string
			if strings.Contains(body, "fmt.") {
				imports = append(imports, `"fmt"`)
			}
			for _, j := range imps {
				if strings.Contains(body, libs[j].name+".") {
					imports = append(imports, fmt.Sprintf("%q", "ref/"+libs[j].name))
				}
			}
			if len(imports) > 0 {
				src += "import (\n\t" + strings.Join(imports, "\n\t") + "\n)\n\n"
			}
			src += body
			dir := name + "/"
			if isMain {
				dir = "app/"
			}
			fn := fmt.Sprintf("%s%c.go", dir, 'a'+f)
			p.Files[fn] = src
			if isMain && nfiles == 1 {
				p.MainSrc = src
			}
		}
		// every import of the package must be used by at least one file, and only files using it import it
		for _, j := range imps {
			used := false
			for fn, src := range p.Files {
				if strings.HasPrefix(fn, map[bool]string{true: "app/", false: name + "/"}[isMain]) && strings.Contains(src, libs[j].name+".") {
					used = true
				}
			}
			if !used {
				// drop the import edge: nothing refers to the package
				var keep []string
				for _, x := range p.Imports[name] {
					if x != libs[j].name {
						keep = append(keep, x)
					}
				}
				p.Imports[name] = keep
			}
		}
		pi := pkgInfo{name: name}
		for _, e := range ents {
			if e.Kind == "var" {
				pi.vars = append(pi.vars, e.Name)
			}
			if e.Kind == "func" {
				pi.fns = append(pi.fns, e.Name)
			}
		}
		libs = append(libs, pi)
		p.Pkgs = append(p.Pkgs, name)
	}
	return p
}

func contains15(a []string, s string) bool {
	for _, x := range a {
		if x == s {
			return true
		}
	}
	return false
}

func refsName(refs []string, n string) bool {
	for _, r := range refs {
		if r == n {
			return true
		}
	}
	return false
}

// c15Project splits an initialisation log by package ("init <pkg>.<what>" lines) and returns the remaining lines.
func c15Project(out string) (per map[string][]string, order []string, rest []string) {
	per = map[string][]string{}
	for _, l := range strings.Split(out, "\n") {
		if strings.HasPrefix(l, "init ") {
			w := strings.TrimPrefix(l, "init ")
			pk := w
			if i := strings.Index(w, "."); i > 0 {
				pk = w[:i]
			}
			per[pk] = append(per[pk], w)
			order = append(order, pk)
			continue
		}
		rest = append(rest, l)
	}
	return
}

func c15Native(p *c15Prog, work string) *core.NativeResult {
	files := map[string]string{"go.mod": "module ref\n\ngo 1.22\n"}
	for k, v := range p.Files {
		files[k] = v
	}
	// the native runner builds the package in the module root: a tiny main that is the app package itself is not
	// possible, so the app directory is built through a build script file name convention: see NativeEnvPkg
	return core.NativePkg(files, "./app", work)
}

func init() {
	checks["C15"] = checkC15
	checks["c15debug"] = func(r *core.Run) {
		var idx uint64
		fmt.Sscan(os.Getenv("VERIF_C15_IDX"), &idx)
		p := c15Gen(idx)
		var names []string
		for k := range p.Files {
			names = append(names, k)
		}
		sort.Strings(names)
		for _, k := range names {
			fmt.Printf("=== %s\n%s\n", k, p.Files[k])
		}
		nat := c15Native(p, r.Work)
		fmt.Printf("--- native (build err %q)\n%s\n", nat.BuildErr, nat.Out)
		pool := newPool(r)
		for _, res := range pool.RunCases(c15Cases(idx, p)) {
			fmt.Printf("--- yaegi %s err=%s %s panic=%s\n%s\n", res.ID, res.ErrClass, res.ErrText, res.HostPanic, res.Out)
		}
		os.Exit(0)
	}
}

func c15Cases(idx uint64, p *c15Prog) []core.Case {
	files := map[string]string{}
	for k, v := range p.Files {
		files["gp/src/ref/"+k] = v
	}
	id := fmt.Sprintf("C15/p%d", idx)
	cs := []core.Case{{ID: id + "/dir", Mode: "evalpath", Path: "./gp/src/ref/app", Files: files, GoPath: "gp", TimeoutMs: 60000}}
	if p.MainSrc != "" {
		lib := map[string]string{}
		for k, v := range files {
			if !strings.HasPrefix(k, "gp/src/ref/app/") {
				lib[k] = v
			}
		}
		if len(lib) == 0 {
			lib["gp/src/ref/empty/e.go"] = "package empty\n"
		}
		cs = append(cs, core.Case{ID: id + "/eval", Mode: "eval", Src: p.MainSrc, Files: lib, GoPath: "gp", TimeoutMs: 60000})
	}
	return cs
}

func checkC15(r *core.Run) {
	r.Rule = "cell = (generated program, way of running it). A program is main + 0..3 library packages (import DAG), each of 1..3 files, with package-level variables, functions and methods whose reference graph is acyclic by construction (hidden ranks) and independent of declaration order and file placement: direct references, references through function bodies, function literals, function values, method calls, method values and method expressions (value and pointer receivers), two-valued calls, two-initialiser declarations, blank variables, locals shadowing a package variable, references to imported packages' variables and functions; 0..2 init functions per file, some mutating variables. Every variable initialiser, init and main logs itself and main dumps every variable of every package. Reference: the same tree built by gc (module ref). Verdict: per package, the log of that package equals gc's; for every import edge the imported package's log ends before the importer's begins; the remaining output (main starts, dumped values) equals gc's; no error. Ways: EvalPath on the main package directory; Eval of the source text when main is a single file. non-trivial = the package has at least one variable whose initialiser refers to another entity"
	r.Assume = []string{"gc (installed toolchain) implements the specified order", "the relative order of independent imported packages is not compared (unspecified before go1.21)"}
	n := 300
	if r.Thorough() {
		n = c15Universe
	}
	if os.Getenv("VERIF_C15_ALL") != "" {
		n = c15Universe
	}
	start := (r.Seed * 4099) % c15Universe
	pool := newPool(r)
	type job struct {
		idx uint64
		p   *c15Prog
		nat *core.NativeResult
	}
	jobs := make([]*job, n)
	var cases []core.Case
	for k := 0; k < n; k++ {
		idx := (start + uint64(k)) % c15Universe
		jobs[k] = &job{idx: idx, p: c15Gen(idx)}
		cases = append(cases, c15Cases(idx, jobs[k].p)...)
	}
	done := make(chan int, n)
	for k := range jobs {
		go func(j *job) {
			j.nat = c15Native(j.p, r.Work)
			done <- 1
		}(jobs[k])
	}
	results := map[string]*core.Result{}
	for _, res := range pool.RunCases(cases) {
		results[res.ID] = res
	}
	for range jobs {
		<-done
	}
	c15Fixed(r, pool)
	logLines := 0
	for _, j := range jobs {
		id := fmt.Sprintf("C15/p%d", j.idx)
		if j.nat.BuildErr != "" || j.nat.Exit != 0 || j.nat.Timeout {
			r.Inconclusive(id, "reference build or run failed: "+firstLines2(j.nat.BuildErr+j.nat.Stderr, 3))
			continue
		}
		nper, _, nrest := c15Project(j.nat.Out)
		for _, way := range []string{"dir", "eval"} {
			res := results[id+"/"+way]
			if res == nil {
				continue
			}
			cell := fmt.Sprintf("C15/%s/p%d/%s", c15Class(j.idx), j.idx, way)
			var why []string
			if res.HostPanic != "" {
				why = append(why, "Go panic: "+firstLines2(res.HostPanic, 2))
			}
			if res.ErrClass != "" {
				why = append(why, "error: "+res.ErrClass+" "+firstLines2(res.ErrText, 3))
			}
			yper, yorder, yrest := c15Project(res.Out)
			for _, pk := range j.p.Pkgs {
				a, b := strings.Join(nper[pk], " "), strings.Join(yper[pk], " ")
				logLines += len(yper[pk])
				if a != b {
					why = append(why, fmt.Sprintf("package %s initialised in the order [%s], gc: [%s]", pk, b, a))
				}
			}
			// imported before importer
			first, last := map[string]int{}, map[string]int{}
			for i, pk := range yorder {
				if _, ok := first[pk]; !ok {
					first[pk] = i
				}
				last[pk] = i
			}
			for pk, imps := range j.p.Imports {
				for _, q := range imps {
					fp, ok1 := first[pk]
					lq, ok2 := last[q]
					if ok1 && ok2 && lq > fp {
						why = append(why, fmt.Sprintf("package %s (imported by %s) was still initialising after %s had started", q, pk, pk))
					}
				}
			}
			if strings.Join(nrest, "\n") != strings.Join(yrest, "\n") {
				why = append(why, "values seen by main differ: "+firstDiffText(strings.Join(nrest, "\n"), strings.Join(yrest, "\n")))
			}
			if len(why) > 0 {
				r.Fail(cell, map[string]any{"tags": c15Tag(j.p, why), "diff": strings.Join(why, "; "), "files": j.p.Files, "native": j.nat.Out, "yaegi": res.Out})
				continue
			}
			r.Ok(cell)
			if j.idx%53 == 0 {
				r.Sample(map[string]any{"cell": cell, "packages": j.p.Pkgs, "log": yorder})
			}
		}
	}
	r.Extra["programs"] = n
	r.Extra["init_log_lines_compared"] = logLines
	b, h := core.NativeStats()
	r.Extra["native_builds"] = b
	r.Extra["native_cache_hits"] = h
}

func c15Class(idx uint64) string {
	return []string{"single-file", "multi-file", "multi-package"}[idx%3]
}

func c15Tag(p *c15Prog, why []string) string {
	return ""
}

// fixed shapes (both tiers): helpers shared by several initialisers, reached directly and through other
// helpers; the whole output is compared with the gc binary of the same source
var c15FixedProgs = []struct{ name, src string }{
	{"diamond-over-helpers", `package main

import "fmt"

var a = h("a") + f("a")
var b = f("b")
var x = mk("x", 7)

func mk(n string, v int) int { fmt.Println("init", n); return v }
func h(s string) int        { fmt.Println("h from", s, "x =", x); return x }
func f(s string) int        { return h(s) + 1 }
func main()                 { fmt.Println("main", a, b, x) }
`},
	{"mutual-recursion-shared", `package main

import "fmt"

var p = even(2)
var q = odd(3)
var base = mk("base", 1)

func mk(n string, v int) int { fmt.Println("init", n); return v }
func even(n int) int {
	if n == 0 {
		return base
	}
	return odd(n - 1)
}
func odd(n int) int {
	if n == 0 {
		return base + 10
	}
	return even(n - 1)
}
func main() { fmt.Println("main", p, q, base) }
`},
	{"shared-helper-three-users", `package main

import "fmt"

var u1 = g1() + g2()
var u2 = g2()
var u3 = g1()
var y1 = mk("y1", 3)
var y2 = mk("y2", 4)

func mk(n string, v int) int { fmt.Println("init", n); return v }
func leaf() int             { fmt.Println("leaf", y1, y2); return y1 + y2 }
func g1() int               { return leaf() + y1 }
func g2() int               { return g1() + leaf() }
func main()                 { fmt.Println("main", u1, u2, u3) }
`},
	{"method-and-closure-share-helper", `package main

import "fmt"

type T struct{ k int }

func (t T) M() int { return helper() + t.k }

var m1 = T{1}.M() + helper()
var m2 = func() int { return T{2}.M() }()
var z = mk("z", 5)

func mk(n string, v int) int { fmt.Println("init", n); return v }
func helper() int           { fmt.Println("helper z =", z); return z }
func main()                 { fmt.Println("main", m1, m2, z) }
`},
}

func c15Fixed(r *core.Run, pool *core.Pool) {
	var cases []core.Case
	for _, fp := range c15FixedProgs {
		cases = append(cases, core.Case{ID: "C15/fixed/" + fp.name, Mode: "eval", Src: fp.src, TimeoutMs: 60000})
	}
	results := pool.RunCases(cases)
	for k, fp := range c15FixedProgs {
		cell := "C15/fixed/" + fp.name
		nat := core.Native(map[string]string{"main.go": fp.src}, r.Work)
		if nat.BuildErr != "" || nat.Exit != 0 || nat.Timeout {
			r.Inconclusive(cell, "reference build or run failed: "+firstLines2(nat.BuildErr+nat.Stderr, 3))
			continue
		}
		res := results[k]
		switch {
		case res.Crash || res.Timeout || res.HostPanic != "":
			r.Fail(cell, map[string]any{"diff": "abnormal ending: " + res.Ending() + " " + firstLines2(res.CrashMsg+res.HostPanic, 3), "src": fp.src})
		case res.ErrClass != "":
			r.Fail(cell, map[string]any{"diff": "error: " + res.ErrClass + " " + firstLines2(res.ErrText, 3), "src": fp.src})
		case res.Out != nat.Out:
			r.Fail(cell, map[string]any{"diff": fmt.Sprintf("output %q, gc: %q", res.Out, nat.Out), "src": fp.src})
		default:
			r.Ok(cell)
		}
	}
}
