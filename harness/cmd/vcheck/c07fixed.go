package main

import (
	"fmt"
	"reflect"

	"verifharness/hostlib"
)

// Fixed C07 cells: interpreted types used as host interfaces, callbacks crossing the boundary twice, function
// values obtained from Eval and kept by the host.

type c07FixedCell struct {
	name string
	src  string
	run  func(ev func(string) (reflect.Value, error)) (got, want string)
}

func c07Str(ev func(string) (reflect.Value, error), expr string) string {
	v, err := ev(expr)
	if err != nil {
		return "error: " + err.Error()
	}
	if v.IsValid() && v.Kind() == reflect.String {
		return v.String()
	}
	return fmt.Sprint(v)
}

const c07TypeT = "type T struct{ n int }\n\nfunc (t T) Name() string { return fmt.Sprint(\"T\", t.n) }\n\nfunc (t T) String() string { return fmt.Sprint(\"S\", t.n) }\n\ntype P struct{ n int }\n\nfunc (p *P) Name() string { p.n++; return fmt.Sprint(\"P\", p.n) }\n\ntype E struct{ code int }\n\nfunc (e E) Error() string { return fmt.Sprint(\"E\", e.code) }\n\n"

var c07FixedCells = []c07FixedCell{
	{"namer-value", c07TypeT, func(ev func(string) (reflect.Value, error)) (string, string) {
		return c07Str(ev, "hostlib.CallName(T{3})"), "name=T3"
	}},
	{"namer-pointer-receiver", c07TypeT + "var p = &P{4}\n", func(ev func(string) (reflect.Value, error)) (string, string) {
		return c07Str(ev, "hostlib.CallName(p) + hostlib.CallName(p) + fmt.Sprint(p.n)"), "name=P5name=P66"
	}},
	{"namer-variadic", c07TypeT, func(ev func(string) (reflect.Value, error)) (string, string) {
		return c07Str(ev, "hostlib.CallNames(T{1}, &P{1}, T{2})"), "T1,P2,T2"
	}},
	{"namer-variadic-spread", c07TypeT, func(ev func(string) (reflect.Value, error)) (string, string) {
		return c07Str(ev, "hostlib.CallNames([]hostlib.Namer{T{7}, T{8}}...)"), "T7,T8"
	}},
	{"stringer", c07TypeT, func(ev func(string) (reflect.Value, error)) (string, string) {
		return c07Str(ev, "hostlib.Stringify(T{5})"), "str=S5"
	}},
	{"error-value", c07TypeT, func(ev func(string) (reflect.Value, error)) (string, string) {
		return c07Str(ev, "hostlib.ErrText(E{9}) + hostlib.ErrText(nil)"), "err=E9no error"
	}},
	{"error-returned-to-host", c07TypeT + "func Fail(c int) error {\n\tif c == 0 {\n\t\treturn nil\n\t}\n\treturn E{c}\n}\n", func(ev func(string) (reflect.Value, error)) (string, string) {
		v, err := ev("Fail")
		if err != nil {
			return err.Error(), ""
		}
		f, ok := v.Interface().(func(int) error)
		if !ok {
			return fmt.Sprintf("type %v", v.Type()), "func(int) error"
		}
		return hostlib.ErrText(f(3)) + hostlib.ErrText(f(0)), "err=E3no error"
	}},
	{"script-callback-crosses-twice", "func Dbl(x int) int { return 2 * x }\n\nfunc Apply(f func(int) int, v int) int { return f(v) + 1 }\n", func(ev func(string) (reflect.Value, error)) (string, string) {
		d, err1 := ev("Dbl")
		a, err2 := ev("Apply")
		if err1 != nil || err2 != nil {
			return fmt.Sprint(err1, err2), ""
		}
		apply, ok1 := a.Interface().(func(func(int) int, int) int)
		dbl, ok2 := d.Interface().(func(int) int)
		if !ok1 || !ok2 {
			return fmt.Sprint(a.Type(), d.Type()), "func types"
		}
		// a script function handed back to the script, and a native one
		return fmt.Sprint(apply(dbl, 4), apply(func(x int) int { return x * 10 }, 4), apply(func(x int) int { return apply(dbl, x) }, 1)), "9 41 4"
	}},
	{"closure-state-kept-by-host", "func Counter() func() int {\n\tc := 0\n\treturn func() int { c++; return c }\n}\n", func(ev func(string) (reflect.Value, error)) (string, string) {
		v, err := ev("Counter")
		if err != nil {
			return err.Error(), ""
		}
		mk, ok := v.Interface().(func() func() int)
		if !ok {
			return fmt.Sprint(v.Type()), "func() func() int"
		}
		c1, c2 := mk(), mk()
		return fmt.Sprint(c1(), c1(), c2(), c1()), "1 2 1 3"
	}},
	{"native-func-in-interface-parameter", "func Call(x interface{}) int { return x.(func(int) int)(5) + 1 }\n", func(ev func(string) (reflect.Value, error)) (string, string) {
		v, err := ev("Call")
		if err != nil {
			return err.Error(), ""
		}
		out := v.Call([]reflect.Value{reflect.ValueOf(func(x int) int { return x * 3 })})
		return fmt.Sprint(out[0]), "16"
	}},
	{"method-value-to-host", c07TypeT, func(ev func(string) (reflect.Value, error)) (string, string) {
		return c07Str(ev, "hostlib.Show(T{6}.Name) + hostlib.Show((&P{1}).Name)"), "func:func() string" + "func:func() string"
	}},
	{"function-literal-result-of-eval", "", func(ev func(string) (reflect.Value, error)) (string, string) {
		v, err := ev("func(x int, s ...string) (int, string) { return x + len(s), fmt.Sprint(s) }")
		if err != nil {
			return err.Error(), ""
		}
		f, ok := v.Interface().(func(int, ...string) (int, string))
		if !ok {
			return fmt.Sprint(v.Type()), "func(int, ...string) (int, string)"
		}
		n, s := f(1, "a", "b")
		n2, s2 := f(5)
		return fmt.Sprintf("%d %s %d %s", n, s, n2, s2), "3 [a b] 5 []"
	}},
	{"struct-pointer-shared-both-ways", "var R = &hostlib.Rec{Name: \"a\", M: map[string]*hostlib.Pt{}}\n\nfunc Touch(r *hostlib.Rec) *hostlib.Rec {\n\tr.M[\"s\"] = &hostlib.Pt{X: 1}\n\treturn r\n}\n", func(ev func(string) (reflect.Value, error)) (string, string) {
		v, err := ev("Touch")
		if err != nil {
			return err.Error(), ""
		}
		touch, ok := v.Interface().(func(*hostlib.Rec) *hostlib.Rec)
		if !ok {
			return fmt.Sprint(v.Type()), "func(*hostlib.Rec) *hostlib.Rec"
		}
		mine := &hostlib.Rec{M: map[string]*hostlib.Pt{}}
		back := touch(mine)
		rv, _ := ev("R")
		theirs, _ := rv.Interface().(*hostlib.Rec)
		theirs.Name = "host-wrote"
		return fmt.Sprint(back == mine, mine.M["s"].X, c07Str(ev, "R.Name")), "true 1host-wrote"
	}},
	{"host-variable-through-use", "", func(ev func(string) (reflect.Value, error)) (string, string) {
		hostlib.Calls = 40
		s := c07Str(ev, "func() string { hostlib.Calls += 2; return fmt.Sprint(hostlib.Calls) }()")
		return fmt.Sprintf("%s %d", s, hostlib.Calls), "42 42"
	}},
	{"host-method-value-receiver", "", func(ev func(string) (reflect.Value, error)) (string, string) {
		return c07Str(ev, "hostlib.Show(hostlib.Pt{X: 1, Y: 2}.Add(hostlib.Pt{X: 10, Y: 20})) + hostlib.Show(hostlib.Pt{X: 1, Y: 2}.Add(hostlib.Pt{}, 5, 6))"),
			hostlib.Show(hostlib.Pt{X: 11, Y: 22}) + hostlib.Show(hostlib.Pt{X: 12, Y: 2})
	}},
	{"host-method-variadic-spread", "var ks = []int{1, 2, 3}\n\nvar p = hostlib.Pt{X: 1}\n", func(ev func(string) (reflect.Value, error)) (string, string) {
		return c07Str(ev, "hostlib.Show(p.Add(hostlib.Pt{Y: 1}, ks...))"), hostlib.Show(hostlib.Pt{X: 7, Y: 1})
	}},
	{"host-method-pointer-receiver", "var p = &hostlib.Pt{X: 2, Y: 3}\n\nvar v = hostlib.Pt{X: 1, Y: 1}\n", func(ev func(string) (reflect.Value, error)) (string, string) {
		return c07Str(ev, "hostlib.Show(p.Scale(3)) + hostlib.Show(p) + hostlib.Show(v.Scale(2).Scale(2)) + hostlib.Show(v)"),
			hostlib.Show(&hostlib.Pt{X: 6, Y: 9}) + hostlib.Show(&hostlib.Pt{X: 6, Y: 9}) + hostlib.Show(&hostlib.Pt{X: 4, Y: 4}) + hostlib.Show(hostlib.Pt{X: 4, Y: 4})
	}},
	{"host-method-value", "var p = hostlib.Pt{X: 1, Y: 1}\n", func(ev func(string) (reflect.Value, error)) (string, string) {
		return c07Str(ev, "func() string { f := p.Add; p.X = 100; return hostlib.Show(f(hostlib.Pt{X: 1})) }()"), hostlib.Show(hostlib.Pt{X: 2, Y: 1})
	}},
	{"host-method-expression", "var p = hostlib.Pt{X: 1, Y: 1}\n", func(ev func(string) (reflect.Value, error)) (string, string) {
		return c07Str(ev, "func() string { g := hostlib.Pt.Add; return hostlib.Show(g(p, hostlib.Pt{}, 1)) }()"), hostlib.Show(hostlib.Pt{X: 2, Y: 1})
	}},
	{"named-type-params-untyped-constants", "const lbl = \"k\"\nconst half = 0.5\nconst yes = true\n", func(ev func(string) (reflect.Value, error)) (string, string) {
		return c07Str(ev, "hostlib.TakeLabel(\"a\") + hostlib.TakeLabel(lbl) + hostlib.TakeLabel(lbl + \"z\") + hostlib.TakeRatio(1.5) + hostlib.TakeRatio(half) + hostlib.TakeRatio(half * 3) + hostlib.TakeRatio(2) + hostlib.TakeFlag(true) + hostlib.TakeFlag(yes) + hostlib.TakeFlag(!yes)"),
			hostlib.TakeLabel("a") + hostlib.TakeLabel("k") + hostlib.TakeLabel("kz") + hostlib.TakeRatio(1.5) + hostlib.TakeRatio(0.5) + hostlib.TakeRatio(1.5) + hostlib.TakeRatio(2) + hostlib.TakeFlag(true) + hostlib.TakeFlag(true) + hostlib.TakeFlag(false)
	}},
	{"named-bool-param-untyped-bool-expression", "const yes = true\n", func(ev func(string) (reflect.Value, error)) (string, string) {
		return c07Str(ev, "hostlib.TakeFlag(yes && true) + hostlib.TakeFlag(!yes || 1 < 2) + hostlib.TakeFlag(1 < 2)"), hostlib.TakeFlag(true) + hostlib.TakeFlag(true) + hostlib.TakeFlag(true)
	}},
	{"named-type-variadic-and-method-untyped-constants", "const lbl = \"k\"\n", func(ev func(string) (reflect.Value, error)) (string, string) {
		return c07Str(ev, "hostlib.Labels(1) + hostlib.Labels(2, \"a\") + hostlib.Labels(3, \"a\", lbl, hostlib.Label(\"c\")) + (&hostlib.Rec{Name: \"r\"}).Tag(\"t\", 0.25) + (&hostlib.Rec{Name: \"s\"}).Tag(lbl, 3)"),
			hostlib.Labels(1) + hostlib.Labels(2, "a") + hostlib.Labels(3, "a", "k", "c") + (&hostlib.Rec{Name: "r"}).Tag("t", 0.25) + (&hostlib.Rec{Name: "s"}).Tag("k", 3)
	}},
	{"named-type-params-variables-and-conversions", "", func(ev func(string) (reflect.Value, error)) (string, string) {
		return c07Str(ev, "func() string { s := \"v\"; f := 2.5; b := false; l := hostlib.Label(s); return hostlib.TakeLabel(l) + hostlib.TakeLabel(hostlib.Label(s+\"w\")) + hostlib.TakeRatio(hostlib.Ratio(f)) + hostlib.TakeFlag(hostlib.Flag(b)) + hostlib.Labels(0, l, l) }()"),
			hostlib.TakeLabel("v") + hostlib.TakeLabel("vw") + hostlib.TakeRatio(2.5) + hostlib.TakeFlag(false) + hostlib.Labels(0, "v", "v")
	}},
	{"host-method-chained-on-result", "", func(ev func(string) (reflect.Value, error)) (string, string) {
		return c07Str(ev, "(&hostlib.Rec{}).SetName(\"a\").SetName(\"b\").Name + hostlib.NewNamer(4).Name() + hostlib.ID(5).Name()"), "bid4id5"
	}},
	{"func-fields-script-to-host", "", func(ev func(string) (reflect.Value, error)) (string, string) {
		return c07Str(ev, "func() string { n := 0; s := hostlib.RunOps(hostlib.Ops{F: func(x int) int { return x + n + 1 }, Done: func() { n = 50 }}, 1); return s + fmt.Sprint(n) + hostlib.RunOps(hostlib.Ops{F: func(x int) int { return x + n }, G: func(s ...string) string { return strings.Join(s, \"/\") }}, 1) }()"), "25051a/b"
	}},
	{"func-fields-host-to-script", "", func(ev func(string) (reflect.Value, error)) (string, string) {
		return c07Str(ev, "func() string { o := hostlib.MakeOps(3); return fmt.Sprintln(o.F(4), o.G(\"x\", \"y\"), o.Done == nil) }()"), "12 x-y true\n"
	}},
	{"multi-value-result-into-variadic", "", func(ev func(string) (reflect.Value, error)) (string, string) {
		return c07Str(ev, "fmt.Sprintln(hostlib.Two())"), "7 seven\n"
	}},
	{"recursion-across-the-boundary", "func Down(d int) int { return hostlib.Nest(d, Down) }\n", func(ev func(string) (reflect.Value, error)) (string, string) {
		v, err := ev("Down")
		if err != nil {
			return err.Error(), ""
		}
		down, ok := v.Interface().(func(int) int)
		if !ok {
			return fmt.Sprint(v.Type()), "func(int) int"
		}
		return fmt.Sprintf("%d %d %s", down(6), hostlib.Nest(4, down), c07Str(ev, "fmt.Sprint(Down(3))")), "6 4 3"
	}},
	{"script-panic-reaches-the-host-intact", "type MyErr struct{ Code int }\n\nfunc (e MyErr) Error() string { return fmt.Sprint(\"my\", e.Code) }\n\nfunc Boom(k int) int {\n\tif k == 1 {\n\t\tpanic(fmt.Sprint(\"boom\", k))\n\t}\n\tif k == 2 {\n\t\tpanic(MyErr{k})\n\t}\n\tvar m map[string]int\n\tm[\"a\"] = k\n\treturn k\n}\n", func(ev func(string) (reflect.Value, error)) (string, string) {
		v, err := ev("Boom")
		if err != nil {
			return err.Error(), ""
		}
		boom, ok := v.Interface().(func(int) int)
		if !ok {
			return fmt.Sprint(v.Type()), "func(int) int"
		}
		try := func(k int) (s string) {
			defer func() {
				r := recover()
				if e, ok := r.(error); ok {
					s = "error:" + e.Error()
				} else {
					s = fmt.Sprintf("%T:%v", r, r)
				}
			}()
			boom(k)
			return "no panic"
		}
		return try(1) + " | " + try(2) + " | " + try(3), "string:boom1 | struct { Code int }:{2} | error:assignment to entry in nil map"
	}},
	{"named-results-and-defer-seen-by-host", "func Named(x int) (r int, err error) {\n\tdefer func() {\n\t\tif e := recover(); e != nil {\n\t\t\terr = fmt.Errorf(\"recovered %v\", e)\n\t\t\tr = -1\n\t\t}\n\t}()\n\tdefer func() { r *= 2 }()\n\tif x < 0 {\n\t\tpanic(\"neg\")\n\t}\n\treturn x + 1, nil\n}\n", func(ev func(string) (reflect.Value, error)) (string, string) {
		v, err := ev("Named")
		if err != nil {
			return err.Error(), ""
		}
		f, ok := v.Interface().(func(int) (int, error))
		if !ok {
			return fmt.Sprint(v.Type()), "func(int) (int, error)"
		}
		a, e1 := f(3)
		b, e2 := f(-1)
		return fmt.Sprint(a, e1, b, e2), "8 <nil> -1 recovered neg"
	}},
	{"channel-of-host-structs", "func Drain() string {\n\tch := make(chan hostlib.Pt)\n\tgo hostlib.SendPts(ch, 3)\n\ts := \"\"\n\tfor p := range ch {\n\t\ts += fmt.Sprint(p.X, p.Y, \";\")\n\t}\n\treturn s\n}\n", func(ev func(string) (reflect.Value, error)) (string, string) {
		return c07Str(ev, "Drain()"), "0 0;1 1;2 4;"
	}},
	{"struct-keys-and-embedded-host-struct", "type My struct {\n\thostlib.Pt\n\tz int\n}\n", func(ev func(string) (reflect.Value, error)) (string, string) {
		return c07Str(ev, "func() string { m := map[hostlib.Pt]string{{X: 1}: \"a\"}; my := My{hostlib.Pt{X: 1}, 5}; my.Scale(1); return m[my.Pt] + hostlib.Show(my.Pt.Add(my.Pt)) + hostlib.Show(my.Add(hostlib.Pt{Y: 3})) }()"),
			"a" + hostlib.Show(hostlib.Pt{X: 2}) + hostlib.Show(hostlib.Pt{X: 1, Y: 3})
	}},
}

var c07NFixed = len(c07FixedCells)

func c07FixedName(k int) string { return c07FixedCells[k].name }

func c07Fixed(k int) (o c07Out) {
	c := c07FixedCells[k]
	o.Src = c07Prelude + c.src
	i := c07Interp(nil)
	if _, err := i.Eval(o.Src); err != nil {
		o.Fails = append(o.Fails, "the script is rejected: "+err.Error())
		return
	}
	var got, want string
	func() {
		defer func() {
			if r := recover(); r != nil {
				got = fmt.Sprintf("Go panic: %v", r)
			}
		}()
		got, want = c.run(i.Eval)
	}()
	o.Calls = 1
	if got != want {
		o.Fails = append(o.Fails, fmt.Sprintf("got %q, want %q", got, want))
	}
	return
}
