package main

import (
	"encoding/json"
	"fmt"
	"os"
	"sort"
	"strconv"
	"strings"

	"verifharness/core"
)

// C09: cancellation stops all interpreted activity promptly. See cancelmon.go for the monitor.

type c09Prog struct {
	name  string
	defs  string // declarations that may be placed in the same evaluation, an earlier one, or a package
	main  string // body of main
	usesD bool
}

// every worker/blocker is written once and placed, per variant, in the same evaluation, an
// earlier Eval, an earlier EvalWithContext, or an imported source package.
var c09Progs = []c09Prog{
	{"busy", ``, `for { host.Tick() }`, false},
	{"busy-nested", ``, `x := 0; for { for j := 0; j < 3; j++ { x += j }; if x > 10 { x = 0 }; host.Tick() }`, false},
	{"recursion", `func Rec(n int) int { host.Tick(); if n == 0 { return 0 }; return Rec(n-1) + 1 }`, `for { Rec(6) }`, true},
	{"closure-call", `var Clo = func(x int) int { host.Tick(); return x + 1 }`, `y := 0; for { y = Clo(y) % 10 }`, true},
	{"local-closure", ``, `g := func(x int) int { host.Tick(); return x + 1 }; for { g(1) }`, false},
	{"method-call", `type T struct{ n int }
func (t *T) Inc() { t.n++; host.Tick() }
func (t T) Get() int { host.Tick(); return t.n }`, `t := &T{}; for { t.Inc(); _ = t.Get() }`, true},
	{"defer-loop", `func D() (r int) { defer func() { r++; host.Tick() }(); return 1 }`, `for { D() }`, true},
	{"host-callback", ``, `s := []int{5, 2, 8, 1, 9, 3}; for { sort.Slice(s, func(a, b int) bool { host.Tick(); return s[a] < s[b] }); s[0], s[5] = s[5], s[0] }`, false},
	{"goroutine-tree", `func Worker(d int) { if d > 0 { go Worker(d - 1); go Worker(d - 1) }; for { host.Tick() } }`, `go Worker(2); for { host.Tick() }`, true},
	{"spawn-loop", `func Short(c chan int) { host.Tick(); c <- 1 }`, `c := make(chan int); for { go Short(c); <-c }`, true},
	{"recv-block", `func RecvBlocker(c chan int) { for { host.Tick(); <-c; host.Tick() } }`, `c := make(chan int); go RecvBlocker(c); for { host.Tick() }`, true},
	{"recv2-block", `func Recv2Blocker(c chan int) { for { host.Tick(); _, ok := <-c; _ = ok; host.Tick() } }`, `c := make(chan int); go Recv2Blocker(c); for { host.Tick() }`, true},
	{"send-block", `func SendBlocker(c chan int) { for { host.Tick(); c <- 1; host.Tick() } }`, `c := make(chan int); go SendBlocker(c); for { host.Tick() }`, true},
	{"select-block", `func SelBlocker(a, b chan int) { for { host.Tick(); select { case <-a: host.Tick(); case b <- 1: host.Tick() } } }`, `a, b := make(chan int), make(chan int); go SelBlocker(a, b); for { host.Tick() }`, true},
	{"select-default", `func SelSpin(a chan int) { for { select { case <-a: host.Tick(); default: host.Tick() } } }`, `a := make(chan int); go SelSpin(a); for { host.Tick() }`, true},
	{"range-chan", `func Ranger(c chan int) { for v := range c { _ = v; host.Tick() }; host.Tick() }`, `c := make(chan int); go Ranger(c); for { host.Tick() }`, true},
	{"main-recv", ``, `c := make(chan int); go func() { for { host.Tick() } }(); <-c; host.Tick()`, false},
	{"main-select", ``, `a, b := make(chan int), make(chan string); go func() { for { host.Tick() } }(); select { case <-a: host.Tick(); case <-b: host.Tick() }; host.Tick()`, false},
	{"main-range", ``, `c := make(chan int); go func() { for { host.Tick() } }(); for range c { host.Tick() }; host.Tick()`, false},
	{"pingpong", `func Pong(in, out chan int) { for v := range in { host.Tick(); out <- v + 1 } }`, `in, out := make(chan int), make(chan int); go Pong(in, out); v := 0; for { in <- v; v = <-out; host.Tick() }`, true},
	{"closure-blocker", `func MkBlocker(c chan int) func() { return func() { for { host.Tick(); <-c } } }`, `b := MkBlocker(make(chan int)); go b(); for { host.Tick() }`, true},
	{"closure-sender", `func MkSender(c chan int) func() { return func() { for { host.Tick(); c <- 1 } } }`, `b := MkSender(make(chan int)); go b(); for { host.Tick() }`, true},
	{"stored-closure-blocker", `var BC = make(chan int)
var StoredB = func() { for { host.Tick(); <-BC } }`, `go StoredB(); for { host.Tick() }`, true},
	{"stored-closure-sender", `var SC = make(chan int)
var StoredS = func() { for { host.Tick(); SC <- 1 } }`, `go StoredS(); for { host.Tick() }`, true},
	{"goroutine-defer-loop", `func DW() { for { func() { defer func() { host.Tick() }(); host.Tick() }() } }`, `go DW(); for { host.Tick() }`, true},
	{"goroutine-host-callback", ``, `go func() { s := []int{5, 2, 8, 1, 9, 3}; for { sort.Slice(s, func(a, b int) bool { host.Tick(); return s[a] < s[b] }); s[0], s[5] = s[5], s[0] } }(); for { host.Tick() }`, false},
	{"goroutine-deferred-closure-after-block", `func DB(c chan int) { defer func() { host.Tick(); host.Tick() }(); for { host.Tick(); <-c } }`, `c := make(chan int); go DB(c); for { host.Tick() }`, true},
	{"method-value-go", `type W struct{ c chan int }
func (w *W) Run() { for { host.Tick(); <-w.c } }`, `w := &W{c: make(chan int)}; f := w.Run; go f(); for { host.Tick() }`, true},
}

var c09Places = []string{"same", "earlier-eval", "earlier-ctx", "package"}
var c09Entries = []string{"eval", "execute", "evalpath"}

// programs with a go statement on a function value (literal, variable, method value): the goroutine
// enters the interpreter through a function wrapper
var c09StartsFuncValue = map[string]bool{"main-recv": true, "main-select": true, "main-range": true, "closure-blocker": true,
	"closure-sender": true, "stored-closure-blocker": true, "stored-closure-sender": true, "goroutine-host-callback": true, "method-value-go": true}

func c09Setup(p *c09Prog, place, entry string) *cancelSetup {
	s := &cancelSetup{entry: entry}
	imports := "import (\n\t\"host\"\n\t\"sort\"\n)\nvar _ = sort.Ints\n"
	main := p.main
	defs := p.defs
	switch place {
	case "same":
		s.src = "package main\n" + imports + defs + "\nfunc main() {\n" + main + "\n}\n"
	case "earlier-eval":
		s.prep = []string{"package main\n" + imports + defs + "\n"}
		s.src = main + "\n" // interactive style: statements using what the earlier evaluation imported and defined
		if entry == "evalpath" {
			s.src = "package main\nimport (\n\t\"host\"\n\t\"sort\"\n)\nvar _ = sort.Ints\nfunc main() {\n" + main + "\n}\n"
		}
	case "earlier-ctx":
		s.prepC = []string{"package main\n" + imports + defs + "\n"}
		s.src = main + "\n"
		if entry == "evalpath" {
			s.src = "package main\nimport (\n\t\"host\"\n\t\"sort\"\n)\nvar _ = sort.Ints\nfunc main() {\n" + main + "\n}\n"
		}
	case "package":
		s.files = map[string]string{"gp/src/lib/lib.go": "package lib\nimport \"host\"\nvar _ = host.Tick\n" + defs + "\n"}
		// qualify the exported names used by main
		q := main
		for _, name := range c09Exported(defs) {
			q = qualify(q, name)
		}
		s.src = "package main\nimport (\n\t\"host\"\n\t\"sort\"\n\t\"lib\"\n)\nvar _ = sort.Ints\nfunc main() {\n" + q + "\n}\n"
	}
	if entry == "evalpath" {
		if s.files == nil {
			s.files = map[string]string{}
		}
		s.files["main.go"] = s.src
	}
	return s
}

func c09ByName(n string) *c09Prog {
	for i := range c09Progs {
		if c09Progs[i].name == n {
			return &c09Progs[i]
		}
	}
	return nil
}

func c09Exported(defs string) []string {
	var out []string
	for _, l := range strings.Split(defs, "\n") {
		f := strings.Fields(l)
		if len(f) >= 2 && (f[0] == "func" || f[0] == "var" || f[0] == "type") && !strings.HasPrefix(f[1], "(") {
			n := f[1]
			if i := strings.IndexAny(n, "(="); i >= 0 {
				n = n[:i]
			}
			out = append(out, n)
		}
	}
	return out
}

func qualify(src, name string) string {
	var b strings.Builder
	for i := 0; i < len(src); {
		if strings.HasPrefix(src[i:], name) && (i == 0 || !isIdent(src[i-1])) && (i+len(name) >= len(src) || !isIdent(src[i+len(name)])) && (i == 0 || src[i-1] != '.') {
			b.WriteString("lib." + name)
			i += len(name)
			continue
		}
		b.WriteByte(src[i])
		i++
	}
	return b.String()
}

func isIdent(c byte) bool {
	return c == '_' || c >= '0' && c <= '9' || c >= 'a' && c <= 'z' || c >= 'A' && c <= 'Z'
}

type c09Point struct {
	K   int64     `json:"k"`
	Res cancelRun `json:"res"`
	Err string    `json:"err,omitempty"`
}

func init() {
	checks["C09"] = checkC09
	core.ChildModes["c09"] = func(c *core.Case) *core.Result {
		s := c09Setup(c09ByName(c.Params["prog"]), c.Params["place"], c.Params["entry"])
		s.startWindow = c.Params["sw"] != ""
		if c.Params["sw"] == "3" {
			s.holdStage = 3
		}
		var pts []c09Point
		klist := strings.Split(c.Params["ks"], ",")
		for kj, ks := range klist {
			k, _ := strconv.ParseInt(ks, 10, 64)
			fmt.Fprintf(os.Stderr, "K %d\n", k)
			r, err := runCancelAt(s, k)
			pt := c09Point{K: k, Res: r}
			if err != nil {
				pt.Err = err.Error()
			}
			if len(pt.Res.Dump) > 6000 {
				pt.Res.Dump = pt.Res.Dump[:6000]
			}
			firstLeak := len(r.Leaked) > 0
			if firstLeak {
				// an isolated retry decides: a leak must be reproducible
				r2, err2 := runCancelAt(s, k)
				if err2 == nil && len(r2.Leaked) == 0 {
					pt.Res.Leaked = nil
					pt.Res.Dump = ""
				}
			}
			pts = append(pts, pt)
			if firstLeak || (pt.Res.Reached && !pt.Res.Returned) {
				// this process now hosts runaway goroutines: the parent continues in a fresh child
				b, _ := json.Marshal(pts)
				d := map[string]string{"points": string(b), "rest": strings.Join(klist[kj+1:], ",")}
				return &core.Result{Data: d, Dirty: true}
			}
		}
		b, _ := json.Marshal(pts)
		return &core.Result{Data: map[string]string{"points": string(b)}}
	}
}

func checkC09(r *core.Run) {
	r.Rule = "cell = (program, where its code was defined, entry point); for each cancellation point k (count of interpreted operations, all goroutines) the step hook freezes the interpreter at operation k, the harness waits until every interpreter goroutine is parked (hook or channel operation), cancels, and requires: the call returns ctx.Err() while everything is frozen; after release no goroutine starts more than one further operation nor causes more than one further host tick; no goroutine with the execution loop on its stack survives. non-trivial = operation k was reached and goroutines were frozen"
	r.Assume = []string{"default cancellable channel mode (YAEGI_FAST_CHAN unset)", "goroutines parked in host primitives are outside the statement", "unbounded 'eventually' restated as bounded progress: return while frozen (watchdog 20 s), <=1 operation and <=1 host tick per goroutine after release, exit within 3 s of release (reproduced on an isolated retry)"}
	var cases []core.Case
	type combo struct{ prog, place, entry string }
	var combos []combo
	for i := range c09Progs {
		p := &c09Progs[i]
		for _, place := range c09Places {
			if place != "same" && !p.usesD {
				continue
			}
			for _, entry := range c09Entries {
				combos = append(combos, combo{p.name, place, entry})
			}
		}
	}
	kmax := int64(260)
	for _, cb := range combos {
		rg := core.NewRng(r.Seed).Sub("C09/" + cb.prog + cb.place + cb.entry)
		var ks []string
		if r.Thorough() {
			for k := int64(1); k <= kmax; k++ {
				ks = append(ks, fmt.Sprint(k))
			}
			for j := 0; j < 12; j++ {
				ks = append(ks, fmt.Sprint(kmax+1+int64(rg.Intn(3000))))
			}
		} else {
			seen := map[int64]bool{}
			for len(ks) < 14 {
				k := int64(1 + rg.Intn(int(kmax)))
				if len(ks) >= 11 {
					k = kmax + 1 + int64(rg.Intn(2000))
				}
				if !seen[k] {
					seen[k] = true
					ks = append(ks, fmt.Sprint(k))
				}
			}
		}
		sort.Slice(ks, func(a, b int) bool { x, _ := strconv.Atoi(ks[a]); y, _ := strconv.Atoi(ks[b]); return x > y })
		cases = append(cases, core.Case{ID: "C09/" + cb.prog + "/" + cb.place + "/" + cb.entry, Mode: "c09", TimeoutMs: 1200000,
			Params: map[string]string{"prog": cb.prog, "place": cb.place, "entry": cb.entry, "ks": strings.Join(ks, ",")}})
	}
	// start-window cells: every goroutine started by a go statement on a function value is held between
	// the go statement and its first operation, the context is cancelled, the goroutines of the evaluation
	// end, and only then are the held goroutines released
	swCombos := 0
	for _, cb := range combos {
		if !c09StartsFuncValue[cb.prog] {
			continue
		}
		rg := core.NewRng(r.Seed).Sub("C09/sw/" + cb.prog + cb.place + cb.entry)
		n := 2
		if r.Thorough() {
			n = 10
		}
		seen := map[int64]bool{}
		var ks []string
		for len(ks) < n {
			k := int64(20 + rg.Intn(140))
			if !seen[k] {
				seen[k] = true
				ks = append(ks, fmt.Sprint(k))
			}
		}
		sort.Slice(ks, func(a, b int) bool { x, _ := strconv.Atoi(ks[a]); y, _ := strconv.Atoi(ks[b]); return x > y })
		swCombos++
		cases = append(cases, core.Case{ID: "C09/startwin/" + cb.prog + "/" + cb.place + "/" + cb.entry, Mode: "c09", TimeoutMs: 1200000,
			Params: map[string]string{"prog": cb.prog, "place": cb.place, "entry": cb.entry, "ks": strings.Join(ks, ","), "sw": "1"}})
		// the same, held inside the function wrapper between the two reads which decide the run id
		cases = append(cases, core.Case{ID: "C09/startwin-inner/" + cb.prog + "/" + cb.place + "/" + cb.entry, Mode: "c09", TimeoutMs: 1200000,
			Params: map[string]string{"prog": cb.prog, "place": cb.place, "entry": cb.entry, "ks": strings.Join(ks, ","), "sw": "3"}})
	}
	pool := newPool(r)
	if r.Thorough() {
		pool.Workers = 16
	}
	results := pool.RunCases(cases)
	// a child that met a leak stopped early (it hosts runaway goroutines); continue its remaining
	// cancellation points in fresh children, merging the points
	// Exploration policy (cost only, never a verdict): cancellation points are visited from the largest
	// k down; after 3 failing points of the running phase the remaining running-phase points are skipped
	// (the cell has failed already) and only k = 3, 2, 1 are still probed; after 2 failing points of the
	// package-level phase the rest is skipped (smaller k are package-level too).
	crashPts := map[int][]c09Point{}
	for round := 0; round < 400; round++ {
		var more []core.Case
		var idx []int
		for ci, res := range results {
			if res == nil {
				continue
			}
			rest := ""
			if res.Crash {
				// attribute the crash to the last cancellation point announced on the child's stderr
				k := int64(-1)
				for _, l := range strings.Split(res.CrashMsg, "\n") {
					if strings.HasPrefix(l, "K ") {
						k, _ = strconv.ParseInt(strings.TrimSpace(l[2:]), 10, 64)
					}
				}
				ks := strings.Split(cases[ci].Params["ks"], ",")
				for j, x := range ks {
					if x == fmt.Sprint(k) {
						rest = strings.Join(ks[j+1:], ",")
					}
				}
				if k < 0 {
					continue
				}
				msg := res.CrashMsg
				if j := strings.Index(msg, "panic:"); j >= 0 {
					msg = msg[j:]
				} else if j := strings.Index(msg, "fatal error:"); j >= 0 {
					msg = msg[j:]
				}
				if len(msg) > 1200 {
					msg = msg[:1200]
				}
				crashPts[ci] = append(crashPts[ci], c09Point{K: k, Err: "CRASH " + msg})
				results[ci] = &core.Result{ID: res.ID, Data: map[string]string{"points": "[]"}}
				res = results[ci]
			} else if res.Data != nil {
				rest = res.Data["rest"]
				res.Data["rest"] = ""
			}
			if rest == "" {
				continue
			}
			// apply the exploration policy to the remaining points
			var pts []c09Point
			json.Unmarshal([]byte(res.Data["points"]), &pts)
			pts = append(pts, crashPts[ci]...)
			runFails, preFails := 0, 0
			for _, pt := range pts {
				failed := len(pt.Res.Leaked) > 0 || (pt.Res.Reached && !pt.Res.Returned) || strings.HasPrefix(pt.Err, "CRASH")
				if failed && pt.Res.TopLevel {
					preFails++
				} else if failed {
					runFails++
				}
			}
			if preFails >= 2 {
				continue
			}
			if runFails >= 3 {
				var keep []string
				for _, x := range strings.Split(rest, ",") {
					if x == "1" || x == "2" || x == "3" {
						keep = append(keep, x)
					}
				}
				rest = strings.Join(keep, ",")
				if rest == "" {
					continue
				}
			}
			nc := cases[ci]
			nc.Params = map[string]string{"prog": nc.Params["prog"], "place": nc.Params["place"], "entry": nc.Params["entry"], "ks": rest, "sw": nc.Params["sw"]}
			cases[ci].Params["ks"] = rest
			more = append(more, nc)
			idx = append(idx, ci)
		}
		if len(more) == 0 {
			break
		}
		mres := pool.RunCases(more)
		for j, ci := range idx {
			old := results[ci]
			nw := mres[j]
			if nw.Crash {
				nw.Data = map[string]string{"points": old.Data["points"]}
				results[ci] = nw
				continue
			}
			if nw.Timeout || nw.HostPanic != "" || nw.Data == nil {
				results[ci] = nw
				continue
			}
			var a, b []c09Point
			json.Unmarshal([]byte(old.Data["points"]), &a)
			json.Unmarshal([]byte(nw.Data["points"]), &b)
			mb, _ := json.Marshal(append(a, b...))
			nw.Data["points"] = string(mb)
			results[ci] = nw
		}
	}
	for ci, cp := range crashPts {
		if results[ci] != nil && results[ci].Data != nil && !results[ci].Crash {
			var a []c09Point
			json.Unmarshal([]byte(results[ci].Data["points"]), &a)
			mb, _ := json.Marshal(append(a, cp...))
			results[ci].Data["points"] = string(mb)
		}
	}
	points, frozenTotal := 0, int64(0)
	startsHeld := int64(0)
	maxOps, maxTicks := 0, 0
	finished := 0
	for ci, res := range results {
		base := strings.TrimPrefix(cases[ci].ID, "C09/")
		hasMain := strings.Contains(c09Setup(c09ByName(cases[ci].Params["prog"]), cases[ci].Params["place"], cases[ci].Params["entry"]).src, "func main()")
		if res.Crash || res.Timeout || res.HostPanic != "" {
			r.Fail("C09/run/"+base, map[string]any{"diff": "child ended abnormally: " + res.Ending() + " " + res.CrashMsg + res.HostPanic, "params": cases[ci].Params})
			continue
		}
		var pts []c09Point
		json.Unmarshal([]byte(res.Data["points"]), &pts)
		// two cells per combination: cancellation while package-level code runs (before main's
		// frame exists), and cancellation once the program proper runs
		for _, phase := range []string{"premain", "run"} {
			cell := "C09/" + phase + "/" + base
			var bad []string
			var badPts []c09Point
			conclusive := 0
			for _, pt := range pts {
				ph := "run"
				if hasMain && pt.Res.TopLevel {
					ph = "premain"
				}
				if strings.HasPrefix(pt.Err, "CRASH") {
					// the child died at this cancellation point: phase by position (package-level points are the smallest k)
					cph := "run"
					if hasMain && pt.K <= minRunK(pts) {
						cph = "premain"
					}
					if cph == phase {
						conclusive++
						bad = append(bad, fmt.Sprintf("k=%d: host process crashed: %s", pt.K, firstLine(pt.Err)))
						badPts = append(badPts, pt)
					}
					continue
				}
				if pt.Err != "" {
					if phase == "run" {
						if strings.HasPrefix(pt.Err, "prep") || strings.HasPrefix(pt.Err, "compile") {
							bad = append(bad, fmt.Sprintf("k=%d setup failed: %s", pt.K, pt.Err))
							badPts = append(badPts, pt)
						} else {
							r.Inconclusive(cell, fmt.Sprintf("k=%d %s", pt.K, pt.Err))
						}
					}
					continue
				}
				if pt.Res.Finished {
					if phase == "run" {
						finished++
					}
					continue
				}
				if ph != phase {
					continue
				}
				conclusive++
				points++
				frozenTotal += pt.Res.Frozen
				if pt.Res.MaxPostOps > maxOps {
					maxOps = pt.Res.MaxPostOps
				}
				if pt.Res.MaxPostTicks > maxTicks {
					maxTicks = pt.Res.MaxPostTicks
				}
				var why []string
				if !pt.Res.Returned {
					why = append(why, "call did not return within 20 s of cancellation while all interpreted goroutines were parked")
				} else if pt.Res.Err != "context canceled" {
					why = append(why, fmt.Sprintf("returned %q instead of the context's error", pt.Res.Err))
				}
				if pt.Res.MaxPostOps > 1 {
					why = append(why, fmt.Sprintf("a goroutine started %d operations after the call returned", pt.Res.MaxPostOps))
				}
				if pt.Res.MaxPostTicks > 1 {
					why = append(why, fmt.Sprintf("a goroutine caused %d host side effects after the call returned", pt.Res.MaxPostTicks))
				}
				if len(pt.Res.Leaked) > 0 {
					why = append(why, fmt.Sprintf("%d interpreted goroutine(s) never exited: %v", len(pt.Res.Leaked), pt.Res.Leaked))
				}
				if len(why) > 0 {
					bad = append(bad, fmt.Sprintf("k=%d: %s", pt.K, strings.Join(why, "; ")))
					badPts = append(badPts, pt)
				}
			}
			if len(bad) > 0 {
				if len(badPts) > 3 {
					badPts = badPts[:3]
				}
				r.Fail(cell, map[string]any{"diff": strings.Join(clip(bad, 6), "\n"), "params": cases[ci].Params, "failing_points": len(bad), "points": badPts})
				continue
			}
			if conclusive == 0 {
				if phase == "run" {
					r.Inconclusive(cell, "no cancellation point reached")
				}
				continue
			}
			if cases[ci].Params["sw"] != "" {
				held := int64(0)
				for _, pt := range pts {
					held += pt.Res.StartsHeld
				}
				startsHeld += held
				if held == 0 {
					if phase == "run" {
						r.Inconclusive(cell, "no goroutine start was held at any cancellation point")
					}
					continue
				}
			}
			r.OkN(cell, conclusive)
			r.Sample(map[string]any{"cell": cell, "points": conclusive})
		}
	}
	r.Extra["combos"] = len(combos)
	r.Extra["start_window_combos"] = swCombos
	r.Extra["goroutine_starts_held_total"] = startsHeld
	r.Extra["cancellation_points"] = points
	r.Extra["goroutines_frozen_total"] = frozenTotal
	r.Extra["max_post_cancel_ops_per_goroutine"] = maxOps
	r.Extra["max_post_cancel_ticks_per_goroutine"] = maxTicks
	r.Extra["finished_before_k"] = finished
}

func minRunK(pts []c09Point) int64 {
	m := int64(1 << 62)
	for _, p := range pts {
		if p.Err == "" && !p.Res.Finished && !p.Res.TopLevel && p.K < m {
			m = p.K
		}
	}
	return m
}

func firstLine(s string) string {
	if i := strings.IndexByte(s, '\n'); i >= 0 {
		return s[:i]
	}
	return s
}

func init() {
	// development aid: VERIF_C09_PROG/PLACE/ENTRY/K/N repeat one cancellation point
	checks["c09debug"] = func(r *core.Run) {
		p := c09ByName(os.Getenv("VERIF_C09_PROG"))
		s := c09Setup(p, os.Getenv("VERIF_C09_PLACE"), os.Getenv("VERIF_C09_ENTRY"))
		k, _ := strconv.ParseInt(os.Getenv("VERIF_C09_K"), 10, 64)
		n, _ := strconv.Atoi(os.Getenv("VERIF_C09_N"))
		s.startWindow = os.Getenv("VERIF_C09_SW") != ""
		if os.Getenv("VERIF_C09_SW") == "3" {
			s.holdStage = 3
		}
		bad := 0
		for i := 0; i < n; i++ {
			res, err := runCancelAt(s, k)
			if err != nil || res.MaxPostOps > 1 || res.MaxPostTicks > 1 || len(res.Leaked) > 0 || os.Getenv("VERIF_C09_SHOW") != "" {
				bad++
				b, _ := json.Marshal(res)
				fmt.Printf("run %d: err=%v %s\n", i, err, b)
			}
		}
		fmt.Printf("c09debug: %d/%d bad\n", bad, n)
		r.Ok("C09/debug")
	}
}
