package main

import (
	"fmt"
	"os"
	"sort"
	"strings"

	"verifharness/core"
)

// C06: panics, defers and recover follow Go semantics and never escape Eval.
// Generated call trees: every deferred call logs a unique id, so exactly-once and LIFO order are read off the
// program's own log; the gc-built binary is the reference. Uncaught panics are evaluated interactive-style
// (definitions, then the call) so that the error returned by Eval and the state of the interpreter afterwards
// can be observed.

const c06Shared = `
type T struct{ id int }

func (t T) Log(tag string, v int)   { obs("m", t.id, tag, v) }
func (t *T) PLog(tag string, v int) { obs("pm", t.id, tag, v) }

func logd(id int, v int) { obs("d", id, v) }

func logp(id int, p *T)              { obs("dp", id, p.id) }
func logs(id int, s []int)           { obs("ds", id, len(s), s[0]) }
func logm(id int, m map[string]int)  { obs("dmp", id, len(m), m["a"]) }

func helperRecover(id int) {
	r := recover() // not called directly by the deferred function: must return nil
	obs("helper", id, r == nil)
}

type userErr struct{ n int }

func (e userErr) Error() string { return fmt.Sprint("user:err", e.n) }

func describe(r interface{}) string {
	switch v := r.(type) {
	case nil:
		return "nil"
	case userPanic:
		return fmt.Sprint("user ", v.v)
	case userErr:
		return v.Error()
	case string:
		if len(v) > 5 && v[:5] == "user:" {
			return v
		}
		return "fault"
	case error:
		if s := v.Error(); len(s) > 5 && s[:5] == "user:" {
			return s
		}
		return "fault"
	}
	return "fault"
}
`

type c06gen struct {
	rg    *core.Rng
	cell  string
	nid   int
	funcs []string
	tags  map[string]bool
}

func (g *c06gen) id() int { g.nid++; return g.nid }

func (g *c06gen) panicStmt() string {
	r := g.rg
	switch r.Intn(12) {
	case 0, 1, 2:
		g.tags["panic-string"] = true
		return fmt.Sprintf("panic(\"user:s%d\")", g.id())
	case 3:
		g.tags["panic-struct"] = true
		return fmt.Sprintf("panic(userPanic{%d})", g.id())
	case 4:
		g.tags["panic-error"] = true
		return fmt.Sprintf("panic(userErr{%d})", g.id())
	case 5:
		g.tags["fault-nilderef"] = true
		return "var np *T\n\tobs(\"unreachable\", np.id)"
	case 6:
		g.tags["fault-index"] = true
		return "ix := []int{1, 2}\n\tj := x + 5\n\tif j < 2 {\n\t\tj = 7\n\t}\n\tobs(\"unreachable\", ix[j])"
	case 7:
		g.tags["fault-divzero"] = true
		return "zz := x - x\n\tobs(\"unreachable\", 10/zz)"
	case 8:
		g.tags["fault-nilmap"] = true
		return "var nm map[string]int\n\tnm[\"k\"] = x"
	case 9:
		g.tags["fault-assert"] = true
		return "var ai interface{} = \"str\"\n\tobs(\"unreachable\", ai.(int))"
	case 10:
		g.tags["fault-closeclosed"] = true
		return "cc := make(chan int)\n\tclose(cc)\n\tclose(cc)"
	default:
		g.tags["fault-slice"] = true
		return "sl := []int{1, 2, 3}\n\tk := x + 10\n\tif k < 4 {\n\t\tk = 9\n\t}\n\tobs(\"unreachable\", len(sl[1:k]))"
	}
}

func (g *c06gen) deferStmt() string {
	r := g.rg
	id := g.id()
	switch r.Intn(22) {
	case 20:
		// a deferred call which panics while no panic is in flight (normal return, or the panic already
		// recovered by a deferred call registered later): the deferred calls registered earlier still run
		g.tags["defer-panics-on-normal-return"] = true
		return fmt.Sprintf("defer func() {\n\t\tobs(\"dpn\", %d, x)\n\t\tif x%%2 == 0 {\n\t\t\tpanic(\"user:late%d\")\n\t\t}\n\t}()", id, id)
	case 21:
		g.tags["defer-faults-on-normal-return"] = true
		return fmt.Sprintf("defer func() {\n\t\tvar dm map[string]int\n\t\tobs(\"dfn\", %d)\n\t\tif x%%3 != 1 {\n\t\t\tdm[\"k\"] = x\n\t\t}\n\t}()", id)
	case 16:
		// reference-like arguments are fixed by the defer statement too: the variable is reassigned afterwards
		g.tags["defer-ptr-arg-reassigned"] = true
		return fmt.Sprintf("p%d := &T{%d}\n\tdefer logp(%d, p%d)\n\tp%d = &T{%d}", id, id, id, id, id, id+5000)
	case 17:
		g.tags["defer-slice-arg-reassigned"] = true
		return fmt.Sprintf("s%d := []int{x, 1}\n\tdefer logs(%d, s%d)\n\ts%d = []int{-9, -9, -9}", id, id, id, id)
	case 18:
		g.tags["defer-map-arg-reassigned"] = true
		return fmt.Sprintf("mm%d := map[string]int{\"a\": x}\n\tdefer logm(%d, mm%d)\n\tdefer delete(mm%d, \"b\")\n\tmm%d = map[string]int{\"a\": -1, \"b\": -2, \"c\": -3}\n\tdefer func() { obs(\"dmq\", %d, len(mm%d)) }()", id, id, id, id, id, id, id)
	case 19:
		g.tags["defer-chan-arg-reassigned"] = true
		return fmt.Sprintf("c%d := make(chan int, 1)\n\told%d := c%d\n\tdefer func() {\n\t\tselect {\n\t\tcase _, ok := <-old%d:\n\t\t\tobs(\"dc\", %d, \"closed\", !ok, cap(c%d))\n\t\tdefault:\n\t\t\tobs(\"dc\", %d, \"open\", cap(c%d))\n\t\t}\n\t}()\n\tdefer close(c%d)\n\tc%d = make(chan int, 2)", id, id, id, id, id, id, id, id, id, id)
	case 13:
		g.tags["defer-hostfunc"] = true
		return fmt.Sprintf("defer fmt.Println(\"#\"+curCell, \"dh\", %d, x, res)\n\tx += 3", id)
	case 14:
		g.tags["defer-closure-arg"] = true
		return fmt.Sprintf("defer func(a int, s []int) { obs(\"dca\", %d, a, s, x) }(x, []int{x, res})\n\tx *= 2", id)
	case 15:
		g.tags["defer-method-recv-mutated"] = true
		return fmt.Sprintf("u%d := T{%d}\n\tdefer u%d.Log(\"mv\", x)\n\tu%d.id += 500", id, id, id, id)
	case 0, 1:
		g.tags["defer-literal"] = true
		return fmt.Sprintf("defer func() { obs(\"dl\", %d, x, res) }()", id)
	case 2, 3:
		g.tags["defer-named-args"] = true
		return fmt.Sprintf("defer logd(%d, x)\n\tx += 100", id)
	case 4:
		g.tags["defer-method"] = true
		return fmt.Sprintf("t%d := T{%d}\n\tdefer t%d.Log(\"v\", x)\n\tx += 7", id, id, id)
	case 5:
		g.tags["defer-ptr-method"] = true
		return fmt.Sprintf("t%d := &T{%d}\n\tdefer t%d.PLog(\"p\", x)\n\tt%d.id += 1000", id, id, id, id)
	case 6:
		g.tags["defer-in-loop"] = true
		return fmt.Sprintf("for i := 0; i < 3; i++ {\n\t\tdefer logd(%d+i, i*x)\n\t}", id*10)
	case 7, 8:
		g.tags["recover-direct"] = true
		return fmt.Sprintf("defer func() {\n\t\tr := recover()\n\t\tobs(\"rec\", %d, describe(r))\n\t\tif r != nil {\n\t\t\tres = %d\n\t\t}\n\t}()", id, 1000+id)
	case 9:
		g.tags["recover-helper"] = true
		return fmt.Sprintf("defer func() { helperRecover(%d) }()", id)
	case 10:
		g.tags["recover-nested-defer"] = true
		return fmt.Sprintf("defer func() {\n\t\tdefer func() { obs(\"inner\", %d, describe(recover())) }()\n\t\tobs(\"outer\", %d)\n\t}()", id, id)
	case 11:
		g.tags["repanic"] = true
		return fmt.Sprintf("defer func() {\n\t\tif r := recover(); r != nil {\n\t\t\tobs(\"rp\", %d, describe(r))\n\t\t\tpanic(\"user:re%d\")\n\t\t}\n\t}()", id, id)
	default:
		g.tags["defer-builtin"] = true
		return fmt.Sprintf("m%d := map[string]int{\"a\": 1, \"b\": 2}\n\tdefer func() { obs(\"dm\", %d, len(m%d)) }()\n\tdefer delete(m%d, \"a\")", id, id, id, id)
	}
}

// fn generates function number k of the tree at the given depth and returns its name.
func (g *c06gen) fn(depth int) string {
	r := g.rg
	name := fmt.Sprintf("f_%s_%d", g.cell, len(g.funcs))
	g.funcs = append(g.funcs, "") // reserve
	slot := len(g.funcs) - 1
	var b strings.Builder
	fmt.Fprintf(&b, "func %s(x int) (res int) {\n\tobs(\"enter\", %q, x)\n", name, name)
	n := 2 + r.Intn(4)
	panicked := false
	for a := 0; a < n && !panicked; a++ {
		switch c := r.Intn(10); {
		case c < 4:
			fmt.Fprintf(&b, "\t%s\n", g.deferStmt())
		case c < 6 && depth < 3:
			child := g.fn(depth + 1)
			fmt.Fprintf(&b, "\tres += %s(x + %d)\n\tobs(\"back\", %q, res)\n", child, 1+r.Intn(5), name)
		case c < 7:
			fmt.Fprintf(&b, "\tres = res*2 + x\n\tobs(\"step\", %q, res)\n", name)
		case c < 8 && depth > 0:
			fmt.Fprintf(&b, "\tif x%%2 == %d {\n\t\t%s\n\t}\n", r.Intn(2), strings.ReplaceAll(g.panicStmt(), "\n\t", "\n\t\t"))
		case c < 9 && depth > 0:
			fmt.Fprintf(&b, "\t%s\n", g.panicStmt())
			panicked = true
		default:
			fmt.Fprintf(&b, "\tobs(\"mid\", %q, x, res)\n", name)
		}
	}
	fmt.Fprintf(&b, "\tobs(\"leave\", %q, res)\n\treturn res + 1\n", name)
	b.WriteString("}\n")
	g.funcs[slot] = b.String()
	return name
}

func c06Cell(progIdx uint64, k int) core.Cell {
	rg := core.NewRng(progIdx*977 + uint64(k)).Sub("C06")
	g := &c06gen{rg: rg, cell: fmt.Sprintf("%d_%d", progIdx, k), tags: map[string]bool{}}
	root := g.fn(0)
	entry := fmt.Sprintf("c06_%d_%d", progIdx, k)
	var b strings.Builder
	for i := len(g.funcs) - 1; i >= 0; i-- {
		b.WriteString(g.funcs[i])
		b.WriteString("\n")
	}
	fmt.Fprintf(&b, "func %s() {\n\tfor _, a := range []int{2, 5} {\n\t\tfunc() {\n\t\t\tdefer func() {\n\t\t\t\tif r := recover(); r != nil {\n\t\t\t\t\tobs(\"top-recovered\", describe(r))\n\t\t\t\t}\n\t\t\t}()\n\t\t\tobs(\"result\", %s(a))\n\t\t}()\n\t}\n}\n", entry, root)
	var tags []string
	for t := range g.tags {
		tags = append(tags, t)
	}
	sort.Strings(tags)
	return core.Cell{ID: fmt.Sprintf("C06/p%d/c%d", progIdx, k), Fn: entry, Decls: b.String(), Tags: tags}
}

const c06Universe = 12000
const c06Cells = 12

func init() { checks["C06"] = checkC06 }

func checkC06(r *core.Run) {
	r.Rule = "universe = 12000 generated programs x 12 cells; a cell is a call tree (depth up to 4) whose functions defer function literals, named functions with arguments mutated afterwards (scalars, and pointer / slice / map / channel variables reassigned after the defer statement), value and pointer method values, defers in loops, deferred calls which panic or fault while no panic is in flight, builtin defers, direct/helper/nested recover, re-panics, and raise explicit panics (string, struct, error) or run-time faults (nil dereference, index, slice, integer division by zero, nil map write, failed type assertion, close of closed channel), with named results altered after recover; each deferred call logs a unique id. verdict per cell = the log equals the gc binary's (run-time faults are compared by class, not message). A second family evaluates uncaught panics interactive-style: Eval must return interp.Panic carrying the original value, nothing may escape as a Go panic, and the interpreter must stay usable"
	r.Assume = []string{"gc build of the same source is the reference for the logs", "messages of run-time faults are not compared (reflect-based wording is not promised)"}
	n := 60
	if r.Thorough() {
		n = 4000
	}
	if os.Getenv("VERIF_C06_ALL") != "" {
		n = c06Universe
	}
	start := (r.Seed * 6151) % c06Universe
	var progs []*core.CellProgram
	for k := 0; k < n; k++ {
		idx := (start + uint64(k)) % c06Universe
		p := &core.CellProgram{Name: fmt.Sprintf("C06-p%d", idx), Shared: c06Shared}
		for c := 0; c < c06Cells; c++ {
			p.Cells = append(p.Cells, c06Cell(idx, c))
		}
		progs = append(progs, p)
	}
	pool := newPool(r)
	tagCount := map[string]int{}
	lines := 0
	rej := diffChunked(r, pool, progs, 60, func(v *core.CellVerdict) {
		for _, t := range v.Cell.Tags {
			tagCount[t]++
		}
		if v.Diff == "" && len(v.Native) > 0 {
			lines += len(v.Native)
			r.Ok(v.Cell.ID)
			if len(v.Native) > 25 {
				r.Sample(map[string]any{"cell": v.Cell.ID, "log_lines": len(v.Native), "tags": v.Cell.Tags})
			}
			return
		}
		if v.Diff == "" {
			r.Inconclusive(v.Cell.ID, "no output")
			return
		}
		r.Fail(v.Cell.ID, map[string]any{"diff": v.Diff, "tags": strings.Join(v.Cell.Tags, ","), "source": v.Prog.SingleCellSource(v.Cell.ID), "native": clip(v.Native, 60), "yaegi": clip(v.Yaegi, 60), "yaegi_error": v.YErr})
	})
	c06Uncaught(r, pool)
	r.Extra["programs"] = len(progs)
	r.Extra["log_lines_compared"] = lines
	r.Extra["generator_rejects"] = rej
	r.Extra["construct_histogram"] = tagCount
}

// uncaught panics, interactive style
var c06UncaughtCases = []struct{ id, body, wantType, wantValue string }{
	{"string", `panic("user:boom")`, "string", "user:boom"},
	{"error", `panic(fmt.Errorf("user:%d", 7))`, "*fmt.wrapError|*errors.errorString|*fmt.fmtError", "user:7"},
	{"custom-error", `panic(E{3})`, "", "{3}"},
	{"int", `panic(42)`, "int", "42"},
	{"struct", `panic(P{1, "x"})`, "", "{1 x}"},
	{"after-output", `fmt.Println("before"); panic("user:late")`, "string", "user:late"},
	{"in-callee", `deep(3)`, "string", "user:deep0"},
	{"in-deferred", `func() { defer func() { panic("user:indefer") }(); fmt.Println("body") }()`, "string", "user:indefer"},
	{"repanic", `func() { defer func() { r := recover(); panic(fmt.Sprint("user:again:", r)) }(); panic("user:first") }()`, "string", "user:again:user:first"},
	{"fault-nilderef", `var p *P; fmt.Println(p.A)`, "", ""},
	{"fault-index", `a := []int{1}; i := 3; fmt.Println(a[i])`, "", ""},
	{"fault-divzero", `z := 0; fmt.Println(1 / z)`, "", ""},
	{"fault-nilmap", `var m map[string]int; m["a"] = 1`, "", ""},
	{"fault-assert", `var i interface{} = "s"; fmt.Println(i.(int))`, "", ""},
	{"fault-closeclosed", `c := make(chan int); close(c); close(c)`, "", ""},
	{"goexit-like", `func() { defer fmt.Println("deferred ran"); panic("user:withdefer") }()`, "string", "user:withdefer"},
}

func c06Uncaught(r *core.Run, pool *core.Pool) {
	defs := "import \"fmt\"\n"
	defs2 := "type P struct{ A int; B string }\ntype E struct{ n int }\nfunc (e E) Error() string { return fmt.Sprint(\"user:E\", e.n) }\nfunc deep(n int) int { if n == 0 { panic(\"user:deep0\") }; return deep(n-1) + 1 }\nfunc still() int { return 77 }\nvar counter = 0\nvar clo = func() int { return 55 }\nvar cnt = func() func() int { c := 0; return func() int { c++; return c } }()\n"
	var cases []core.Case
	for _, c := range c06UncaughtCases {
		cases = append(cases, core.Case{ID: "C06/uncaught/" + c.id, Mode: "chunks", TimeoutMs: 30000,
			Chunks: []string{defs, defs2, "func run() { " + c.body + " }", "counter++", "cnt()", "run()"}, Post: []string{"1 + 1", "still()", "counter", "clo()", "cnt()"}})
	}
	for ci, res := range pool.RunCases(cases) {
		c := c06UncaughtCases[ci]
		cell := cases[ci].ID
		w := map[string]any{"chunks": cases[ci].Chunks, "error": res.ErrText, "panic_value": res.PanicValue, "panic_type": res.PanicType, "out": res.Out}
		var why []string
		switch {
		case res.Crash:
			why = append(why, "the host process died: "+firstLines2(res.CrashMsg, 4))
		case res.HostPanic != "":
			why = append(why, "a Go panic escaped Eval: "+firstLines2(res.HostPanic, 2))
		case res.ErrClass != "panic":
			why = append(why, fmt.Sprintf("Eval returned %q (class %q), want an interp.Panic", res.ErrText, res.ErrClass))
		default:
			if c.wantValue != "" && res.PanicValue != c.wantValue {
				why = append(why, fmt.Sprintf("interp.Panic carries %q, the script panicked with %q", res.PanicValue, c.wantValue))
			}
			if c.wantType != "" && !strings.Contains("|"+c.wantType+"|", "|"+res.PanicType+"|") {
				why = append(why, fmt.Sprintf("interp.Panic value has type %s, want %s", res.PanicType, c.wantType))
			}
		}
		if len(why) == 0 {
			if len(res.Post) != 5 || !strings.HasPrefix(res.Post[0].Out, "2|") || !strings.HasPrefix(res.Post[1].Out, "77|") || !strings.HasPrefix(res.Post[2].Out, "1|") ||
				!strings.HasPrefix(res.Post[3].Out, "55|") || !strings.HasPrefix(res.Post[4].Out, "2|") {
				why = append(why, fmt.Sprintf("interpreter not usable afterwards: %+v", res.Post))
			}
		}
		if len(why) > 0 {
			w["diff"] = strings.Join(why, "; ")
			r.Fail(cell, w)
		} else {
			r.Ok(cell)
		}
	}
}
