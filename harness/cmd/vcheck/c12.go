package main

import (
	"bytes"
	"fmt"
	"go/ast"
	"go/importer"
	"go/parser"
	"go/token"
	"go/types"
	"os"
	"runtime"
	"sort"
	"strings"
	"sync"

	"verifharness/core"

	"github.com/traefik/yaegi/interp"
	"github.com/traefik/yaegi/stdlib"
)

// C12: ill-typed programs are rejected before anything runs. Base programs (C01 corpus + a site-rich
// hand-written base) are mutated at every applicable site by single-point type-breaking operators; go/types
// confirms base well-typed / mutant ill-typed and names the class; yaegi must return an error with no byte
// on stdout (markers are printed by a package-level initialiser, by init and by main's first statement).

const c12Marks = `
func mark(s string) int {
	fmt.Println("#MARK", s)
	return 0
}

var _ = mark("pkg-init")

func init() { mark("init") }
`

const c12RichBase = `package main

import "fmt"
` + c12Marks + `
type Shape interface {
	Area() int
	Name() string
}

type Sq struct {
	Side int
	Tag  string
}

func (s Sq) Area() int    { return s.Side * s.Side }
func (s Sq) Name() string { return "sq" + s.Tag }

type NoArea struct{ X int }

func (n NoArea) Name() string { return "none" }

type Pair struct {
	A int
	B string
	C [3]int
	M map[string]int
}

func two() (int, string) { return 1, "x" }

func add(a int, b int) int { return a + b }

func half32(x float32) float32 { return x / 2 }

func join(sep string, parts ...string) string {
	out := ""
	for i, p := range parts {
		if i > 0 {
			out += sep
		}
		out += p
	}
	return out
}

func producer(out chan<- int, n int) {
	for i := 0; i < n; i++ {
		out <- i
	}
	close(out)
}

func consumer(in <-chan int) int {
	t := 0
	for v := range in {
		t += v
	}
	return t
}

func main() {
	mark("main")
	var sh Shape = Sq{Side: 3, Tag: "a"}
	fmt.Println(sh.Area(), sh.Name())
	p := Pair{A: 1, B: "b", C: [3]int{1, 2, 3}, M: map[string]int{"k": 1}}
	p.A = add(p.A, 2)
	p.B += "c"
	p.C[1] = p.A * 2
	p.M["z"] = len(p.B)
	n, s := two()
	fmt.Println(n, s, p)
	l := []int{4, 5, 6}
	l = append(l, p.A)
	c := copy(l[1:], l)
	delete(p.M, "k")
	fmt.Println(l, c, len(l), cap(l) > 0, p.M)
	ch := make(chan int, 3)
	go producer(ch, 3)
	fmt.Println(consumer(ch))
	var i8 int8 = 100
	var u8 uint8 = 200
	f := float64(i8) + 0.5
	fmt.Println(i8, u8, f, string(rune(65)), []byte("hi"))
	for i := 0; i < 2; i++ {
		if i > 0 && p.A > 1 {
			fmt.Println("loop", i)
		}
	}
	switch p.A {
	case 3:
		fmt.Println("three")
	default:
		fmt.Println("other")
	}
	var e interface{} = p
	if q, ok := e.(Pair); ok {
		fmt.Println(q.A)
	}
	fmt.Println(join("-", "a", "b"), -p.A, !(p.A > 1))
	var f32 float32 = 1.5
	f32 = 2.25
	g32 := float32(2.5) + f32
	fs32 := []float32{1, 0.5}
	ms32 := map[float32]int{0.5: 1}
	var f64 float64 = 1e300
	f64 = 0.125
	fmt.Println(f32, g32, half32(0.25), fs32, ms32[0.5], f32 < 3.5, f64)
	ptr := &p
	ptr.A++
	fmt.Println(*ptr)
}
`

type c12Mutant struct {
	cell  string
	op    string
	src   string
	class string // go/types' first error
}

var c12Importer = &lockedImporter{imp: importer.ForCompiler(token.NewFileSet(), "source", nil)}

type lockedImporter struct {
	mu  sync.Mutex
	imp types.Importer
}

func (l *lockedImporter) Import(path string) (*types.Package, error) {
	l.mu.Lock()
	defer l.mu.Unlock()
	return l.imp.Import(path)
}

func c12Check(src string) (ok bool, firstErr string, info *types.Info, f *ast.File, fset *token.FileSet) {
	fset = token.NewFileSet()
	f, err := parser.ParseFile(fset, "m.go", src, 0)
	if err != nil {
		return false, "syntax: " + err.Error(), nil, nil, fset
	}
	info = &types.Info{Types: map[ast.Expr]types.TypeAndValue{}, Uses: map[*ast.Ident]types.Object{}, Defs: map[*ast.Ident]types.Object{}}
	var first error
	conf := types.Config{Importer: c12Importer, Error: func(e error) {
		if first == nil {
			first = e
		}
	}}
	conf.Check("main", fset, []*ast.File{f}, info)
	if first != nil {
		return false, first.Error(), info, f, fset
	}
	return true, "", info, f, fset
}

// classes of static errors the property lists, recognised from go/types' wording
func c12InScope(msg string) bool {
	for _, k := range []string{"mismatched types", "cannot use", "not enough arguments", "too many arguments", "undefined:", "has no field or method", "does not implement",
		"overflows", "truncated", "non-boolean condition", "non-bool", "unknown field", "too many values", "too few values", "invalid argument", "cannot send to receive-only", "cannot receive from send-only",
		"cannot convert", "not enough return values", "too many return values", "assignment mismatch", "invalid operation", "cannot index", "cannot range over", "cannot call non-function", "invalid indirect",
		"missing return", "wrong argument count", "cannot assign", "index", "operator", "expects", "must be", "is not a type", "undefined"} {
		if strings.Contains(msg, k) {
			return true
		}
	}
	return false
}

func isBasic(t types.Type, k types.BasicInfo) bool {
	b, ok := t.Underlying().(*types.Basic)
	return ok && b.Info()&k != 0
}

// c12Mutants enumerates the single-point mutants of a base program.
func c12Mutants(baseID, src string, maxPerOp int) []c12Mutant {
	ok, _, info, f, fset := c12Check(src)
	if !ok {
		return nil
	}
	var out []c12Mutant
	perOp := map[string]int{}
	repl := func(op string, from, to token.Pos, text string) {
		if perOp[op] >= maxPerOp {
			return
		}
		a, b := fset.Position(from).Offset, fset.Position(to).Offset
		m := src[:a] + text + src[b:]
		perOp[op]++
		out = append(out, c12Mutant{cell: fmt.Sprintf("C12/%s/%s/%d", baseID, op, perOp[op]), op: op, src: m})
	}
	typeOf := func(e ast.Expr) types.Type {
		if tv, ok := info.Types[e]; ok {
			return tv.Type
		}
		return nil
	}
	inMark := func(n ast.Node) bool { // never touch the marker plumbing
		p := fset.Position(n.Pos()).Offset
		return p < strings.Index(src, "func init() { mark(\"init\") }")+30
	}
	ast.Inspect(f, func(n ast.Node) bool {
		if n == nil || inMark(n) {
			return true
		}
		switch x := n.(type) {
		case *ast.BinaryExpr:
			lt, rt := typeOf(x.X), typeOf(x.Y)
			if lt != nil && rt != nil && isBasic(lt, types.IsInteger) && isBasic(rt, types.IsInteger) && !info.Types[x.X].IsType() {
				switch x.Op {
				case token.ADD, token.SUB, token.MUL, token.LSS, token.EQL, token.AND:
					if info.Types[x.X].Value == nil { // left operand not constant
						repl("binop-int-string", x.Y.Pos(), x.Y.End(), `"s"`)
						repl("binop-int-float-var", x.Y.Pos(), x.Y.End(), `gFloatVar`)
					}
				}
			}
			if lt != nil && isBasic(lt, types.IsString) && x.Op == token.ADD && info.Types[x.X].Value == nil {
				repl("binop-string-int", x.Y.Pos(), x.Y.End(), `gIntVar`)
			}
			if lt != nil && isBasicKind(lt, types.Float32) {
				if tv, ok := info.Types[x.Y]; ok && tv.Value != nil {
					repl("binop-float32-const-overflow", x.Y.Pos(), x.Y.End(), `1e39`)
				}
			}
			if lt != nil && isBasic(lt, types.IsBoolean) && (x.Op == token.LAND || x.Op == token.LOR) {
				repl("logical-int-operand", x.Y.Pos(), x.Y.End(), `gIntVar`)
			}
		case *ast.AssignStmt:
			if len(x.Lhs) == 1 && len(x.Rhs) == 1 {
				lt := typeOf(x.Lhs[0])
				if x.Tok == token.ASSIGN && lt != nil {
					switch {
					case isBasic(lt, types.IsInteger):
						repl("assign-string-to-int", x.Rhs[0].Pos(), x.Rhs[0].End(), `"s"`)
						repl("assign-overflow-const", x.Rhs[0].Pos(), x.Rhs[0].End(), `1 << 70`)
					case isBasic(lt, types.IsString):
						repl("assign-int-to-string", x.Rhs[0].Pos(), x.Rhs[0].End(), `gIntVar`)
					case isBasic(lt, types.IsFloat):
						repl("assign-string-to-float", x.Rhs[0].Pos(), x.Rhs[0].End(), `"f"`)
						if isBasicKind(lt, types.Float32) {
							// fits a float64, overflows a float32
							repl("assign-float32-overflow-const", x.Rhs[0].Pos(), x.Rhs[0].End(), `1.5e39`)
						} else {
							repl("assign-float64-overflow-const", x.Rhs[0].Pos(), x.Rhs[0].End(), `1e400`)
						}
					}
					repl("assign-count-mismatch", x.Rhs[0].Pos(), x.Rhs[0].End(), `two()`)
				}
				if x.Tok == token.ADD_ASSIGN && lt != nil && isBasic(lt, types.IsInteger) {
					repl("opassign-string", x.Rhs[0].Pos(), x.Rhs[0].End(), `"s"`)
				}
				if x.Tok == token.DEFINE {
					repl("define-from-void", x.Rhs[0].Pos(), x.Rhs[0].End(), `voidFn()`)
				}
			}
			if len(x.Lhs) == 2 && len(x.Rhs) == 1 && x.Tok == token.DEFINE {
				if _, isCall := x.Rhs[0].(*ast.CallExpr); isCall {
					repl("define-count-mismatch", x.Rhs[0].Pos(), x.Rhs[0].End(), `gIntVar`)
				}
			}
		case *ast.CallExpr:
			if tv, ok := info.Types[x.Fun]; ok && len(x.Args) > 0 {
				if tv.IsType() && isBasicKind(tv.Type, types.Float32) {
					repl("conv-float32-const-overflow", x.Args[0].Pos(), x.Args[0].End(), `1e300`)
				} else if sig, ok := tv.Type.Underlying().(*types.Signature); ok && !tv.IsType() {
					for ai, a := range x.Args {
						if ai < sig.Params().Len() && !(sig.Variadic() && ai >= sig.Params().Len()-1) && isBasicKind(sig.Params().At(ai).Type(), types.Float32) {
							repl("arg-float32-const-overflow", a.Pos(), a.End(), `3.5e38`)
						}
					}
				}
			}
			if id, ok := x.Fun.(*ast.Ident); ok {
				if obj, ok := info.Uses[id].(*types.Builtin); ok {
					switch obj.Name() {
					case "len", "cap":
						repl("builtin-len-of-int", x.Args[0].Pos(), x.Args[0].End(), `5`)
						if at := typeOf(x.Args[0]); at != nil {
							if _, isSl := at.Underlying().(*types.Slice); isSl {
								if id, ok := x.Args[0].(*ast.Ident); ok {
									repl("builtin-len-of-ptr-to-slice", x.Args[0].Pos(), x.Args[0].End(), "&"+id.Name)
								}
							}
							if _, isMap := at.Underlying().(*types.Map); isMap {
								if id, ok := x.Args[0].(*ast.Ident); ok {
									repl("builtin-len-of-ptr-to-map", x.Args[0].Pos(), x.Args[0].End(), "&"+id.Name)
								}
							}
						}
					case "append":
						repl("builtin-append-to-int", x.Args[0].Pos(), x.Args[0].End(), `gIntVar`)
					case "delete":
						repl("builtin-delete-from-slice", x.Args[0].Pos(), x.Args[0].End(), `gSlice`)
					case "copy":
						repl("builtin-copy-int", x.Args[0].Pos(), x.Args[0].End(), `gIntVar`)
					case "close":
						repl("builtin-close-int", x.Args[0].Pos(), x.Args[0].End(), `gIntVar`)
					case "make":
						repl("builtin-make-int", x.Args[0].Pos(), x.Args[0].End(), `int`)
					}
					return true
				}
				if _, ok := info.Uses[id].(*types.Func); ok && len(x.Args) > 0 && id.Name != "mark" && id.Name != "obs" && id.Name != "runCell" {
					repl("call-drop-arg", x.Args[len(x.Args)-1].Pos(), x.Args[len(x.Args)-1].End(), "")
					sig, _ := typeOf(x.Fun).(*types.Signature)
					if sig != nil && !sig.Variadic() {
						repl("call-extra-arg", x.Rparen, x.Rparen, ", 99")
					}
					if at := typeOf(x.Args[0]); at != nil && isBasic(at, types.IsInteger) {
						repl("call-arg-string-for-int", x.Args[0].Pos(), x.Args[0].End(), `"s"`)
					}
				}
				if tv, ok := info.Types[x.Fun]; ok && tv.IsType() && len(x.Args) == 1 {
					if isBasic(tv.Type, types.IsInteger|types.IsFloat) {
						repl("conversion-string-to-number", x.Args[0].Pos(), x.Args[0].End(), `"12"`)
					}
				}
			}
			if sel, ok := x.Fun.(*ast.SelectorExpr); ok {
				if s, ok := info.Uses[sel.Sel].(*types.Func); ok && s.Pkg() != nil && s.Pkg().Name() == "main" {
					repl("method-misspelled", sel.Sel.Pos(), sel.Sel.End(), sel.Sel.Name+"Zz")
				}
			}
		case *ast.ReturnStmt:
			if len(x.Results) == 1 {
				repl("return-extra-value", x.Results[0].End(), x.Results[0].End(), ", 1")
				if t := typeOf(x.Results[0]); t != nil && isBasic(t, types.IsInteger) {
					repl("return-string-for-int", x.Results[0].Pos(), x.Results[0].End(), `"r"`)
				}
			}
			if len(x.Results) == 2 {
				repl("return-missing-value", x.Results[0].End(), x.Results[1].End(), "")
			}
		case *ast.IfStmt:
			repl("if-non-bool", x.Cond.Pos(), x.Cond.End(), `gIntVar`)
		case *ast.ForStmt:
			if x.Cond != nil {
				repl("for-non-bool", x.Cond.Pos(), x.Cond.End(), `"c"`)
			}
		case *ast.RangeStmt:
			repl("range-over-float", x.X.Pos(), x.X.End(), `gFloatVar`)
		case *ast.SelectorExpr:
			if _, ok := info.Uses[x.Sel].(*types.Var); ok {
				if tv, ok := info.Types[x.X]; ok && !tv.IsType() {
					repl("field-misspelled", x.Sel.Pos(), x.Sel.End(), x.Sel.Name+"zz")
				}
			}
		case *ast.CompositeLit:
			if t := typeOf(x); t != nil {
				switch u := t.Underlying().(type) {
				case *types.Struct:
					if len(x.Elts) > 0 {
						if _, keyed := x.Elts[0].(*ast.KeyValueExpr); keyed {
							repl("struct-lit-unknown-field", x.Rbrace, x.Rbrace, ", Zzz: 1")
						}
					}
				case *types.Array:
					if u.Len() < 8 && len(x.Elts) > 0 {
						if _, keyed := x.Elts[0].(*ast.KeyValueExpr); !keyed {
							repl("array-lit-too-many", x.Rbrace, x.Rbrace, strings.Repeat(", 1", int(u.Len())+1))
							if int64(len(x.Elts)) < u.Len() && isBasic(u.Elem(), types.IsInteger) {
								// a keyed element at the last index followed by a positional one: index out of bounds
								repl("array-lit-key-then-overflow", x.Rbrace, x.Rbrace, fmt.Sprintf(", %d: 7, 8", u.Len()-1))
								repl("array-lit-key-out-of-range", x.Rbrace, x.Rbrace, fmt.Sprintf(", %d: 7", u.Len()))
							}
						}
					}
				case *types.Slice:
					if isBasicKind(u.Elem(), types.Float32) && len(x.Elts) > 0 {
						if _, keyed := x.Elts[0].(*ast.KeyValueExpr); !keyed {
							repl("slice-lit-float32-elem-overflow", x.Elts[0].Pos(), x.Elts[0].End(), `1e39`)
						}
					}
					if isBasic(u.Elem(), types.IsInteger) && len(x.Elts) > 0 {
						repl("slice-lit-wrong-elem", x.Rbrace, x.Rbrace, `, "e"`)
					}
				case *types.Map:
					if isBasicKind(u.Key(), types.Float32) && len(x.Elts) > 0 {
						if kv, ok := x.Elts[0].(*ast.KeyValueExpr); ok {
							repl("map-lit-float32-key-overflow", kv.Key.Pos(), kv.Key.End(), `1e39`)
						}
					}
					if len(x.Elts) > 0 && isBasic(u.Elem(), types.IsInteger) {
						repl("map-lit-wrong-value", x.Rbrace, x.Rbrace, `, "kz": "v"`)
					}
				}
			}
		case *ast.IndexExpr:
			if t := typeOf(x.X); t != nil {
				switch t.Underlying().(type) {
				case *types.Slice, *types.Array:
					repl("index-with-string", x.Index.Pos(), x.Index.End(), `"i"`)
				case *types.Map:
					repl("map-key-wrong-type", x.Index.Pos(), x.Index.End(), `1.5`)
				}
			}
		case *ast.UnaryExpr:
			if t := typeOf(x.X); t != nil && x.Op == token.SUB && isBasic(t, types.IsInteger) && info.Types[x.X].Value == nil {
				repl("unary-neg-string", x.X.Pos(), x.X.End(), `"n"`)
			}
			if x.Op == token.NOT {
				repl("unary-not-int", x.X.Pos(), x.X.End(), `gIntVar`)
			}
		case *ast.CaseClause:
			if len(x.List) == 1 {
				if t := typeOf(x.List[0]); t != nil && isBasic(t, types.IsInteger) {
					repl("case-string-for-int", x.List[0].Pos(), x.List[0].End(), `"k"`)
				}
			}
		case *ast.SendStmt:
			repl("send-wrong-elem", x.Value.Pos(), x.Value.End(), `"v"`)
			repl("send-on-recv-only", x.Chan.Pos(), x.Chan.End(), `gRecvOnly`)
		case *ast.ValueSpec:
			if len(x.Values) == 1 && x.Type != nil {
				if t := typeOf(x.Type); t != nil {
					if b, ok := t.Underlying().(*types.Basic); ok && (b.Kind() == types.Int8 || b.Kind() == types.Uint8) {
						repl("var-const-out-of-range", x.Values[0].Pos(), x.Values[0].End(), `300`)
					}
					if isBasicKind(t, types.Float32) {
						repl("var-float32-const-out-of-range", x.Values[0].Pos(), x.Values[0].End(), `1e39`)
					}
					if isBasicKind(t, types.Float64) {
						repl("var-float64-const-out-of-range", x.Values[0].Pos(), x.Values[0].End(), `1e309`)
					}
					if _, ok := t.Underlying().(*types.Interface); ok && t.String() != "interface{}" && t.String() != "any" {
						repl("iface-not-implemented", x.Values[0].Pos(), x.Values[0].End(), `NoArea{1}`)
					}
				}
			}
		case *ast.Ident:
			if obj, ok := info.Uses[x].(*types.Var); ok && !obj.IsField() && obj.Pkg() != nil && perOp["undefined-name"] < maxPerOp && len(x.Name) > 1 {
				repl("undefined-name", x.Pos(), x.End(), x.Name+"Undef")
			}
		}
		return true
	})
	return out
}

// helper declarations every base program gets (targets of the replacement texts)
const c12Helpers = `
var gIntVar = 7
var gFloatVar = 2.5
var gSlice = []int{1}
var gRecvOnly <-chan int = make(chan int)

func voidFn() {}
`

func isBasicKind(t types.Type, k types.BasicKind) bool {
	if t == nil {
		return false
	}
	b, ok := t.Underlying().(*types.Basic)
	return ok && b.Kind() == k
}

func c12Bases(r *core.Run, n int) map[string]string {
	bases := map[string]string{"rich": strings.Replace(c12RichBase, "func main() {", c12Helpers+"\nfunc main() {", 1)}
	start := (r.Seed * 7907) % c12BaseUniverse
	for k := 0; k < n; k++ {
		idx := (start + uint64(k)) % c12BaseUniverse
		p := genProgram(idx, 3)
		p.Shared += c12Marks + c12Helpers + "\nfunc two() (int, string) { return 1, \"x\" }\n"
		src := p.Render(nil)
		src = strings.Replace(src, "func main() {\n", "func main() {\n\tmark(\"main\")\n", 1)
		bases[fmt.Sprintf("p%d", idx)] = src
	}
	return bases
}

// the base programs are programs 0..299 of the C01 universe (3 cells each) plus the site-rich base
const c12BaseUniverse = 300

type c12Obs struct{ out, err, panic string }

func c12Eval(src string) (o c12Obs) {
	var out bytes.Buffer
	i := interp.New(interp.Options{Stdout: &out, Stderr: &bytes.Buffer{}})
	i.Use(stdlib.Symbols)
	defer func() {
		if r := recover(); r != nil {
			o.panic = fmt.Sprint(r)
		}
		o.out = out.String()
	}()
	if _, err := i.Eval(src); err != nil {
		o.err = err.Error()
	}
	return
}

func init() {
	checks["C12"] = checkC12
	core.BatchModes["c12"] = func(it *core.BatchItem) map[string]string {
		o := c12Eval(it.Data["src"])
		if len(o.out) > 300 {
			o.out = o.out[:300]
		}
		return map[string]string{"out": o.out, "err": o.err, "panic": o.panic}
	}
}

func checkC12(r *core.Run) {
	r.Rule = "cell = (base program, mutation operator, site); base programs = a hand-written site-rich program (interfaces, channels with directions, composite literals, builtins, conversions) and programs of the C01 corpus; 45 single-point type-breaking operators are applied at every applicable site (capped per operator and base); go/types confirms the base is well-typed and the mutant is ill-typed with an error of a class the property lists; verdict = Eval returns a non-nil error, not a byte reached Options.Stdout (a package-level initialiser, init and main's first statement print markers) and no Go panic escaped; the unmodified base must be accepted and print its markers. non-trivial = mutant confirmed ill-typed by go/types"
	r.Assume = []string{"go/types of the installed toolchain decides well-/ill-typedness"}
	nb, cap := 16, 10
	if r.Thorough() {
		nb, cap = c12BaseUniverse, 10
	}
	if os.Getenv("VERIF_C12_ALL") != "" {
		nb, cap = c12BaseUniverse, 10
	}
	bases := c12Bases(r, nb)
	var ids []string
	for id := range bases {
		ids = append(ids, id)
	}
	sort.Strings(ids)
	var items []core.BatchItem
	var muts []c12Mutant
	byOp := map[string]int{}
	skipped := 0
	// mutant generation and the go/types verdicts, in parallel over the base programs
	type baseRes struct {
		baseErr string
		ms      []c12Mutant
		skipped int
	}
	results := make([]baseRes, len(ids))
	var wg sync.WaitGroup
	sem := make(chan struct{}, runtime.NumCPU())
	for bi, id := range ids {
		wg.Add(1)
		sem <- struct{}{}
		go func(bi int, id string) {
			defer wg.Done()
			defer func() { <-sem }()
			src := bases[id]
			if ok, msg, _, _, _ := c12Check(src); !ok {
				results[bi].baseErr = msg
				return
			}
			for _, m := range c12Mutants(id, src, cap) {
				ok, msg, _, _, _ := c12Check(m.src)
				if ok || !c12InScope(msg) || strings.HasPrefix(msg, "syntax") {
					results[bi].skipped++
					continue
				}
				m.class = msg
				results[bi].ms = append(results[bi].ms, m)
			}
		}(bi, id)
	}
	wg.Wait()
	for bi, id := range ids {
		if results[bi].baseErr != "" {
			r.Inconclusive("C12/"+id+"/base", "base rejected by go/types: "+results[bi].baseErr)
			continue
		}
		items = append(items, core.BatchItem{ID: "C12/" + id + "/base", Data: map[string]string{"src": bases[id]}})
		muts = append(muts, c12Mutant{cell: "C12/" + id + "/base", op: "base"})
		skipped += results[bi].skipped
		for _, m := range results[bi].ms {
			muts = append(muts, m)
			items = append(items, core.BatchItem{ID: m.cell, Data: map[string]string{"src": m.src}})
			byOp[m.op]++
		}
	}
	pool := newPool(r)
	for q, br := range pool.RunBatch("c12", items, 40, 300000) {
		m := muts[q]
		w := map[string]any{"operator": m.op, "go_types_error": m.class, "stdout": br.Data["out"], "yaegi_error": br.Data["err"]}
		if m.op != "base" {
			w["source"] = m.src
		}
		w["tags"] = "known:" + m.op
		switch {
		case br.Crash != "":
			w["diff"] = "the evaluating process died: " + firstLines2(br.Crash, 4)
			r.Fail(m.cell, w)
		case m.op == "base":
			if br.Data["err"] != "" || br.Data["panic"] != "" || !strings.Contains(br.Data["out"], "#MARK main") {
				w["diff"] = "the well-typed base program was rejected or did not run: " + br.Data["err"] + br.Data["panic"]
				r.Fail(m.cell, w)
			} else {
				r.Ok(m.cell)
			}
		case br.Data["panic"] != "":
			w["diff"] = "a Go panic escaped Eval: " + br.Data["panic"]
			r.Fail(m.cell, w)
		case br.Data["err"] == "":
			w["diff"] = "ill-typed program accepted (go/types: " + m.class + "); stdout: " + firstLines2(br.Data["out"], 2)
			r.Fail(m.cell, w)
		case br.Data["out"] != "":
			w["diff"] = "error returned only after part of the program ran (stdout: " + firstLines2(br.Data["out"], 2) + "); error: " + br.Data["err"]
			r.Fail(m.cell, w)
		default:
			r.Ok(m.cell)
			if q%211 == 0 {
				r.Sample(map[string]any{"cell": m.cell, "go_types": m.class, "yaegi": br.Data["err"]})
			}
		}
	}
	r.Extra["base_programs"] = len(ids)
	r.Extra["mutants_by_operator"] = byOp
	r.Extra["mutants_not_judged"] = skipped
}
