package main

import (
	"fmt"
	"os"
	"sort"
	"strings"

	"verifharness/core"
)

// C05: method calls and interface operations dispatch as in compiled Go. Generated type hierarchies (embedding
// by value and by pointer, promoted and shadowed methods, value/pointer receivers, a named non-struct type,
// interfaces with overlapping method sets) crossed with call, method value, assertion, type switch and
// host-interface forms; every method prints its own identity and the receiver's state; gc is the reference.

type c05Method struct {
	name string
	ptr  bool
}

type c05Type struct {
	name    string
	field   string
	methods []c05Method
	embeds  []c05Embed
	isNum   bool
}

type c05Embed struct {
	t   *c05Type
	ptr bool
}

// methodSet of T (ptr=false) or *T (ptr=true): name -> owner description (only existence matters)
func (t *c05Type) methodSet(ptr bool) map[string]bool {
	ms := map[string]bool{}
	own := map[string]bool{}
	for _, m := range t.methods {
		own[m.name] = true
		if !m.ptr || ptr {
			ms[m.name] = true
		}
	}
	for _, e := range t.embeds {
		var inner map[string]bool
		if e.ptr {
			inner = e.t.methodSet(true)
		} else {
			inner = e.t.methodSet(ptr)
		}
		for n := range inner {
			if !own[n] {
				ms[n] = true
			}
		}
	}
	return ms
}

// callable on an addressable variable of type T: the method set of *T
func (t *c05Type) callable() map[string]bool { return t.methodSet(true) }

type c05gen struct {
	rg    *core.Rng
	p     string // name prefix
	types []*c05Type
	ifs   map[string][]string
	b     strings.Builder
	body  strings.Builder
	tags  map[string]bool
}

// rarely: forms that hit known yaegi defects stay in the corpus but are rare, so they do not mask the other forms
func (g *c05gen) rarely(tag string) bool {
	if g.rg.Chance(1, 30) {
		g.tags["known:"+tag] = true
		return true
	}
	return false
}

func (g *c05gen) w(f string, a ...any) { fmt.Fprintf(&g.body, "\t"+f+"\n", a...) }

func (g *c05gen) declType(t *c05Type) {
	if t.isNum {
		fmt.Fprintf(&g.b, "type %s int\n\n", t.name)
	} else {
		fmt.Fprintf(&g.b, "type %s struct {\n", t.name)
		for _, e := range t.embeds {
			if e.ptr {
				fmt.Fprintf(&g.b, "\t*%s\n", e.t.name)
			} else {
				fmt.Fprintf(&g.b, "\t%s\n", e.t.name)
			}
		}
		fmt.Fprintf(&g.b, "\t%s int\n}\n\n", t.field)
	}
	for _, m := range t.methods {
		// value receivers also write to their receiver: the caller's object must not change
		recv, state, mut := "r "+t.name, "r."+t.field, "\tr."+t.field+" += 5\n"
		if t.isNum {
			state = "int(r)"
			mut = "\tr += 5\n"
		}
		if m.ptr {
			recv = "r *" + t.name
			if t.isNum {
				state = "int(*r)"
				mut = "\t*r += 10\n"
			} else {
				mut = "\tr." + t.field + " += 10\n"
			}
		}
		fmt.Fprintf(&g.b, "func (%s) %s() int {\n\tobs(\"%s.%s\", %s)\n%s\treturn %s\n}\n\n", recv, m.name, t.name, m.name, state, mut, state)
	}
}

func c05Cell(progIdx uint64, k int) core.Cell {
	rg := core.NewRng(progIdx*4099 + uint64(k)).Sub("C05")
	p := fmt.Sprintf("X%d_%d", progIdx, k)
	g := &c05gen{rg: rg, p: p, ifs: map[string][]string{}, tags: map[string]bool{}}
	names := []string{"M0", "M1", "M2", "M3", "M4", "M5"}
	core.Shuffle(rg, names)
	mk := func(n string, field string, ms []string) *c05Type {
		t := &c05Type{name: p + n, field: field}
		for _, m := range ms {
			t.methods = append(t.methods, c05Method{m, rg.Bool()})
		}
		return t
	}
	a := mk("A", "fa", names[0:2])
	bt := mk("B", "fb", names[2:4])
	c := mk("C", "fc", names[4:5])
	mid := &c05Type{name: p + "Mid", field: "fm", embeds: []c05Embed{{a, false}, {bt, rg.Bool()}}}
	if rg.Chance(1, 2) {
		g.tags["shadow-promoted"] = true
		mid.methods = append(mid.methods, c05Method{names[0], rg.Bool()}) // shadows A's first method
	}
	top := &c05Type{name: p + "Top", field: "ft", embeds: []c05Embed{{mid, rg.Chance(1, 3)}, {c, false}}}
	if rg.Chance(1, 2) {
		top.methods = append(top.methods, c05Method{names[5], rg.Bool()})
	}
	if rg.Chance(1, 3) {
		g.tags["shadow-depth2"] = true
		top.methods = append(top.methods, c05Method{names[2], rg.Bool()}) // shadows B's method two levels down
	}
	num := &c05Type{name: p + "Num", isNum: true, methods: []c05Method{{names[0], false}, {names[1], true}}}
	g.types = []*c05Type{a, bt, c, mid, top, num}
	for _, t := range g.types {
		g.declType(t)
	}
	// interfaces
	inames := []string{}
	for i := 0; i < 4; i++ {
		n := fmt.Sprintf("%sI%d", p, i)
		sub := append([]string{}, names...)
		core.Shuffle(rg, sub)
		sub = sub[:1+rg.Intn(3)]
		sort.Strings(sub)
		g.ifs[n] = sub
		inames = append(inames, n)
		fmt.Fprintf(&g.b, "type %s interface {\n", n)
		for _, m := range sub {
			fmt.Fprintf(&g.b, "\t%s() int\n", m)
		}
		g.b.WriteString("}\n\n")
	}
	// an interface embedding another one
	emb := p + "IE"
	extra := names[rg.Intn(len(names))]
	g.ifs[emb] = dedup(append(append([]string{}, g.ifs[inames[0]]...), extra))
	if !contains(g.ifs[inames[0]], extra) {
		fmt.Fprintf(&g.b, "type %s interface {\n\t%s\n\t%s() int\n}\n\n", emb, inames[0], extra)
	} else {
		fmt.Fprintf(&g.b, "type %s interface {\n\t%s\n}\n\n", emb, inames[0])
	}
	inames = append(inames, emb)

	// values
	bInit := "B: " + bt.name + "{fb: 20}"
	if mid.embeds[1].ptr {
		bInit = "B: &" + bt.name + "{fb: 20}"
	}
	bInit = strings.Replace(bInit, "B:", bt.name+":", 1)
	midLit := fmt.Sprintf("%s{%s: %s{fa: 10}, %s, fm: 30}", mid.name, a.name, a.name, bInit)
	topMid := mid.name + ": " + midLit
	if top.embeds[0].ptr {
		topMid = mid.name + ": &" + midLit
	}
	g.w("va := %s{fa: 1}", a.name)
	g.w("vm := %s", midLit)
	g.w("vt := %s{%s, %s: %s{fc: 40}, ft: 50}", top.name, topMid, c.name, c.name)
	g.w("pt := &%s{%s, %s: %s{fc: 41}, ft: 51}", top.name, topMid, c.name, c.name)
	g.w("vn := %s(7)", num.name)
	g.w("_, _, _, _, _ = va, vm, vt, pt, vn")
	type val struct {
		expr string
		t    *c05Type
		ptr  bool // static type is *T
		addr bool // addressable variable
	}
	vals := []val{{"va", a, false, true}, {"vm", mid, false, true}, {"vt", top, false, true}, {"pt", top, true, true}, {"vn", num, false, true}, {"(&vm)", mid, true, false}, {"(&vn)", num, true, false}}
	nforms := 14 + rg.Intn(12)
	for f := 0; f < nforms; f++ {
		v := vals[rg.Intn(len(vals))]
		call := v.t.callable()
		if !v.addr && !v.ptr {
			call = v.t.methodSet(false)
		}
		var cm []string
		for m := range call {
			cm = append(cm, m)
		}
		sort.Strings(cm)
		mset := v.t.methodSet(v.ptr) // method set of the static type (for interface satisfaction)
		var sat []string
		for _, in := range inames {
			ok := true
			for _, m := range g.ifs[in] {
				if !mset[m] {
					ok = false
				}
			}
			if ok {
				sat = append(sat, in)
			}
		}
		switch form := rg.Intn(12); {
		case form <= 2 && len(cm) > 0:
			g.tags["direct-call"] = true
			g.w("obs(\"call\", %s.%s())", v.expr, core.Pick(rg, cm))
		case form == 3 && len(cm) > 0:
			g.tags["method-value"] = true
			m := core.Pick(rg, cm)
			g.w("mv%d := %s.%s", f, v.expr, m)
			g.w("obs(\"mv\", mv%d(), mv%d())", f, f)
		case form == 4 && len(cm) > 0 && v.addr && !v.ptr && !v.t.isNum:
			g.tags["method-value-then-mutate"] = true
			m := core.Pick(rg, cm)
			g.w("mw%d := %s.%s", f, v.expr, m)
			g.w("%s.%s += 1000", v.expr, v.t.field)
			g.w("obs(\"mw\", mw%d())", f)
		case form <= 7 && len(sat) > 0:
			g.tags["iface-call"] = true
			in := core.Pick(rg, sat)
			g.w("var i%d %s = %s", f, in, v.expr)
			for _, m := range g.ifs[in] {
				g.w("obs(\"icall\", i%d.%s())", f, m)
			}
			// assertions to every other interface and to concrete types
			for _, jn := range inames {
				if jn != in && rg.Chance(1, 2) && g.rarely("assert-to-interface") {
					g.tags["assert-iface"] = true
					g.w("if j, ok := i%d.(%s); ok {", f, jn)
					g.w("\tobs(\"as-%s\", ok, j.%s())", jn[len(p):], g.ifs[jn][0])
					g.w("} else {")
					g.w("\tobs(\"as-%s\", ok)", jn[len(p):])
					g.w("}")
				}
			}
			g.tags["assert-concrete"] = true
			ct := core.Pick(rg, []string{top.name, "*" + top.name, mid.name, "*" + mid.name, a.name, num.name, "*" + num.name})
			g.w("{")
			g.w("\tvar e interface{} = i%d", f)
			g.w("\t_, ok := e.(%s)", ct)
			g.w("\tobs(\"ac\", %q, ok)", ct[len(strings.TrimLeft(ct, "*"))-len(strings.TrimLeft(ct, "*")):])
			g.w("}")
		case form == 8 && g.rarely("type-switch"):
			g.tags["type-switch"] = true
			g.w("{")
			g.w("\tvar e interface{} = %s", v.expr)
			g.w("\tswitch x := e.(type) {")
			cases := append([]string{}, inames...)
			cases = append(cases, top.name, "*"+top.name, mid.name, "*"+mid.name, num.name, "*"+num.name, a.name)
			core.Shuffle(rg, cases)
			for _, cs := range cases[:3+rg.Intn(3)] {
				g.w("\tcase %s:", cs)
				if ms, isI := g.ifs[cs]; isI {
					g.w("\t\tobs(\"ts\", %q, x.%s())", cs[len(p):], ms[0])
				} else {
					g.w("\t\t_ = x")
					g.w("\t\tobs(\"ts\", %q)", strings.TrimLeft(cs, "*")[len(p):]+fmt.Sprint(strings.HasPrefix(cs, "*")))
				}
			}
			g.w("\tdefault:")
			g.w("\t\tobs(\"ts\", \"default\")")
			g.w("\t}")
			g.w("}")
		case form == 9 && g.rarely("nil-interface-assert"):
			g.tags["nil-iface"] = true
			in := core.Pick(rg, inames)
			g.w("{")
			g.w("\tvar n %s", in)
			g.w("\t_, ok := n.(%s)", core.Pick(rg, inames))
			g.w("\tobs(\"nil\", n == nil, ok)")
			g.w("}")
		case form == 10 && !v.t.isNum && len(v.t.embeds) > 0:
			g.tags["call-through-embedded-field"] = true
			e := v.t.embeds[rg.Intn(len(v.t.embeds))]
			var em []string
			for m := range e.t.callable() {
				em = append(em, m)
			}
			sort.Strings(em)
			if len(em) > 0 && v.addr {
				g.w("obs(\"emb\", %s.%s.%s())", v.expr, e.t.name, core.Pick(rg, em))
			}
		default:
			g.w("obs(\"state\", va.fa, vm.fm, vm.fa, vt.ft, pt.ft, int(vn))")
		}
	}
	g.w("obs(\"final\", va.fa, vm.fm, vm.fa, vt.ft, pt.ft, int(vn))")
	name := "c05_" + p
	var tags []string
	for t := range g.tags {
		tags = append(tags, t)
	}
	sort.Strings(tags)
	return core.Cell{ID: fmt.Sprintf("C05/p%d/c%d", progIdx, k), Fn: name, Tags: tags,
		Decls: g.b.String() + "func " + name + "() {\n" + g.body.String() + "}\n"}
}

func contains(a []string, x string) bool {
	for _, y := range a {
		if y == x {
			return true
		}
	}
	return false
}

const c05Universe = 3000
const c05Cells = 8

func init() { checks["C05"] = checkC05 }

func checkC05(r *core.Run) {
	r.Rule = "universe = 3000 generated programs x 8 cells + a fixed family of host-interface cells; a cell declares a hierarchy (three base structs, a middle struct embedding one by value and one by value or pointer, a top struct embedding the middle one by value or pointer, promoted and shadowed methods at depth 1 and 2, random value/pointer receivers, a named int type with methods, four interfaces with overlapping method sets and one embedding another) and runs 14..25 forms: direct calls on values, addressable values, pointers and through embedded fields, method values (also evaluated, receiver mutated, then called), calls through every satisfied interface, two-result assertions to the other interfaces and to concrete types, type switches with shuffled cases, nil interfaces; every method prints its identity and receiver state; verdict per cell = log equality with the gc binary"
	r.Assume = []string{"gc build of the same source is the reference", "types are structurally distinct (uniquely named fields), as the property requires"}
	n := 60
	if r.Thorough() {
		n = 1500
	}
	if os.Getenv("VERIF_C05_ALL") != "" {
		n = c05Universe
	}
	start := (r.Seed * 4111) % c05Universe
	var progs []*core.CellProgram
	for k := 0; k < n; k++ {
		idx := (start + uint64(k)) % c05Universe
		p := &core.CellProgram{Name: fmt.Sprintf("C05-p%d", idx)}
		for c := 0; c < c05Cells; c++ {
			p.Cells = append(p.Cells, c05Cell(idx, c))
		}
		progs = append(progs, p)
	}
	progs = append(progs, c05HostProgram())
	pool := newPool(r)
	tagCount := map[string]int{}
	lines := 0
	rej := diffChunked(r, pool, progs, 60, func(v *core.CellVerdict) {
		for _, t := range v.Cell.Tags {
			tagCount[t]++
		}
		if v.Diff == "" && len(v.Native) > 0 {
			lines += len(v.Native)
			r.Ok(v.Cell.ID)
			if len(v.Native) > 40 {
				r.Sample(map[string]any{"cell": v.Cell.ID, "log_lines": len(v.Native), "tags": v.Cell.Tags})
			}
			return
		}
		if v.Diff == "" {
			r.Inconclusive(v.Cell.ID, "no output")
			return
		}
		r.Fail(v.Cell.ID, map[string]any{"diff": v.Diff, "tags": strings.Join(v.Cell.Tags, ","), "source": v.Prog.SingleCellSource(v.Cell.ID), "native": clip(v.Native, 40), "yaegi": clip(v.Yaegi, 40), "yaegi_error": v.YErr})
	})
	r.Extra["programs"] = len(progs)
	r.Extra["log_lines_compared"] = lines
	r.Extra["generator_rejects"] = rej
	r.Extra["form_histogram"] = tagCount
}
