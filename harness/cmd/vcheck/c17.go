package main

import (
	"fmt"
	"go/build"
	"go/build/constraint"
	"io"
	"runtime"
	"sort"
	"strings"
	"sync"
	"testing/fstest"

	"verifharness/core"

	"github.com/traefik/yaegi/interp"
)

// C17: a file takes part exactly when go/build.Context.MatchFile selects it.
// Monitor: real interpreter loads generated packages from a MapFS; visibility of each file's marker
// symbol is observed through Eval; the reference model is go/build itself on the same name and content.

type c17File struct {
	name   string
	header string // text placed before "package p"
	cell   string
	ytags  []string // yaegi:tags declared by this file
}

type c17Case struct {
	id    string
	tags  []string
	test  bool // EvalTest (include _test.go files) vs import (exclude)
	files []c17File
}

var c17OS = []string{"linux", "windows", "darwin", "android", "plan9", "hurd", "zos", "illumos", "wasip1", "js"}
var c17Arch = []string{"amd64", "arm64", "386", "riscv64", "wasm", "amd64p32", "sparc64", "loong64", "s390x", "ppc"}

func c17NameUniverse() []string {
	words := []string{}
	words = append(words, c17OS...)
	words = append(words, c17Arch...)
	words = append(words, "foo", "unix", "test", "cgo", "Linux", "amd", "")
	seen := map[string]bool{}
	var out []string
	add := func(n string) {
		if !seen[n] {
			seen[n] = true
			out = append(out, n)
		}
	}
	for _, a := range words {
		for _, b := range words {
			for _, c := range words {
				parts := []string{"f"}
				for _, w := range []string{a, b, c} {
					if w != "" {
						parts = append(parts, w)
					}
				}
				add(strings.Join(parts, "_") + ".go")
			}
		}
	}
	// names without leading stem, leading _ and ., non-go files
	for _, n := range []string{"linux.go", "amd64.go", "windows.go", "arm64.go", "_f.go", ".f.go", "_linux.go", "f.txt", "f_windows.txt", "linux_amd64.go", "windows_amd64.go", "test.go", "f_.go", "f__linux.go", "f_linux_.go", "f_windows__amd64.go", "a_b_c_d_windows.go", "a_b_c_d_linux_arm64.go", "a_windows_b_c_d.go"} {
		add(n)
	}
	return out
}

var c17Tags = []string{"linux", "windows", "darwin", "android", "unix", "amd64", "arm64", "386", "go1.1", "go1.21", "go1.22", "go1.23", "go1.24", "go1.99", "a", "b", "c", "d", "ignore", "solaris", "illumos", "ios"}

func c17Expr(r *core.Rng, depth int) constraint.Expr {
	if depth == 0 || r.Chance(1, 3) {
		t := &constraint.TagExpr{Tag: core.Pick(r, c17Tags)}
		if r.Chance(1, 3) {
			return &constraint.NotExpr{X: t}
		}
		return t
	}
	x, y := c17Expr(r, depth-1), c17Expr(r, depth-1)
	switch r.Intn(5) {
	case 0, 1:
		return &constraint.AndExpr{X: x, Y: y}
	case 2, 3:
		return &constraint.OrExpr{X: x, Y: y}
	}
	if _, isNot := x.(*constraint.NotExpr); isNot {
		return x // "!!x" is a syntax error in //go:build lines
	}
	return &constraint.NotExpr{X: x}
}

// raw +build lines written directly in the old syntax (space = OR, comma = AND, lines = AND)
func c17PlusLines(r *core.Rng) []string {
	n := 1 + r.Intn(3)
	lines := make([]string, n)
	for i := range lines {
		var opts []string
		for o := 0; o < 1+r.Intn(3); o++ {
			var terms []string
			for t := 0; t < 1+r.Intn(3); t++ {
				tag := core.Pick(r, c17Tags)
				if r.Chance(1, 3) {
					tag = "!" + tag
				}
				terms = append(terms, tag)
			}
			opts = append(opts, strings.Join(terms, ","))
		}
		lines[i] = "// +build " + strings.Join(opts, " ")
	}
	return lines
}

// c17Header builds the header of header-universe item i.
func c17Header(i int) (place, syntax, text, desc string) {
	r := core.NewRng(uint64(i)).Sub("C17hdr")
	x := c17Expr(r, 1+r.Intn(3))
	gob := "//go:build " + x.String()
	plus, err := constraint.PlusBuildLines(x)
	if err != nil {
		plus = []string{"// +build ignore"}
	}
	places := []string{"top", "top", "top", "license", "doc", "slashstar", "afterblank2", "crlf"}
	place = places[r.Intn(len(places))]
	syntaxes := []string{"go", "go", "plus", "plusraw", "both", "bothdisagree", "goplusother"}
	syntax = syntaxes[r.Intn(len(syntaxes))]
	var lines []string
	switch syntax {
	case "go":
		lines = []string{gob}
	case "plus":
		lines = plus
	case "plusraw":
		lines = c17PlusLines(r)
	case "both":
		lines = append([]string{gob}, plus...)
	case "bothdisagree":
		y := c17Expr(r, 2)
		p2, err := constraint.PlusBuildLines(y)
		if err != nil {
			p2 = []string{"// +build ignore"}
		}
		lines = append([]string{gob}, p2...)
	case "goplusother":
		lines = append(c17PlusLines(r), gob)
	}
	body := strings.Join(lines, "\n")
	desc = strings.Join(lines, " ; ")
	switch place {
	case "top":
		text = body + "\n\n"
	case "license":
		text = "// Copyright notice.\n// All rights reserved.\n\n" + body + "\n\n"
	case "doc":
		text = body + "\n" // directly followed by the package clause: it is the doc comment
	case "slashstar":
		inner := strings.ReplaceAll(body, "// +build", "+build")
		inner = strings.ReplaceAll(inner, "//go:build", "go:build")
		text = "/*\n" + inner + "\n*/\n\n"
	case "afterblank2":
		text = "\n\n// some comment\n\n\n" + body + "\n\n// Package p is documented here.\n"
	case "crlf":
		text = strings.ReplaceAll(body+"\n\n", "\n", "\r\n")
	}
	return
}

func c17Ref(tags []string, name, content string) (bool, error) {
	ctx := build.Default
	ctx.BuildTags = tags
	ctx.OpenFile = func(string) (io.ReadCloser, error) { return io.NopCloser(strings.NewReader(content)), nil }
	return ctx.MatchFile("/d", name)
}

func c17Content(f *c17File, k int, pkg string) string {
	return fmt.Sprintf("%spackage %s\n\nfunc M%d() int { return %d }\n", f.header, pkg, k, k+1)
}

// run one case against the real interpreter; report per file.
func c17Run(c *c17Case, report func(cell string, want, got bool, detail string)) {
	m := fstest.MapFS{}
	pkg := "p"
	dir := "gp/src/p/"
	if c.test {
		pkg = "tdir"
		dir = "gp/src/tdir/"
	}
	m[dir+"zz_neutral.go"] = &fstest.MapFile{Data: []byte("package " + pkg + "\n\nfunc Neutral() int { return 7 }\n")}
	for k := range c.files {
		m[dir+c.files[k].name] = &fstest.MapFile{Data: []byte(c17Content(&c.files[k], k, pkg))}
	}
	// reference: files in directory order; yaegi:tags accumulate from selected files only
	names := make([]int, len(c.files))
	for k := range names {
		names[k] = k
	}
	sort.Slice(names, func(a, b int) bool { return c.files[names[a]].name < c.files[names[b]].name })
	want := make([]bool, len(c.files))
	tags := append([]string{}, c.tags...)
	for _, k := range names {
		f := &c.files[k]
		ok, err := c17Ref(tags, f.name, c17Content(f, k, pkg))
		if err != nil {
			ok = false
		}
		if !c.test && strings.HasSuffix(f.name, "_test.go") {
			ok = false
		}
		want[k] = ok
		if ok {
			for _, t := range f.ytags {
				tags = append(tags, t)
			}
		}
	}
	var hostPanic string
	got := make([]bool, len(c.files))
	var loadErr error
	func() {
		defer func() {
			if r := recover(); r != nil {
				hostPanic = fmt.Sprint(r)
			}
		}()
		i := interp.New(interp.Options{GoPath: "gp", SourcecodeFilesystem: m, BuildTags: append([]string{}, c.tags...)})
		if c.test {
			const tp = "./gp/src/tdir"
			loadErr = i.EvalTest(tp)
			if loadErr != nil {
				return
			}
			syms := i.Symbols(tp)[tp]
			if _, ok := syms["Neutral"]; !ok {
				loadErr = fmt.Errorf("neutral file not visible in Symbols(%q): %d symbols", tp, len(syms))
				return
			}
			for k := range c.files {
				_, got[k] = syms[fmt.Sprintf("M%d", k)]
			}
			return
		}
		_, loadErr = i.Eval(`import "p"`)
		if loadErr != nil {
			return
		}
		if _, err := i.Eval("p.Neutral()"); err != nil {
			loadErr = fmt.Errorf("neutral file not visible: %v", err)
			return
		}
		for k := range c.files {
			_, err := i.Eval(fmt.Sprintf("p.M%d()", k))
			got[k] = err == nil
		}
	}()
	for k := range c.files {
		d := ""
		if hostPanic != "" {
			d = "host panic: " + hostPanic
		} else if loadErr != nil {
			d = "load error: " + loadErr.Error()
		}
		g := got[k]
		if d != "" {
			g = !want[k] // force a mismatch: loading the package failed
		}
		report(c.files[k].cell, want[k], g, d)
	}
}

func init() { checks["C17"] = checkC17 }

func checkC17(r *core.Run) {
	r.Rule = "cell = (file name | header placement/syntax/text, tag set, test mode); the file is loaded by the real interpreter from a MapFS next to a neutral file and its marker constant is looked up with Eval; verdict = visibility equals go/build.Context.MatchFile (same GOOS/GOARCH/release/tags) and, outside test mode, the _test.go exclusion; non-trivial = the package loaded and the neutral marker was visible"
	r.Assume = []string{"go/build.Context.MatchFile of the installed toolchain is the reference", "cgo/compiler tags beyond 'gc' are not generated"}
	names := c17NameUniverse()
	const hdrUniverse = 60000
	nHdr := 6000
	if r.Thorough() {
		nHdr = hdrUniverse
		r.Exhaust = true
	}
	start := int((r.Seed * 7919) % hdrUniverse)
	var cases []*c17Case
	tagSets := [][]string{nil, {"a"}, {"b", "c"}, {"a", "b", "c", "d"}, {"ignore"}, {"windows"}}
	// names: every name, in both modes, packed 40 per package
	for _, test := range []bool{false, true} {
		for i := 0; i < len(names); i += 40 {
			j := i + 40
			if j > len(names) {
				j = len(names)
			}
			c := &c17Case{id: fmt.Sprintf("names-%v-%d", test, i), test: test}
			for _, n := range names[i:j] {
				if !strings.HasSuffix(n, ".go") {
					// non-go files must simply be ignored; content is not Go
					continue
				}
				c.files = append(c.files, c17File{name: n, cell: fmt.Sprintf("C17/name/%s/test=%v", n, test)})
			}
			cases = append(cases, c)
		}
	}
	// headers
	for h := 0; h < nHdr; h += 30 {
		ts := tagSets[(start+h)/30%len(tagSets)]
		c := &c17Case{id: fmt.Sprintf("hdr-%d", h), tags: ts, test: (start+h)/30%5 == 4}
		for q := 0; q < 30 && h+q < nHdr; q++ {
			idx := (start + h + q) % hdrUniverse
			place, syntax, text, desc := c17Header(idx)
			name := fmt.Sprintf("h%05d.go", idx)
			if idx%11 == 3 {
				name = fmt.Sprintf("h%05d_linux.go", idx)
			} else if idx%11 == 5 {
				name = fmt.Sprintf("h%05d_test.go", idx)
			}
			c.files = append(c.files, c17File{name: name, header: text,
				cell: fmt.Sprintf("C17/hdr/%s/%s/%s/tags=%s/test=%v", place, syntax, desc, strings.Join(ts, ","), c.test)})
		}
		cases = append(cases, c)
	}
	// yaegi:tags histories: tags declared by earlier selected files steer later files
	nY := 300
	if r.Thorough() {
		nY = 3000
	}
	for y := 0; y < nY; y++ {
		rg := core.NewRng(r.Seed*1000003 + uint64(y)).Sub("C17ytags")
		c := &c17Case{id: fmt.Sprintf("ytags-%d", y), tags: tagSets[rg.Intn(3)]}
		nf := 3 + rg.Intn(5)
		for q := 0; q < nf; q++ {
			var hdr []string
			var yt []string
			desc := ""
			if rg.Chance(2, 3) {
				x := c17Expr(rg, 1+rg.Intn(2))
				if rg.Bool() {
					hdr = append(hdr, "//go:build "+x.String())
				} else if pl, err := constraint.PlusBuildLines(x); err == nil {
					hdr = append(hdr, pl...)
				}
				desc = strings.Join(hdr, ";")
			}
			text := ""
			if rg.Chance(1, 2) {
				for _, t := range []string{"a", "b", "c", "d"} {
					if rg.Chance(1, 3) {
						yt = append(yt, t)
					}
				}
				if len(yt) > 0 {
					text = "// yaegi:tags " + strings.Join(yt, " ") + "\n\n"
				}
			}
			if len(hdr) > 0 {
				text += strings.Join(hdr, "\n") + "\n\n"
			}
			name := fmt.Sprintf("y%d.go", q)
			if rg.Chance(1, 6) {
				name = fmt.Sprintf("y%d_windows.go", q)
			}
			c.files = append(c.files, c17File{name: name, header: text, ytags: yt,
				cell: fmt.Sprintf("C17/ytags/%d:%s:%s:yt=%s/tags=%s", y, name, desc, strings.Join(yt, ","), strings.Join(c.tags, ","))})
		}
		cases = append(cases, c)
	}

	var mu sync.Mutex
	byClass := map[string]int{}
	selected, excluded := 0, 0
	var wg sync.WaitGroup
	ch := make(chan *c17Case, len(cases))
	for _, c := range cases {
		ch <- c
	}
	close(ch)
	for w := 0; w < runtime.NumCPU(); w++ {
		wg.Add(1)
		go func() {
			defer wg.Done()
			for c := range ch {
				c17Run(c, func(cell string, want, got bool, detail string) {
					mu.Lock()
					p := strings.SplitN(cell, "/", 5)
					cl := p[1]
					if p[1] == "hdr" {
						cl = p[1] + "/" + p[2] + "/" + p[3]
					}
					byClass[cl]++
					if want {
						selected++
					} else {
						excluded++
					}
					mu.Unlock()
					if want == got {
						r.Ok(cell)
						if want {
							r.Sample(map[string]any{"cell": cell, "selected": want})
						}
						return
					}
					r.Fail(cell, map[string]any{"diff": fmt.Sprintf("go/build selects=%v, yaegi visible=%v %s", want, got, detail), "case": c.id, "tags": c.tags, "test_mode": c.test, "files": c.files})
				})
			}
		}()
	}
	wg.Wait()
	r.Extra["cases"] = len(cases)
	r.Extra["cells_by_class"] = byClass
	r.Extra["reference_selected"] = selected
	r.Extra["reference_excluded"] = excluded
	r.Extra["name_universe"] = len(names)
	r.Extra["header_universe"] = hdrUniverse
	r.Extra["header_window"] = []int{start, nHdr}
	r.Extra["goos_goarch"] = build.Default.GOOS + "/" + build.Default.GOARCH
}
