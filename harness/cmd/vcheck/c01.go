package main

import (
	"fmt"
	"os"
	"sort"
	"strings"

	"verifharness/core"
)

// C01: interpreted programs behave like compiled ones (generated corpus, gc as reference).

func init() { checks["C01"] = checkC01 }

const c01Universe = 10000 // programs; from 4000 on the constructs that used to hit defects (tuple assignments with calls, composite destinations, constant conditions) are common
const c01CellsPerProgram = 20

func checkC01(r *core.Run) {
	r.Rule = "universe = 10000 seed-indexed programs (from program 4000 on, tuple assignments with calls, composite destinations and constant conditions are common) plus 20 hand-written regression cells; of 20 independent cells (functions of 15..35 generated statements over ints of three widths, float64, string, bool, structs, arrays, slices, maps, pointers, function values: nested if/else-if with init, 3-clause/condition/infinite for, range over slice/array/string/int/map/struct slices, switch with fallthrough and tagless, labelled break/continue, forward goto, closures capturing loop variables, multi-value and named results, recursion, compound assignment to fields/elements/pointees/map entries, multi-assignment, shadowing); every assignment is observed; verdict per cell = equality of its observation stream and way of ending between yaegi and the gc-built binary; non-trivial = the cell produced output on both sides"
	r.Assume = []string{"gc build of the same source is the reference", "programs are deterministic and terminating by construction (bounded loops, guarded indices, no map-order dependence)"}
	n := 120
	if r.Thorough() {
		n = 5000
	}
	if os.Getenv("VERIF_C01_ALL") != "" { // development: sweep the whole universe
		n = c01Universe
	}
	start := (r.Seed * 7907) % c01Universe
	var progs []*core.CellProgram
	for k := 0; k < n; k++ {
		progs = append(progs, genProgram((start+uint64(k))%c01Universe, c01CellsPerProgram))
	}
	progs = append(progs, c01RegressionProgram())
	tagCount := map[string]int{}
	tagFail := map[string]int{}
	pool := newPool(r)
	lines := 0
	rej := diffChunked(r, pool, progs, 60, func(v *core.CellVerdict) {
		for _, t := range v.Cell.Tags {
			tagCount[t]++
			if v.Diff != "" {
				tagFail[t]++
			}
		}
		if v.Diff == "" && len(v.Native) > 0 {
			lines += len(v.Native)
			r.Ok(v.Cell.ID)
			if len(v.Native) > 30 {
				r.Sample(map[string]any{"cell": v.Cell.ID, "lines": len(v.Native), "tags": v.Cell.Tags})
			}
			return
		}
		if v.Diff == "" {
			r.Inconclusive(v.Cell.ID, "no output")
			return
		}
		tags := append([]string{}, v.Cell.Tags...)
		sort.Strings(tags)
		r.Fail(v.Cell.ID, map[string]any{"diff": v.Diff, "tags": strings.Join(tags, ","), "source": v.Prog.SingleCellSource(v.Cell.ID), "native": clip(v.Native, 60), "yaegi": clip(v.Yaegi, 60), "yaegi_error": v.YErr})
	})
	r.Extra["programs"] = len(progs)
	r.Extra["lines_compared"] = lines
	r.Extra["generator_rejects"] = rej
	r.Extra["construct_histogram"] = tagCount
	r.Extra["construct_failures"] = tagFail
	r.Extra["universe_programs"] = c01Universe
	r.Extra["window_start"] = start
	if rej > 0 {
		fmt.Printf("NOTE %d programs rejected by the Go compiler (generator defects, not judged)\n", rej)
	}
}

// diffChunked bounds memory: programs are diffed in chunks.
func diffChunked(r *core.Run, pool *core.Pool, progs []*core.CellProgram, per int, report func(v *core.CellVerdict)) int {
	rej := 0
	for i := 0; i < len(progs); i += per {
		j := i + per
		if j > len(progs) {
			j = len(progs)
		}
		rej += core.DiffPrograms(r, pool, progs[i:j], report)
	}
	return rej
}
