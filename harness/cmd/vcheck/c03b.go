package main

import (
	"bytes"
	"fmt"
	"go/ast"
	"go/constant"
	"go/parser"
	"go/types"
	"math/big"
	"regexp"
	"strings"

	"verifharness/core"

	"github.com/traefik/yaegi/interp"
)

type bigInt = big.Int

var bigOne = big.NewInt(1)

// const blocks: iota, skips, implicit repetition, typed first specs.
func c03Block(idx uint64) (src string, names []string) {
	rg := core.NewRng(idx).Sub("C03block")
	var b strings.Builder
	b.WriteString("const (\n")
	n := 3 + rg.Intn(6)
	exprs := []string{"iota", "iota + 1", "1 << iota", "iota * iota", "1 << (10 * iota)", "-iota", "iota % 3", "'a' + iota", "1.5 * iota", "\"s\"", "iota == 2", "10 - iota", "1 << iota >> 1", "uint8(iota) + 250", "float32(iota) / 4"}
	typs := []string{"", "", "", "int8", "uint", "int64", "float64", "uint8"}
	for k := 0; k < n; k++ {
		name := fmt.Sprintf("K%d", k)
		switch {
		case k == 0 || rg.Chance(1, 3):
			e := core.Pick(rg, exprs)
			t := core.Pick(rg, typs)
			if strings.Contains(e, "\"") || strings.Contains(e, "==") || strings.Contains(e, "1.5") || strings.Contains(e, "uint8(") || strings.Contains(e, "float32(") {
				t = ""
			}
			if rg.Chance(1, 5) {
				fmt.Fprintf(&b, "\t%s, %sb %s = %s, %s\n", name, name, t, e, core.Pick(rg, []string{"iota", "iota + 100", "1 << iota"}))
				names = append(names, name, name+"b")
			} else {
				fmt.Fprintf(&b, "\t%s %s = %s\n", name, t, e)
				names = append(names, name)
			}
		case rg.Chance(1, 6):
			b.WriteString("\t_\n")
		default:
			// implicit repetition; may repeat a pair
			if last := lastSpecIsPair(b.String()); last {
				fmt.Fprintf(&b, "\t%s, %sb\n", name, name)
				names = append(names, name, name+"b")
			} else {
				fmt.Fprintf(&b, "\t%s\n", name)
				names = append(names, name)
			}
		}
	}
	b.WriteString(")\n")
	return b.String(), names
}

func lastSpecIsPair(s string) bool {
	lines := strings.Split(strings.TrimSpace(s), "\n")
	for i := len(lines) - 1; i > 0; i-- {
		l := strings.TrimSpace(lines[i])
		if l == "_" {
			continue
		}
		if strings.Contains(l, "=") {
			return strings.Contains(strings.Split(l, "=")[0], ",")
		}
	}
	return false
}

const c03BlockUniverse = 40000

var c03TypedSpec = regexp.MustCompile(`K[0-9]+b? (int8|uint|int64|float64|uint8) =`)

// child side: evaluate the block, then every name
func c03BlockObserve(it *core.BatchItem) map[string]string {
	res := map[string]string{}
	var out bytes.Buffer
	i := interp.New(interp.Options{Stdout: &out, Stderr: &out})
	func() {
		defer func() {
			if x := recover(); x != nil {
				res["panic"] = fmt.Sprint(x)
			}
		}()
		if _, err := i.Eval(it.Data["src"]); err != nil {
			res["err"] = err.Error()
		}
	}()
	if res["panic"] != "" || res["err"] != "" {
		return res
	}
	for _, nme := range strings.Split(it.Data["names"], ",") {
		func() {
			defer func() {
				if x := recover(); x != nil {
					res["panic"] = fmt.Sprint(x)
				}
			}()
			rv, err := i.Eval(nme)
			if err != nil {
				res["v:"+nme] = "error: " + err.Error()
			} else if rv.IsValid() && rv.CanInterface() {
				res["v:"+nme] = fmt.Sprintf("%T %v", rv.Interface(), rv.Interface())
			}
		}()
	}
	return res
}

func c03Blocks(r *core.Run, pool *core.Pool, n int) {
	type blk struct {
		cell, src string
		names     []string
		pkg       *types.Package
		refErr    string
	}
	var blks []blk
	var items []core.BatchItem
	for k := 0; k < n; k++ {
		idx := (r.Seed*7919 + uint64(k)) % c03BlockUniverse
		src, names := c03Block(idx)
		feat := "single"
		if strings.Contains(src, "b ") || strings.Contains(src, "b\n") {
			feat = "pairs"
		}
		if strings.Contains(src, "\t_\n") {
			feat += "+skip"
		}
		if c03TypedSpec.MatchString(src) {
			feat += "+typed"
		}
		if strings.Contains(src, "uint8(iota)") || strings.Contains(src, "float32(iota)") {
			feat += "+conv"
		}
		if strings.Contains(src, "1.5 *") || strings.Contains(src, "'a' +") {
			feat += "+mixed"
		}
		cell := fmt.Sprintf("C03/constblock/%s/@/%d", feat, idx)
		f, err := parser.ParseFile(c03Fset, "b.go", "package p\n"+src, 0)
		if err != nil {
			continue
		}
		var firstErr error
		conf := types.Config{Importer: c03Importer, Error: func(e error) {
			if firstErr == nil {
				firstErr = e
			}
		}}
		pkg, _ := conf.Check("p", c03Fset, []*ast.File{f}, nil)
		b := blk{cell: cell, src: src, names: names, pkg: pkg}
		if firstErr != nil {
			msg := firstErr.Error()
			if !(strings.Contains(msg, "overflows") || strings.Contains(msg, "truncated")) {
				continue // generator reject
			}
			b.refErr = msg
		}
		blks = append(blks, b)
		items = append(items, core.BatchItem{ID: cell, Data: map[string]string{"src": src, "names": strings.Join(names, ",")}})
	}
	for q, br := range pool.RunBatch("c03block", items, 100, 120000) {
		b := blks[q]
		w := map[string]any{"block": b.src}
		setKind := func(k string) { b.cell = strings.Replace(b.cell, "/@/", "/"+k+"/", 1) }
		switch {
		case br.Crash != "":
			w["diff"] = "the evaluating process died: " + firstLines2(br.Crash, 4)
			setKind("crash")
			r.Fail(b.cell, w)
			continue
		case br.Data["panic"] != "":
			w["diff"] = "a Go panic escaped Eval: " + br.Data["panic"]
			setKind("panic")
			r.Fail(b.cell, w)
			continue
		case b.refErr != "":
			if br.Data["err"] == "" {
				w["diff"] = "block accepted; the Go type checker rejects it: " + b.refErr
				setKind("accepts-invalid")
				r.Fail(b.cell, w)
			} else {
				setKind("ok")
				r.Ok(b.cell)
			}
			continue
		case br.Data["err"] != "":
			w["diff"] = "valid const block rejected: " + br.Data["err"]
			setKind("rejects-valid")
			r.Fail(b.cell, w)
			continue
		}
		bad := ""
		for _, nme := range b.names {
			c, ok := b.pkg.Scope().Lookup(nme).(*types.Const)
			if !ok {
				continue
			}
			bt, ok := types.Default(c.Type()).Underlying().(*types.Basic)
			if !ok {
				continue
			}
			tn := bt.Name()
			if tn == "rune" {
				tn = "int32"
			} else if tn == "byte" {
				tn = "uint8"
			}
			want := ""
			switch {
			case bt.Info()&types.IsBoolean != 0:
				want = fmt.Sprintf("%s %v", tn, constant.BoolVal(c.Val()))
			case bt.Info()&types.IsString != 0:
				want = fmt.Sprintf("%s %s", tn, constant.StringVal(c.Val()))
			case bt.Info()&types.IsUnsigned != 0:
				u, exact := constant.Uint64Val(constant.ToInt(c.Val()))
				if !exact {
					continue // does not fit its default type: only usable in further constant expressions
				}
				want = fmt.Sprintf("%s %d", tn, u)
			case bt.Info()&types.IsInteger != 0:
				v, exact := constant.Int64Val(constant.ToInt(c.Val()))
				if !exact {
					continue
				}
				want = fmt.Sprintf("%s %d", tn, v)
			case bt.Kind() == types.Float32:
				f32, _ := constant.Float32Val(c.Val())
				want = fmt.Sprintf("%s %v", tn, f32)
			case bt.Info()&types.IsFloat != 0:
				f64, _ := constant.Float64Val(c.Val())
				want = fmt.Sprintf("%s %v", tn, f64)
			default:
				continue
			}
			if got := br.Data["v:"+nme]; got != want {
				bad = fmt.Sprintf("%s = %s, Go gives %s", nme, got, want)
				break
			}
		}
		if bad != "" {
			w["diff"] = bad
			setKind("wrong-value")
			r.Fail(b.cell, w)
		} else {
			setKind("ok")
			r.Ok(b.cell)
		}
	}
}
