package main

import (
	"bytes"
	"context"
	"encoding/json"
	"fmt"
	"os"
	"sort"
	"strings"
	"sync"
	"time"

	"verifharness/core"

	"github.com/traefik/yaegi/interp"
	"github.com/traefik/yaegi/stdlib"
)

// C19: running under the debugger does not change program behaviour; breakpoints on executed lines are
// reported in execution order; the session ends with a terminate event.
// Programs carry a trace call T(<own line>) alone on its line before each statement group, so stdout is the
// exact order of executed lines.

type c19gen struct {
	simple   bool // straight-line code, calls and loops only (no if / switch)
	linear   bool // straight-line code and calls only
	oneLoop  bool // at most one loop per function, not nested, no branches
	loopUsed bool
	rg       *core.Rng
	lines    []string
	funcs    []string
	depth    int
}

func (g *c19gen) emit(ind int, s string) int {
	g.lines = append(g.lines, strings.Repeat("\t", ind)+s)
	return len(g.lines)
}

// trace line: T(n) where n is its own line number
func (g *c19gen) trace(ind int) int {
	n := len(g.lines) + 1
	g.lines = append(g.lines, fmt.Sprintf("%sT(%d)", strings.Repeat("\t", ind), n))
	return n
}

func (g *c19gen) block(ind, n int, calls []string) {
	r := g.rg
	for i := 0; i < n; i++ {
		g.trace(ind)
		switch c := r.Intn(10); {
		case c < 2:
			g.emit(ind, fmt.Sprintf("x += %d", 1+r.Intn(9)))
		case c < 4 && g.depth < 3 && !g.simple:
			g.depth++
			g.emit(ind, fmt.Sprintf("if x%%%d == %d {", 2+r.Intn(2), r.Intn(2)))
			g.block(ind+1, 1+r.Intn(2), calls)
			if r.Bool() {
				g.emit(ind, "} else {")
				g.block(ind+1, 1+r.Intn(2), calls)
			}
			g.emit(ind, "}")
			g.depth--
		case c < 6 && g.depth < 3 && !g.linear:
			g.depth++
			v := fmt.Sprintf("i%d", len(g.lines))
			g.emit(ind, fmt.Sprintf("for %s := 0; %s < %d; %s++ {", v, v, 2+r.Intn(2), v))
			g.block(ind+1, 1+r.Intn(2), calls)
			g.emit(ind, "}")
			g.depth--
		case c < 8 && len(calls) > 0:
			g.emit(ind, fmt.Sprintf("x = %s(x + %d)", core.Pick(r, calls), r.Intn(5)))
		case c < 9 && g.depth < 3 && !g.simple:
			g.depth++
			g.emit(ind, "switch x % 3 {")
			for k := 0; k < 2; k++ {
				g.emit(ind, fmt.Sprintf("case %d:", k))
				g.block(ind+1, 1, calls)
			}
			g.emit(ind, "default:")
			g.block(ind+1, 1, calls)
			g.emit(ind, "}")
			g.depth--
		default:
			g.emit(ind, "x = x*3 + 1")
		}
	}
}

// finalLoop ends a function of the oneloop class with a loop (two times out of three).
func (g *c19gen) finalLoop(calls []string) bool {
	r := g.rg
	if !g.oneLoop || r.Intn(3) == 0 {
		return false
	}
	v := fmt.Sprintf("i%d", len(g.lines))
	if r.Bool() {
		g.emit(1, fmt.Sprintf("for %s := range [%d]int{} {", v, 2+r.Intn(2)))
		g.emit(2, fmt.Sprintf("_ = %s", v))
	} else {
		g.emit(1, fmt.Sprintf("for %s := 0; %s < %d; %s++ {", v, v, 2+r.Intn(2), v))
	}
	g.block(2, 1+r.Intn(3), calls)
	g.emit(1, "}")
	return true
}

type c19Prog struct {
	Src        string
	TraceLines []int
	Funcs      []string
	FuncFirst  map[string]int // first trace line of each function
}

func c19Program(idx uint64) *c19Prog {
	rg := core.NewRng(idx).Sub("C19")
	g := &c19gen{rg: rg, simple: idx%4 != 2, linear: idx%4 == 0 || idx%4 == 3, oneLoop: idx%4 == 3}
	g.emit(0, "package main")
	g.emit(0, "")
	g.emit(0, "import \"fmt\"")
	g.emit(0, "")
	g.emit(0, "func T(n int) { fmt.Println(\"T\", n) }")
	g.emit(0, "")
	p := &c19Prog{FuncFirst: map[string]int{}}
	nf := 1 + rg.Intn(3)
	var calls []string
	for f := 0; f < nf; f++ {
		name := fmt.Sprintf("f%d", f)
		g.emit(0, fmt.Sprintf("func %s(x int) int {", name))
		p.FuncFirst[name] = len(g.lines) + 1
		g.block(1, 2+rg.Intn(3), calls) // a function may call the ones declared before it
		if !g.finalLoop(calls) {
			g.trace(1)
		}
		g.emit(1, "return x % 1000")
		g.emit(0, "}")
		g.emit(0, "")
		calls = append(calls, name)
		p.Funcs = append(p.Funcs, name)
	}
	g.emit(0, "func main() {")
	g.emit(1, "x := 1")
	g.block(1, 3+rg.Intn(4), calls)
	if !g.finalLoop(calls) {
		g.trace(1)
	}
	g.emit(1, "fmt.Println(\"result\", x)")
	g.emit(0, "}")
	p.Src = strings.Join(g.lines, "\n") + "\n"
	for i, l := range g.lines {
		if strings.HasPrefix(strings.TrimSpace(l), "T(") && !strings.HasPrefix(l, "func") {
			p.TraceLines = append(p.TraceLines, i+1)
		}
	}
	return p
}

type c19Event struct {
	Reason int    `json:"reason"`
	Line   int    `json:"line"`
	OutLen int    `json:"outlen"`
	Fn     string `json:"fn"`
}

type c19Session struct {
	Out        string     `json:"out"`
	Err        string     `json:"err"`
	Events     []c19Event `json:"events"`
	Terminates int        `json:"terminates"`
	Hung       bool       `json:"hung"`
	Panic      string     `json:"panic"`
	Valid      []bool     `json:"valid"`
}

// c19Run runs one debug session: line breakpoints bps, function breakpoints fbs, resume script chosen by seed
// ("continue": always continue; otherwise a seeded mix of continue / step into / over / out).
func c19Run(src string, bps []int, fbs []string, script string, seed uint64) (s c19Session) {
	var out bytes.Buffer
	var mu sync.Mutex
	i := interp.New(interp.Options{Stdout: &out, Stderr: &out})
	i.Use(stdlib.Symbols)
	defer func() {
		if r := recover(); r != nil {
			s.Panic = fmt.Sprint(r)
		}
	}()
	prog, err := i.Compile(src)
	if err != nil {
		s.Err = "compile: " + err.Error()
		return
	}
	rg := core.NewRng(seed).Sub("C19script")
	var dbg *interp.Debugger
	done := make(chan struct{})
	term := make(chan struct{}, 16)
	dbg = i.Debug(context.Background(), prog, func(e *interp.DebugEvent) {
		r := e.Reason()
		if r == interp.DebugTerminate {
			mu.Lock()
			s.Terminates++
			mu.Unlock()
			term <- struct{}{}
			return
		}
		ev := c19Event{Reason: int(r)}
		if fr := e.Frames(0, 1); len(fr) > 0 {
			ev.Line = fr[0].Position().Line
			ev.Fn = fr[0].Name()
		}
		mu.Lock()
		ev.OutLen = out.Len()
		s.Events = append(s.Events, ev)
		n := len(s.Events)
		mu.Unlock()
		id := e.GoRoutine()
		go func() {
			if n > 4000 { // a runaway session: let it finish
				dbg.Continue(id)
				return
			}
			// Step reports ErrRunning until the interpreter goroutine has parked after delivering the event
			// (the callback returns first): a resume request is retried until it is accepted
			resume := func(f func() error) {
				for tries := 0; tries < 200000; tries++ {
					if err := f(); err == nil || err != interp.ErrRunning {
						return
					}
					time.Sleep(20 * time.Microsecond)
				}
			}
			switch {
			case script == "continue":
				dbg.Continue(id)
			default:
				switch rg.Intn(4) {
				case 0:
					dbg.Continue(id)
				case 1:
					resume(func() error { return dbg.Step(id, interp.DebugStepInto) })
				case 2:
					resume(func() error { return dbg.Step(id, interp.DebugStepOver) })
				default:
					resume(func() error { return dbg.Step(id, interp.DebugStepOut) })
				}
			}
		}()
	}, nil)
	var reqs []interp.BreakpointRequest
	for _, l := range bps {
		reqs = append(reqs, interp.LineBreakpoint(l))
	}
	for _, f := range fbs {
		reqs = append(reqs, interp.FunctionBreakpoint(f))
	}
	if len(reqs) > 0 {
		for _, b := range dbg.SetBreakpoints(interp.ProgramBreakpointTarget(prog), reqs...) {
			s.Valid = append(s.Valid, b.Valid)
		}
	}
	go func() {
		defer close(done)
		defer func() {
			if r := recover(); r != nil {
				mu.Lock()
				s.Panic = fmt.Sprint(r)
				mu.Unlock()
			}
		}()
		dbg.Continue(0)
		_, err := dbg.Wait()
		if err != nil {
			mu.Lock()
			s.Err = err.Error()
			mu.Unlock()
		}
	}()
	select {
	case <-done:
	case <-time.After(30 * time.Second):
		s.Hung = true
	}
	if !s.Hung {
		// Wait returns when the debugger's context is cancelled, which precedes the delivery of the terminate
		// event: wait for the event itself (generous watchdog), then briefly for a spurious second one
		select {
		case <-term:
			time.Sleep(time.Millisecond)
		case <-time.After(20 * time.Second):
		}
	}
	mu.Lock()
	s.Out = out.String()
	mu.Unlock()
	return
}

func c19Plain(src string) (string, string) {
	var out bytes.Buffer
	i := interp.New(interp.Options{Stdout: &out, Stderr: &out})
	i.Use(stdlib.Symbols)
	_, err := i.Eval(src)
	if err != nil {
		return out.String(), err.Error()
	}
	return out.String(), ""
}

const c19Universe = 3000

// programs executing more trace lines than this are skipped
const c19MaxTrace = 2500

func init() {
	checks["C19"] = checkC19
	checks["c19debug"] = func(r *core.Run) {
		var idx uint64
		fmt.Sscan(os.Getenv("VERIF_C19_IDX"), &idx)
		p := c19Program(idx)
		if os.Getenv("VERIF_C19_SRC") != "" {
			fmt.Println(p.Src)
		}
		plain, _ := c19Plain(p.Src)
		fmt.Println("trace lines", len(p.TraceLines), "plain output lines", strings.Count(plain, "\n"))
		for _, script := range []string{"continue", "mix1", "mix2"} {
			t0 := time.Now()
			s := c19Run(p.Src, p.TraceLines, nil, script, idx*31+core.Hash64("every-line"+script))
			fmt.Println(script, "events", len(s.Events), "hung", s.Hung, "term", s.Terminates, "same output", s.Out == plain, time.Since(t0))
		}
		os.Exit(0)
	}
	core.BatchModes["c19"] = func(it *core.BatchItem) map[string]string {
		var idx uint64
		fmt.Sscan(it.Data["idx"], &idx)
		p := c19Program(idx)
		plain, perr := c19Plain(p.Src)
		res := map[string]string{"plain": plain, "plain_err": perr}
		if strings.Count(plain, "\n") > c19MaxTrace {
			res["plain"] = ""
			res["too_long"] = "1"
			return res
		}
		var sets map[string][]int
		json.Unmarshal([]byte(it.Data["sets"]), &sets)
		var names []string
		for k := range sets {
			names = append(names, k)
		}
		sort.Strings(names)
		for _, sn := range names {
			for _, script := range []string{"continue", "mix1", "mix2"} {
				fmt.Fprintf(os.Stderr, "SESSION %s %s\n", sn, script)
				var fbs []string
				bps := sets[sn]
				if sn == "functions" {
					fbs, bps = p.Funcs, nil
				}
				s := c19Run(p.Src, bps, fbs, script, idx*31+core.Hash64(sn+script))
				if s.Hung { // an isolated retry decides
					s = c19Run(p.Src, bps, fbs, script, idx*31+core.Hash64(sn+script))
				}
				b, _ := json.Marshal(s)
				res[sn+"/"+script] = string(b)
			}
		}
		return res
	}
}

func checkC19(r *core.Run) {
	r.Rule = "cell = (generated sequential program, breakpoint set, resume script). Programs have a trace call T(<own line>) alone on a line before every statement, so stdout is the exact sequence of executed lines. Breakpoint sets: none, every trace line, three program-determined subsets, all functions. Resume scripts: always continue, two seeded mixes of continue/step-into/step-over/step-out. Verdict: stdout, error and result equal plain execution; for every execution of a breakpointed trace line there is a debug event at that line delivered before the line ran (output length at the event = offset of that execution's output), in order; every DebugBreak event is at a breakpointed line (or a function entry for function breakpoints); exactly one terminate event; the session ends (30 s watchdog, retried once). non-trivial = at least one breakpointed line executed"
	r.Assume = []string{"sequential programs only (the debugger's own fields are not synchronised; goroutines are C08's subject)", "where step requests stop is not asserted, only that breakpoints are not lost and behaviour is unchanged"}
	n := 150
	if r.Thorough() {
		n = c19Universe
	}
	if os.Getenv("VERIF_C19_ALL") != "" {
		n = c19Universe
	}
	start := (r.Seed * 3571) % c19Universe
	var items []core.BatchItem
	progs := map[string]*c19Prog{}
	setsOf := map[string]map[string][]int{}
	for k := 0; k < n; k++ {
		idx := (start + uint64(k)) % c19Universe
		p := c19Program(idx)
		rg := core.NewRng(idx).Sub("C19sets")
		sets := map[string][]int{"none": nil, "every-line": p.TraceLines, "functions": nil}
		for q := 0; q < 3; q++ {
			var sub []int
			for _, l := range p.TraceLines {
				if rg.Chance(1, 2+q) {
					sub = append(sub, l)
				}
			}
			sets[fmt.Sprintf("subset%d", q)] = sub
		}
		for q := 0; q < 3; q++ {
			sets[fmt.Sprintf("single%d", q)] = []int{p.TraceLines[rg.Intn(len(p.TraceLines))]}
		}
		b, _ := json.Marshal(sets)
		id := fmt.Sprintf("C19/%s/p%d", []string{"linear", "loops", "branchy", "oneloop"}[idx%4], idx)
		progs[id], setsOf[id] = p, sets
		items = append(items, core.BatchItem{ID: id, Data: map[string]string{"idx": fmt.Sprint(idx), "sets": string(b)}})
	}
	pool := newPool(r)
	events, sessions, tooLong := 0, 0, 0
	for _, br := range pool.RunBatch("c19", items, 4, 600000) {
		p := progs[br.ID]
		if br.Crash != "" {
			r.Fail(br.ID+"/child", map[string]any{"diff": "the debugging process died: " + firstLines2(br.Crash, 5), "source": p.Src})
			continue
		}
		if br.Data["too_long"] != "" {
			tooLong++ // the program executes more than c19MaxTrace lines: outside the universe (a property of the program text)
			continue
		}
		plain := br.Data["plain"]
		if br.Data["plain_err"] != "" {
			r.Inconclusive(br.ID, "plain execution failed: "+br.Data["plain_err"])
			continue
		}
		// offsets of every trace output
		type occ struct{ line, off int }
		var trace []occ
		off := 0
		for _, l := range strings.SplitAfter(plain, "\n") {
			var ln int
			if _, err := fmt.Sscanf(l, "T %d", &ln); err == nil {
				trace = append(trace, occ{ln, off})
			}
			off += len(l)
		}
		for sn, bps := range setsOf[br.ID] {
			for _, script := range []string{"continue", "mix1", "mix2"} {
				var s c19Session
				json.Unmarshal([]byte(br.Data[sn+"/"+script]), &s)
				sessions++
				events += len(s.Events)
				// two verdicts per session: behaviour (output, error, termination) and breakpoint reporting
				class := strings.Split(br.ID, "/")[1]
				prog := strings.Split(br.ID, "/")[2]
				behCell := fmt.Sprintf("C19/behaviour/%s/%s/%s/%s", class, prog, sn, script)
				posCell := fmt.Sprintf("C19/breakpoints/%s/%s/%s/%s", class, prog, sn, script)
				var why []string
				if s.Panic != "" {
					why = append(why, "a Go panic escaped: "+s.Panic)
				}
				if s.Hung {
					why = append(why, "the session did not end within 30 s (twice)")
				}
				if s.Out != plain {
					why = append(why, "output differs from plain execution: "+firstDiffText(plain, s.Out))
				}
				if s.Err != "" {
					why = append(why, "error under the debugger: "+s.Err)
				}
				if !s.Hung && s.Terminates != 1 {
					why = append(why, fmt.Sprintf("%d terminate events, want 1", s.Terminates))
				}
				if len(why) > 0 {
					r.Fail(behCell, map[string]any{"diff": strings.Join(why, "; "), "source": p.Src, "breakpoints": bps, "events": clipEvents(s.Events, 40)})
				} else {
					r.Ok(behCell)
				}
				why = nil
				isBP := map[int]bool{}
				for _, l := range bps {
					isBP[l] = true
				}
				if sn != "functions" {
					// every execution of a breakpointed line has an event delivered right before it ran, in order
					ei := 0
					for _, o := range trace {
						if !isBP[o.line] {
							continue
						}
						found := false
						for ; ei < len(s.Events); ei++ {
							if s.Events[ei].Line == o.line && s.Events[ei].OutLen == o.off {
								found = true
								ei++
								break
							}
						}
						if !found {
							why = append(why, fmt.Sprintf("no event for the execution of breakpointed line %d at output offset %d", o.line, o.off))
							break
						}
					}
					for _, e := range s.Events {
						if e.Reason == int(interp.DebugBreak) && !isBP[e.Line] {
							why = append(why, fmt.Sprintf("DebugBreak at line %d, which carries no breakpoint", e.Line))
							break
						}
					}
				} else if script == "continue" {
					// one break per function entry
					for _, f := range p.Funcs {
						want := 0
						for _, o := range trace {
							if o.line == p.FuncFirst[f] {
								want++
							}
						}
						got := 0
						for _, e := range s.Events {
							if e.Reason == int(interp.DebugBreak) && e.Fn == f {
								got++
							}
						}
						if got != want {
							why = append(why, fmt.Sprintf("function breakpoint %s: %d break events, %d calls", f, got, want))
						}
					}
				}
				if len(bps) == 0 && sn != "functions" {
					continue // nothing to report for an empty breakpoint set
				}
				if len(why) > 0 {
					r.Fail(posCell, map[string]any{"diff": strings.Join(why, "; "), "source": p.Src, "breakpoints": bps, "events": clipEvents(s.Events, 40)})
					continue
				}
				r.Ok(posCell)
				if sessions%97 == 0 {
					r.Sample(map[string]any{"cell": posCell, "breakpoints": len(bps), "events": len(s.Events), "trace_length": len(trace)})
				}
			}
		}
	}
	r.Extra["programs"] = n
	r.Extra["programs_skipped_longer_than_max_trace"] = tooLong
	r.Extra["sessions"] = sessions
	r.Extra["debug_events_observed"] = events
}

func clipEvents(e []c19Event, n int) []c19Event {
	if len(e) > n {
		return e[:n]
	}
	return e
}

func c19Tag(hung bool, id string) string {
	if hung {
		return "known:session-hang"
	}
	return "known:event-position-" + strings.Split(id, "/")[1]
}
