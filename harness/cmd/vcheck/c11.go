package main

import (
	"bytes"
	"encoding/json"
	"fmt"
	"go/ast"
	"go/parser"
	"go/token"
	"os"
	"path/filepath"
	"reflect"
	"regexp"
	"sort"
	"strings"
	"testing/fstest"

	"verifharness/core"

	"github.com/traefik/yaegi/interp"
	"github.com/traefik/yaegi/stdlib"
)

// C11: evaluating a program piecewise equals evaluating it whole. The corpus is C01's; the reference is the
// whole program evaluated in one piece by the same interpreter build (itself tied to gc by C01).

type c11Split struct {
	Imports string   // import declaration chunk
	Decls   []string // one top-level declaration each, in source order
	Stmts   []string // the statements of main
	Whole   string
}

// c11SplitProgram cuts a rendered cell program into its top-level declarations and main-body statements.
func c11SplitProgram(src string) (*c11Split, error) {
	fset := token.NewFileSet()
	f, err := parser.ParseFile(fset, "p.go", src, parser.ParseComments)
	if err != nil {
		return nil, err
	}
	sp := &c11Split{Whole: src}
	text := func(a, b token.Pos) string { return src[fset.Position(a).Offset:fset.Position(b).Offset] }
	for _, d := range f.Decls {
		if g, ok := d.(*ast.GenDecl); ok && g.Tok == token.IMPORT {
			sp.Imports += text(g.Pos(), g.End()) + "\n"
			continue
		}
		if fd, ok := d.(*ast.FuncDecl); ok && fd.Name.Name == "main" && fd.Recv == nil {
			for _, st := range fd.Body.List {
				sp.Stmts = append(sp.Stmts, text(st.Pos(), st.End()))
			}
			continue
		}
		sp.Decls = append(sp.Decls, text(d.Pos(), d.End()))
	}
	return sp, nil
}

// what main of the package-dir modes prints first: gDep = gBig/2 + int(gU8), gName = "n0", gDep2 = gDep + len(gName)
const c11DepsLine = "deps 549755814140 549755814138 n0\n"

// the C11 universe is the first 4000 programs of the C01 universe
const c11Universe = 4000

type c11Obs struct {
	Out     string `json:"out"`
	Globals string `json:"globals"`
	Err     string `json:"err"`
	Panic   string `json:"panic"`
}

func c11Globals(i *interp.Interpreter) string {
	g := i.Globals()
	var names []string
	for n := range g {
		names = append(names, n)
	}
	sort.Strings(names)
	var b strings.Builder
	for _, n := range names {
		v := g[n]
		if !v.IsValid() {
			continue
		}
		switch v.Kind() {
		case reflect.Func, reflect.Ptr, reflect.Chan, reflect.UnsafePointer, reflect.Interface:
			continue // identity-valued: not comparable across interpreters
		}
		if n == "curCell" || !v.CanInterface() {
			continue
		}
		fmt.Fprintf(&b, "%s %v %v\n", n, v.Kind(), v.Interface())
	}
	return b.String()
}

// c11Run evaluates the split program in the given mode on a fresh interpreter.
func c11Run(sp *c11Split, mode string, seed uint64, work string) (o c11Obs) {
	var out bytes.Buffer
	opt := interp.Options{Stdout: &out, Stderr: &out}
	files := map[string]string{}
	noMain := "package main\n\n" + sp.Imports + "\n" + strings.Join(sp.Decls, "\n\n") + "\n"
	switch mode {
	case "evalpath-mapfs", "evalpath-mapfs-then-eval":
		files["prog/main.go"] = sp.Whole
		files["decls/decls.go"] = noMain
	case "package-dir", "package-dir-3files":
		// the declarations spread over two (or three) files of one directory, main in a further one
		rg := core.NewRng(seed).Sub("C11files")
		nf := 2
		if mode == "package-dir-3files" {
			nf = 3
		}
		parts := make([]string, nf)
		// package-level variables depending on other package-level variables, declared before their
		// dependencies: spread over the files, the dependencies cross files
		for _, d := range append([]string{"var gDep2 = gDep + len(gName)", "var gDep = gBig/2 + int(gU8)", "var gName = fmt.Sprint(\"n\", gZero)"}, sp.Decls...) {
			k := rg.Intn(nf)
			parts[k] += d + "\n\n"
		}
		for k, p := range parts {
			files[fmt.Sprintf("pkgdir/f%d.go", k)] = "package main\n\n" + importsFor(sp.Imports, p) + p
		}
		// main first reports the cross-file variables (c11DepsLine is what it must print)
		files["pkgdir/zmain.go"] = "package main\n\nimport \"fmt\"\n\nfunc main() {\n\tfmt.Println(\"deps\", gDep2, gDep, gName)\n" + strings.Join(sp.Stmts, "\n") + "\n}\n"
	}
	if len(files) > 0 {
		m := fstest.MapFS{}
		for k, v := range files {
			m[k] = &fstest.MapFile{Data: []byte(v)}
		}
		opt.SourcecodeFilesystem = m
	}
	i := interp.New(opt)
	i.Use(stdlib.Symbols)
	defer func() {
		if r := recover(); r != nil {
			o.Panic = fmt.Sprint(r)
		}
		o.Out = out.String()
		func() {
			defer func() { recover() }()
			o.Globals = c11Globals(i)
		}()
	}()
	evalAll := func(chunks []string) error {
		for k, c := range chunks {
			if _, err := i.Eval(c); err != nil {
				return fmt.Errorf("chunk %d: %v", k, err)
			}
		}
		return nil
	}
	var err error
	rg := core.NewRng(seed).Sub("C11" + mode)
	switch mode {
	case "whole":
		_, err = i.Eval(sp.Whole)
	case "compile-execute":
		var p *interp.Program
		if p, err = i.Compile(sp.Whole); err == nil {
			_, err = i.Execute(p)
		}
	case "compileast":
		var f *ast.File
		if f, err = parser.ParseFile(i.FileSet(), "ast.go", sp.Whole, 0); err == nil {
			var p *interp.Program
			if p, err = i.CompileAST(f); err == nil {
				_, err = i.Execute(p)
			}
		}
	case "evalpath-disk":
		dir, _ := os.MkdirTemp(work, "c11-")
		defer os.RemoveAll(dir)
		fn := filepath.Join(dir, "main.go")
		os.WriteFile(fn, []byte(sp.Whole), 0o644)
		_, err = i.EvalPath(fn)
	case "evalpath-mapfs":
		_, err = i.EvalPath("prog/main.go")
	case "package-dir", "package-dir-3files":
		_, err = i.EvalPath("./pkgdir")
	case "evalpath-mapfs-then-eval":
		// the declarations from a file, then the statements (and a direct use of an imported package) interactively
		if _, err = i.EvalPath("decls/decls.go"); err == nil {
			err = evalAll(append([]string{`fmt.Print("")`}, sp.Stmts...))
		}
	case "finest":
		// one declaration, then one statement per Eval
		if err = evalAll(append([]string{sp.Imports}, sp.Decls...)); err == nil {
			err = evalAll(sp.Stmts)
		}
	case "grouped":
		// seed-drawn composition into homogeneous chunks
		var chunks []string
		for k := 0; k < len(sp.Decls); {
			n := 1 + rg.Intn(5)
			if k+n > len(sp.Decls) {
				n = len(sp.Decls) - k
			}
			chunks = append(chunks, strings.Join(sp.Decls[k:k+n], "\n\n"))
			k += n
		}
		if err = evalAll(append([]string{sp.Imports}, chunks...)); err == nil {
			var sc []string
			for k := 0; k < len(sp.Stmts); {
				n := 1 + rg.Intn(4)
				if k+n > len(sp.Stmts) {
					n = len(sp.Stmts) - k
				}
				sc = append(sc, strings.Join(sp.Stmts[k:k+n], "\n"))
				k += n
			}
			err = evalAll(sc)
		}
	case "interleaved":
		// declarations are fed as late as Go allows: everything shared first, then, per statement, the
		// declarations that statement needs (the cell function and its helpers) right before it
		var shared, cellDecls []string
		for _, d := range sp.Decls {
			if c11CellDecl.MatchString(d) {
				cellDecls = append(cellDecls, d)
			} else {
				shared = append(shared, d)
			}
		}
		if err = evalAll(append([]string{sp.Imports}, shared...)); err == nil {
			used := map[int]bool{}
			for _, st := range sp.Stmts {
				// feed the not yet defined declarations whose function name occurs in the statement, plus helpers
				for k, d := range cellDecls {
					name := d[5:strings.IndexByte(d, '(')]
					cellTag := ""
					if j := strings.Index(st, ", c"); j >= 0 {
						cellTag = strings.TrimSuffix(st[j+3:], ")")
					}
					if !used[k] && (strings.Contains(st, name+")") || (cellTag != "" && strings.Contains(name, "_c"+cellTag+"_"))) {
						used[k] = true
						if _, err = i.Eval(d); err != nil {
							err = fmt.Errorf("decl %s: %v", name, err)
							break
						}
					}
				}
				if err != nil {
					break
				}
				if _, err = i.Eval(st); err != nil {
					break
				}
			}
		}
	}
	if err != nil {
		o.Err = err.Error()
	}
	return
}

// importsFor keeps only the imports a file fragment uses (an unused import is an error for gc, and yaegi
// must accept what gc accepts).
func importsFor(imports, body string) string {
	var keep []string
	for _, l := range strings.Split(imports, "\n") {
		l = strings.TrimSpace(l)
		if !strings.HasPrefix(l, "\"") {
			continue
		}
		p := strings.Trim(l, "\"")
		name := p[strings.LastIndex(p, "/")+1:]
		if strings.Contains(body, name+".") {
			keep = append(keep, "import "+l)
		}
	}
	if len(keep) == 0 {
		return ""
	}
	return strings.Join(keep, "\n") + "\n\n"
}

var c11CellDecl = regexp.MustCompile(`^func (c[0-9]+_[0-9]+|h_c[0-9]+_[0-9]+_[0-9]+(_in)?)\(`)

var c11Modes = []string{"whole", "compile-execute", "compileast", "evalpath-disk", "evalpath-mapfs", "package-dir", "package-dir-3files", "evalpath-mapfs-then-eval", "finest", "grouped", "interleaved"}

func init() {
	checks["C11"] = checkC11
	core.BatchModes["c11"] = func(it *core.BatchItem) map[string]string {
		sp, err := c11SplitProgram(it.Data["src"])
		if err != nil {
			return map[string]string{"split_error": err.Error()}
		}
		var seed uint64
		fmt.Sscan(it.Data["seed"], &seed)
		res := map[string]string{}
		for _, m := range []string{"whole", it.Data["mode"]} {
			b, _ := json.Marshal(c11Run(sp, m, seed, it.Data["work"]))
			res[m] = string(b)
		}
		return res
	}
	core.BatchModes["c11redef"] = c11Redef
	core.BatchModes["c11mini"] = func(it *core.BatchItem) map[string]string {
		var out bytes.Buffer
		i := interp.New(interp.Options{Stdout: &out, Stderr: &out})
		i.Use(stdlib.Symbols)
		last := ""
		for _, c := range strings.Split(it.Data["chunks"], "\x00") {
			v, err := func() (v reflect.Value, err error) {
				defer func() {
					if r := recover(); r != nil {
						err = fmt.Errorf("HOSTPANIC %v", r)
					}
				}()
				return i.Eval(c)
			}()
			if err != nil {
				return map[string]string{"got": "error at " + c + ": " + err.Error()}
			}
			if v.IsValid() && v.CanInterface() {
				last = fmt.Sprint(v.Interface())
			}
		}
		return map[string]string{"got": last + "|" + out.String()}
	}
}

func checkC11(r *core.Run) {
	r.Rule = "cell = (program of the C01 corpus, way of feeding it): whole Eval (reference), Compile+Execute, CompileAST of a go/parser tree, EvalPath on disk, EvalPath on MapFS, a package directory with the declarations spread over three files, declarations from a file then statements interactively, one declaration/statement per Eval, seed-drawn homogeneous chunks, declarations interleaved as late as possible; verdict = same output and same final Globals() (non-identity kinds) as the whole evaluation; plus redefinition histories (define f, g, h and variables; use; redefine f; use again: only f changed). non-trivial = the reference evaluation succeeded and printed output"
	r.Assume = []string{"the whole-program evaluation is the reference; it is tied to gc by C01 on the same corpus", "a chunk is declarations only or statements only (interactive parsing cannot mix them)", "interactive chunks never define func main (every later Eval would run it again)"}
	n := 24
	if r.Thorough() {
		n = 400
	}
	if os.Getenv("VERIF_C11_ALL") != "" {
		n = c11Universe
	}
	start := (r.Seed * 7907) % c11Universe
	var items []core.BatchItem
	for k := 0; k < n; k++ {
		idx := (start + uint64(k)) % c11Universe
		src := genProgram(idx, 8).Render(nil)
		for _, m := range c11Modes[1:] {
			// the way a program is cut depends on the program only, never on the run's seed: the universe is fixed
			items = append(items, core.BatchItem{ID: fmt.Sprintf("C11/p%d/%s", idx, m), Data: map[string]string{"src": src, "seed": fmt.Sprint(idx), "work": r.Work, "mode": m}})
		}
	}
	os.MkdirAll(r.Work, 0o755)
	pool := newPool(r)
	modeOK := map[string]int{}
	for q, br := range pool.RunBatch("c11", items, 6, 600000) {
		m := items[q].Data["mode"]
		cell := items[q].ID
		tags := ""
		if strings.HasPrefix(m, "package-dir") {
			tags = "known:package-dir"
		}
		if br.Crash != "" {
			r.Fail(cell, map[string]any{"diff": "the evaluating process died: " + firstLines2(br.Crash, 5), "mode": m, "tags": tags})
			continue
		}
		if e := br.Data["split_error"]; e != "" {
			r.Inconclusive(cell, "cannot split: "+e)
			continue
		}
		var ref, o c11Obs
		json.Unmarshal([]byte(br.Data["whole"]), &ref)
		json.Unmarshal([]byte(br.Data[m]), &o)
		if ref.Err != "" || ref.Panic != "" || ref.Out == "" {
			r.Inconclusive(cell, "reference evaluation failed: "+ref.Err+ref.Panic)
			continue
		}
		var why []string
		if o.Panic != "" {
			why = append(why, "a Go panic escaped: "+o.Panic)
		}
		if o.Err != "" {
			why = append(why, "error: "+o.Err)
		}
		want := ref.Out
		if strings.HasPrefix(m, "package-dir") {
			want = c11DepsLine + want
		}
		if o.Out != want {
			why = append(why, "output differs: "+firstDiffText(want, o.Out))
		}
		if o.Globals != ref.Globals && o.Err == "" && !strings.HasPrefix(m, "package-dir") { // Globals() does not expose the variables of a directory package
			why = append(why, "final globals differ: "+firstDiffText(ref.Globals, o.Globals))
		}
		if len(why) > 0 {
			r.Fail(cell, map[string]any{"diff": strings.Join(why, "; "), "mode": m, "tags": tags})
			continue
		}
		r.Ok(cell)
		modeOK[m]++
		if q%37 == 0 {
			r.Sample(map[string]any{"cell": cell, "output_bytes": len(ref.Out), "globals": strings.Count(ref.Globals, "\n")})
		}
	}
	// redefinition histories
	nr := 40
	if r.Thorough() {
		nr = 600
	}
	if os.Getenv("VERIF_C11_ALL") != "" {
		nr = 5000
	}
	var ritems []core.BatchItem
	for k := 0; k < nr; k++ {
		h := (r.Seed*31 + uint64(k)) % 5000
		if os.Getenv("VERIF_C11_ALL") != "" {
			h = uint64(k)
		}
		ritems = append(ritems, core.BatchItem{ID: fmt.Sprintf("C11/redef/%d", h), Data: map[string]string{"seed": fmt.Sprint(h)}})
	}
	for _, br := range pool.RunBatch("c11redef", ritems, 20, 120000) {
		switch {
		case br.Crash != "":
			r.Fail(br.ID, map[string]any{"diff": "the evaluating process died: " + firstLines2(br.Crash, 5)})
		case br.Data["bad"] != "":
			r.Fail(br.ID, map[string]any{"diff": br.Data["bad"], "history": br.Data["history"]})
		default:
			r.Ok(br.ID)
		}
	}
	// fixed interactive mini-histories: a later declaration uses what an earlier Eval defined
	minis := []struct {
		id     string
		chunks []string
		want   string
	}{
		{"var-depends-on-earlier-var", []string{"var a = 5", "var b = a + 1", "b"}, "6|"},
		{"closure-var-captures-earlier-var", []string{"var g0 = 1", "var clo = func() int { g0++; return g0 }", "clo()"}, "2|"},
		{"func-uses-earlier-var", []string{"var k = 7", "func fk() int { return k * 2 }", "fk()"}, "14|"},
		{"type-then-method-then-use", []string{"type P struct{ X int }", "func (p P) Dbl() int { return p.X * 2 }", "P{4}.Dbl()"}, "8|"},
		{"const-then-var", []string{"const c0 = 3", "var v0 = c0 * 2", "v0 + c0"}, "9|"},
		{"import-then-use-later", []string{`import "strings"`, `x := strings.ToUpper("ab")`, "x"}, "AB|"},
		{"var-updated-by-statement", []string{"var n = 1", "n += 4", "n"}, "5|"},
		{"slice-shared-across-evals", []string{"var s = []int{1, 2}", "t := s", "t[0] = 9", "s[0]"}, "9|"},
		{"func-literal-statement-runs-once", []string{"var c1 = 40", "func() { c1 += 2 }()", "c1 += 0", "c1"}, "42|"},
		{"func-literal-call-value", []string{"var c2 = 40", "func() int { c2 += 2; return c2 }()"}, "42|"},
		{"func-literal-value-then-call", []string{"f1 := func(x int) int { return x + 1 }", "f1(1)"}, "2|"},
		{"func-decl-then-redefinition", []string{"func fd() int { return 1 }", "func fd() int { return 2 }", "fd()"}, "2|"},
		{"multi-value-var-from-later-func", []string{"var m1, m2 = two()\nfunc two() (int, int) { return 4, 5 }", "m1 + m2"}, "9|"},
		{"var-pair-depends-on-each-other", []string{"var q1, q2 = q2 + 1, 5", "q1"}, "6|"},
		// var statements among interactive statements: the initialiser runs where the statement stands
		{"var-stmt-after-statement", []string{"n := 3", "n += 1\nvar y = n * 2\ny"}, "8|"},
		{"var-stmt-in-loop-block-resets", []string{"acc := 0", "for i := 0; i < 3; i++ { var t int; t += i + 1; acc += t * 10 }", "acc"}, "60|"},
		{"var-stmt-with-initialiser-in-block", []string{"k := 2", "if k > 1 { var z = k * 5; k = z }", "k"}, "10|"},
		{"var-stmt-zero-value-after-use", []string{"s := []int{}", "s = append(s, 1)\nvar u []int\nu = append(u, len(s))\nu[0]"}, "1|"},
		{"var-stmt-typed-in-nested-blocks", []string{"tot := 0", "for i := 0; i < 2; i++ { for j := 0; j < 2; j++ { var w int = i; w += j; tot += w } }", "tot"}, "4|"},
		// closures created by a loop among interactive statements own their iteration's variables
		{"loop-closures-capture-per-iteration", []string{"fs := []func() int{}", "for i := 0; i < 3; i++ { fs = append(fs, func() int { return i * 10 }) }", "fs[0]() + fs[1]()*10 + fs[2]()*100"}, "2100|"},
		{"range-closures-capture-per-iteration", []string{"gs := []func() int{}", "for _, v := range []int{1, 2, 3} { gs = append(gs, func() int { return v }) }", "gs[0]()*100 + gs[1]()*10 + gs[2]()"}, "123|"},
		{"loop-closures-called-in-later-eval-after-another-loop", []string{"hs := []func() int{}", "for i := 0; i < 2; i++ { k := i + 1; hs = append(hs, func() int { k += 10; return k }) }", "for j := 0; j < 3; j++ { _ = j }", "hs[0]() + hs[0]()", "hs[1]()"}, "12|"},
		{"var-through-function-body", []string{"var w1 = fw()\nfunc fw() int { return w2 + 1 }\nvar w2 = 5", "w1"}, "6|"},
	}
	var mitems []core.BatchItem
	for _, m := range minis {
		mitems = append(mitems, core.BatchItem{ID: "C11/mini/" + m.id, Data: map[string]string{"chunks": strings.Join(m.chunks, "\x00")}})
	}
	for q, br := range pool.RunBatch("c11mini", mitems, 8, 60000) {
		switch {
		case br.Crash != "":
			r.Fail(br.ID, map[string]any{"diff": "the evaluating process died: " + firstLines2(br.Crash, 4), "chunks": minis[q].chunks, "tags": ""})
		case br.Data["got"] != minis[q].want:
			r.Fail(br.ID, map[string]any{"diff": fmt.Sprintf("got %q, want %q", br.Data["got"], minis[q].want), "chunks": minis[q].chunks, "tags": ""})
		default:
			r.Ok(br.ID)
		}
	}
	r.Extra["programs"] = n
	r.Extra["modes"] = c11Modes
	r.Extra["agreeing_by_mode"] = modeOK
	r.Extra["redefinition_histories"] = nr
}

func firstDiffText(a, b string) string {
	al, bl := strings.Split(a, "\n"), strings.Split(b, "\n")
	for i := 0; i < len(al) || i < len(bl); i++ {
		x, y := "<end>", "<end>"
		if i < len(al) {
			x = al[i]
		}
		if i < len(bl) {
			y = bl[i]
		}
		if x != y {
			if len(x) > 120 {
				x = x[:120]
			}
			if len(y) > 120 {
				y = y[:120]
			}
			return fmt.Sprintf("line %d: whole %q, piecewise %q", i, x, y)
		}
	}
	return "same"
}

// c11Redef: define f, g (calls f), h, variables; use; redefine one function; use again.
func c11Redef(it *core.BatchItem) map[string]string {
	var seed uint64
	fmt.Sscan(it.Data["seed"], &seed)
	rg := core.NewRng(seed).Sub("C11redef")
	var out bytes.Buffer
	i := interp.New(interp.Options{Stdout: &out, Stderr: &out})
	i.Use(stdlib.Symbols)
	var hist []string
	bad := ""
	eval := func(src string) string {
		hist = append(hist, src)
		v, err := func() (v reflect.Value, err error) {
			defer func() {
				if r := recover(); r != nil {
					err = fmt.Errorf("HOSTPANIC %v", r)
				}
			}()
			return i.Eval(src)
		}()
		if err != nil {
			return "error: " + err.Error()
		}
		if v.IsValid() && v.CanInterface() {
			return fmt.Sprint(v.Interface())
		}
		return ""
	}
	expect := func(src string, wants ...string) {
		got := eval(src)
		for _, w := range wants {
			if got == w {
				return
			}
		}
		if bad == "" {
			bad = fmt.Sprintf("%s = %s, want %s", src, got, strings.Join(wants, " or "))
		}
	}
	// the property does not say whether a caller compiled earlier sees the redefined callee: every value f has
	// had is accepted for callers of f
	fHist := []int{}
	viaF := func(add int) []string {
		var w []string
		for _, x := range fHist {
			w = append(w, fmt.Sprint(x+add))
		}
		return w
	}
	// model
	fK, hK, v := 1+rg.Intn(50), 1+rg.Intn(50), 1+rg.Intn(50)
	eval(fmt.Sprintf("func f() int { return %d }", fK))
	fHist = append(fHist, fK)
	eval("func g() int { return f() + 1000 }")
	eval(fmt.Sprintf("func h(x int) int { return x * %d }", hK))
	eval(fmt.Sprintf("var counter = %d", v))
	eval("type T struct{ N int }")
	eval("func (t T) Get() int { return t.N + f() }")
	eval("func bump() { counter++ }")
	steps := 4 + rg.Intn(6)
	for s := 0; s < steps; s++ {
		switch rg.Intn(7) {
		case 0:
			fK = 1 + rg.Intn(500)
			eval(fmt.Sprintf("func f() int { return %d }", fK))
			fHist = append(fHist, fK)
		case 1:
			hK = 1 + rg.Intn(50)
			eval(fmt.Sprintf("func h(x int) int { return x * %d }", hK))
		case 2:
			eval("bump()")
			v++
		case 3:
			expect("g()", viaF(1000)...)
		case 4:
			expect("h(3)", fmt.Sprint(3*hK))
		case 5:
			expect("T{5}.Get()", viaF(5)...)
		default:
			expect("counter", fmt.Sprint(v))
		}
	}
	expect("f()", fmt.Sprint(fK))
	expect("g()", viaF(1000)...)
	expect("h(2)", fmt.Sprint(2*hK))
	expect("counter", fmt.Sprint(v))
	return map[string]string{"bad": bad, "history": strings.Join(hist, " ;; ")}
}

// vcheck c11debug : VERIF_C11_IDX=<program> VERIF_C11_MODE=<mode> runs one mode in-process (development aid)
func init() {
	checks["c11debug"] = func(r *core.Run) {
		var idx uint64
		fmt.Sscan(os.Getenv("VERIF_C11_IDX"), &idx)
		sp, err := c11SplitProgram(genProgram(idx, 8).Render(nil))
		if err != nil {
			fmt.Println(err)
			os.Exit(2)
		}
		os.MkdirAll(r.Work, 0o755)
		ref := c11Run(sp, "whole", idx, r.Work)
		o := c11Run(sp, os.Getenv("VERIF_C11_MODE"), idx, r.Work)
		fmt.Println("err:", o.Err, "panic:", o.Panic)
		fmt.Println("out:", firstDiffText(ref.Out, o.Out))
		fmt.Println("globals:", firstDiffText(ref.Globals, o.Globals))
		os.Exit(0)
	}
}

func init() {
	checks["c11dumpdebug"] = func(r *core.Run) {
		var idx uint64
		fmt.Sscan(os.Getenv("VERIF_C11_IDX"), &idx)
		sp, _ := c11SplitProgram(genProgram(idx, 8).Render(nil))
		rg := core.NewRng(idx).Sub("C11files")
		nf := 3
		if os.Getenv("VERIF_C11_NF") == "2" {
			nf = 2
		}
		parts := make([]string, nf)
		for _, d := range append([]string{"var gDep2 = gDep + len(gName)", "var gDep = gBig/2 + int(gU8)", "var gName = fmt.Sprint(\"n\", gZero)"}, sp.Decls...) {
			parts[rg.Intn(nf)] += d + "\n\n"
		}
		dir := os.Getenv("VERIF_C11_OUT")
		os.MkdirAll(dir, 0o755)
		for k, p := range parts {
			os.WriteFile(fmt.Sprintf("%s/f%d.go", dir, k), []byte("package main\n\n"+importsFor(sp.Imports, p)+p), 0o644)
		}
		os.WriteFile(dir+"/zmain.go", []byte("package main\n\nimport \"fmt\"\n\nfunc main() {\n\tfmt.Println(\"deps\", gDep2, gDep, gName)\n"+strings.Join(sp.Stmts, "\n")+"\n}\n"), 0o644)
		os.WriteFile(dir+"/go.mod", []byte("module ref\n\ngo 1.22\n"), 0o644)
		os.Exit(0)
	}
}
