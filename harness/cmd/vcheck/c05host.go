package main

import (
	"strings"

	"verifharness/core"
)

// host-interface cells: interpreted values handed to compiled code that expects an interface.
func c05HostProgram() *core.CellProgram {
	p := &core.CellProgram{Name: "C05-host", Imports: []string{"errors", "sort", "io", "strings", "encoding/json", "bytes"}}
	p.Shared = `
type MyErr struct{ Code int }

func (e MyErr) Error() string { return fmt.Sprint("myerr ", e.Code) }

type PErr struct{ Msg string }

func (e *PErr) Error() string { return "perr " + e.Msg }

type Wrap struct{ Inner error }

func (w Wrap) Error() string { return "wrap(" + w.Inner.Error() + ")" }
func (w Wrap) Unwrap() error { return w.Inner }

type ShNamer interface{ Name() string }
type ShSizer interface{ Size() int }
type ShNameSizer interface {
	ShNamer
	ShSizer
}

type ShBase struct{ id int }

func (b ShBase) Name() int { return b.id } // another signature than ShNamer.Name
func (b ShBase) Size() int { return b.id * 10 }

type ShMid struct {
	ShBase
	label string
}

func (m ShMid) Name() string { return "mid-" + m.label } // shadows the promoted ShBase.Name

type ShTop struct {
	*ShMid
	extra int
}

type ShPtr struct{ ShBase }

func (p *ShPtr) Name() string { return "ptr" } // only *ShPtr is a ShNamer

func shDescribe(v interface{}) string {
	switch x := v.(type) {
	case ShNameSizer:
		return fmt.Sprint("NameSizer ", x.Name(), " ", x.Size())
	case ShSizer:
		return fmt.Sprint("Sizer ", x.Size())
	}
	return "other"
}

type Str struct{ N int }

func (s Str) String() string { return fmt.Sprint("Str<", s.N, ">") }

type PStr struct{ N int }

func (s *PStr) String() string { return fmt.Sprint("PStr<", s.N, ">") }

type ByLen []string

func (b ByLen) Len() int           { return len(b) }
func (b ByLen) Less(i, j int) bool { return len(b[i]) < len(b[j]) || (len(b[i]) == len(b[j]) && b[i] < b[j]) }
func (b ByLen) Swap(i, j int)      { b[i], b[j] = b[j], b[i] }

type Sink struct{ parts []string }

func (s *Sink) Write(p []byte) (int, error) {
	s.parts = append(s.parts, string(p))
	return len(p), nil
}

type Src struct {
	data string
	pos  int
}

func (s *Src) Read(p []byte) (int, error) {
	if s.pos >= len(s.data) {
		return 0, io.EOF
	}
	n := copy(p[:3], s.data[s.pos:])
	s.pos += n
	return n, nil
}

type Shape interface{ Area() int }

type Sq struct{ S int }

func (s Sq) Area() int { return s.S * s.S }

type Temp float64

func (t Temp) MarshalJSON() ([]byte, error) { return []byte(fmt.Sprintf("\"%.1fC\"", float64(t))), nil }
`
	cell := func(id, body string) {
		fn := "h_" + strings.ReplaceAll(id, "-", "_")
		p.Cells = append(p.Cells, core.Cell{ID: "C05/host/" + id, Fn: fn, Decls: "func " + fn + "() {\n" + body + "}\n", Tags: []string{"host:" + id}})
	}
	cell("error-sprint-var", "\tvar e error = MyErr{3}\n	obs(\"e\", fmt.Sprint(e))\n")
	cell("error-sprintf-var", "\tvar e error = MyErr{3}\n	obs(\"e\", fmt.Sprintf(\"%v|%s\", e, e))\n")
	cell("error-sprint-direct", "\tobs(\"e\", fmt.Sprint(MyErr{3}))\n")
	cell("error-method-call", "\tvar e error = MyErr{3}\n	obs(\"e\", e.Error())\n")
	cell("error-ptr-sprint", "\tobs(\"pe\", fmt.Sprint(&PErr{\"x\"}))\n")
	cell("error-ptr-var", "\tvar e error = &PErr{\"y\"}\n	obs(\"pe\", e.Error(), fmt.Sprint(e))\n")
	cell("error-return", "\tf := func(c int) error {\n		if c > 0 {\n			return MyErr{c}\n		}\n		return nil\n	}\n	obs(\"ret\", f(0) == nil, f(2) != nil, f(2).Error())\n")
	cell("errors-unwrap", "\tw := Wrap{Wrap{MyErr{7}}}\n	obs(\"unwrap\", errors.Unwrap(w).Error())\n")
	cell("errors-is", "\tbase := MyErr{7}\n	w := Wrap{Wrap{base}}\n	obs(\"is\", errors.Is(w, base), errors.Is(w, MyErr{8}))\n")
	cell("errors-as", "\tw := Wrap{MyErr{7}}\n	var target MyErr\n	obs(\"as\", errors.As(w, &target), target.Code)\n")
	cell("errors-join", "\tobs(\"join\", strings.ReplaceAll(errors.Join(MyErr{1}, &PErr{\"j\"}).Error(), \"\\n\", \"/\"))\n")
	cell("errors-new-is", "\tsentinel := errors.New(\"s\")\n	e := fmt.Errorf(\"ctx: %w\", sentinel)\n	obs(\"is\", errors.Is(e, sentinel), e.Error())\n")
	cell("fmt-errorf-wrap", "\te := fmt.Errorf(\"ctx: %w\", MyErr{4})\n	obs(\"msg\", e.Error())\n")
	cell("fmt-errorf-wrap-as", "\te := fmt.Errorf(\"ctx: %w\", MyErr{4})\n	var t MyErr\n	obs(\"as\", errors.As(e, &t), t.Code)\n")
	cell("stringer-value-v", "\ts := Str{5}\n	obs(\"v\", fmt.Sprintf(\"%v %s %d\", s, s, s.N))\n")
	cell("stringer-value-sprint", "\tobs(\"v\", fmt.Sprint(Str{5}), fmt.Sprintln(Str{6}) == \"Str<6>\\n\")\n")
	cell("stringer-in-slice", "\tobs(\"slice\", fmt.Sprint([]Str{{1}, {2}}))\n")
	cell("stringer-in-struct", "\tobs(\"struct\", fmt.Sprint(struct{ S Str }{Str{3}}))\n")
	cell("stringer-addr-of-value", "\ts := Str{5}\n	obs(\"ptr\", fmt.Sprint(&s))\n")
	cell("stringer-iface-var", "\tvar st fmt.Stringer = Str{8}\n	obs(\"st\", st.String(), fmt.Sprint(st))\n")
	cell("stringer-pointer", "\tp := &PStr{6}\n	obs(\"p\", fmt.Sprintf(\"%v %s\", p, p))\n")
	cell("stringer-pointer-in-map", "\tp := &PStr{6}\n	obs(\"map\", fmt.Sprint(map[string]*PStr{\"k\": p}))\n")
	cell("sort-sort", "\tb := ByLen{\"ccc\", \"a\", \"bb\", \"aa\", \"dddd\", \"\"}\n	sort.Sort(b)\n	obs(\"sorted\", []string(b), sort.IsSorted(b))\n")
	cell("sort-reverse", "\tb := ByLen{\"ccc\", \"a\", \"bb\"}\n	sort.Sort(sort.Reverse(b))\n	obs(\"rev\", []string(b))\n")
	cell("sort-stable", "\tb := ByLen{\"bb\", \"aa\", \"c\"}\n	sort.Stable(b)\n	obs(\"stable\", []string(b))\n")
	cell("sort-slice-closure", "\tx := []int{5, 2, 8, 1}\n	sort.Slice(x, func(i, j int) bool { return x[i] > x[j] })\n	obs(\"slice\", x)\n")
	cell("io-writer-fprintf", "\ts := &Sink{}\n	fmt.Fprintf(s, \"%d-%s\", 4, \"x\")\n	fmt.Fprintln(s, \"line\")\n	obs(\"parts\", len(s.parts), strings.Join(s.parts, \"|\"))\n")
	cell("io-writer-writestring", "\ts := &Sink{}\n	io.WriteString(s, \"ws\")\n	obs(\"parts\", len(s.parts), strings.Join(s.parts, \"|\"))\n")
	cell("io-writer-multi", "\ta, b := &Sink{}, &Sink{}\n	w := io.MultiWriter(a, b)\n	fmt.Fprint(w, \"m\")\n	obs(\"multi\", a.parts, b.parts)\n")
	cell("io-reader-readall", "\tb, err := io.ReadAll(&Src{data: \"hello reader\"})\n	obs(\"read\", string(b), err)\n")
	cell("io-reader-copy", "\tvar buf bytes.Buffer\n	n, err := io.Copy(&buf, &Src{data: \"copy me\"})\n	obs(\"copy\", n, err, buf.String())\n")
	cell("io-reader-limit", "\tb, err := io.ReadAll(io.LimitReader(&Src{data: \"0123456789\"}, 4))\n	obs(\"limit\", string(b), err)\n")
	cell("json-marshaler-top", "\tb, err := json.Marshal(Temp(21.55))\n	obs(\"json\", string(b), err)\n")
	cell("json-marshaler-in-map", "\tb, err := json.Marshal(map[string]interface{}{\"t\": Temp(21.55)})\n	obs(\"json\", string(b), err)\n")
	cell("json-marshaler-in-slice", "\tb, err := json.Marshal([]Temp{1, 2})\n	obs(\"json\", string(b), err)\n")
	cell("json-marshaler-in-struct", "\tb, err := json.Marshal(struct{ T Temp }{Temp(3)})\n	obs(\"json\", string(b), err)\n")
	cell("json-plain-struct", "\tb, err := json.Marshal(struct {\n		A int\n		B string `json:\"b\"`\n	}{1, \"x\"})\n	obs(\"json\", string(b), err)\n")
	cell("error-type-switch", "\tvar e error = MyErr{9}\n	switch x := e.(type) {\n	case *PErr:\n		obs(\"ts\", \"perr\", x.Msg)\n	case MyErr:\n		obs(\"ts\", \"myerr\", x.Code)\n	default:\n		obs(\"ts\", \"default\")\n	}\n")
	cell("error-assert-unwrapper", "\tvar e error = Wrap{MyErr{1}}\n	_, ok := e.(interface{ Unwrap() error })\n	_, ok2 := error(MyErr{1}).(interface{ Unwrap() error })\n	obs(\"unwrapper\", ok, ok2)\n")
	cell("error-compare", "\ta, b := error(MyErr{1}), error(MyErr{1})\n	obs(\"cmp\", a == b, a != nil)\n")
	cell("iface-equality", "\tvar a, b, c Shape = Sq{7}, Sq{7}, Sq{8}\n	obs(\"eq\", a == b, a == c, a != b)\n")
	cell("iface-conversion-call", "\tobs(\"conv\", Shape(Sq{3}).Area())\n")
	cell("iface-conversion-equality", "\tobs(\"conveq\", Shape(Sq{3}) == Shape(Sq{3}), Shape(Sq{3}) == Shape(Sq{4}))\n")
	// a method shadowing a promoted method of another signature decides the method set
	cell("shadowed-promoted-method-assert", "\tvar s ShSizer = ShMid{ShBase{3}, \"a\"}\n\tn, ok := s.(ShNamer)\n\tobs(\"mid-namer\", ok)\n\tif ok {\n\t\tobs(\"name\", n.Name())\n\t}\n\tns, ok2 := s.(ShNameSizer)\n\tobs(\"mid-namesizer\", ok2)\n\tif ok2 {\n\t\tobs(\"ns\", ns.Name(), ns.Size())\n\t}\n\ts = ShBase{5}\n\t_, ok3 := s.(ShNamer)\n\tobs(\"base-namer\", ok3)\n")
	cell("shadowed-promoted-method-embedded-pointer", "\tvar s ShSizer = ShTop{&ShMid{ShBase{4}, \"b\"}, 1}\n\tn, ok := s.(ShNamer)\n\tobs(\"top-namer\", ok)\n\tif ok {\n\t\tobs(\"name\", n.Name())\n\t}\n\tobs(\"direct\", s.(ShNamer).Name())\n")
	cell("shadowed-promoted-method-type-switch", "\tobs(\"d1\", shDescribe(ShMid{ShBase{6}, \"c\"}))\n\tobs(\"d3\", shDescribe(&ShPtr{ShBase{8}}))\n")
	cell("type-switch-method-of-other-signature", "\tobs(\"d2\", shDescribe(ShBase{7}))\n")
	cell("type-switch-pointer-method-on-value", "\tobs(\"d4\", shDescribe(ShPtr{ShBase{9}}))\n")
	cell("shadowed-promoted-method-assign", "\tvar n ShNamer = ShMid{ShBase{1}, \"z\"}\n\tvar q ShNameSizer = ShTop{&ShMid{ShBase{2}, \"y\"}, 0}\n\tobs(\"assign\", n.Name(), q.Name(), q.Size())\n")
	return p
}
