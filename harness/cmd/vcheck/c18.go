package main

import (
	"bytes"
	"encoding/json"
	"fmt"
	"go/ast"
	"go/build"
	"go/constant"
	"go/importer"
	"go/parser"
	"go/token"
	"go/types"
	"os"
	"os/exec"
	"path"
	"path/filepath"
	"sort"
	"strconv"
	"strings"

	"verifharness/core"

	"github.com/traefik/yaegi/extract"
)

// C18: extract emits complete, compilable, faithful wrappers.
// The real Extractor is run on every input package; its output is (1) type-checked as Go source against the
// package (the compile oracle), (2) matched entry by entry against an independent enumeration of the package's
// exported objects (go/types view): name, denoted object, by-address for variables, exact value for untyped
// constants, (3) its interface wrappers checked: one per exported method-set interface, one W field and one
// forwarding method per exported method with the identical signature, arguments forwarded in order, variadic
// spread. Generated packages are additionally built by gc together with a reflect-only driver that exercises the
// tables and the wrappers at run time (c18gen.go).

type c18Fail struct {
	Aspect string `json:"aspect"` // extract | compile | missing | surplus | binding | exact | wrapper
	Name   string `json:"name"`
	Msg    string `json:"msg"`
}

type c18Report struct {
	Fails                 []c18Fail `json:"fails"`
	NVal, NTyp, NWrap, NM int
	NConst                int
	Src                   string            `json:"src,omitempty"`
	MainSrc               string            `json:"main_src,omitempty"` // the same extraction with Dest main, for the run-time driver
	Ref                   map[string]c18Ref `json:"ref,omitempty"`
}

func (r *c18Report) fail(aspect, name, format string, a ...any) {
	r.Fails = append(r.Fails, c18Fail{aspect, name, fmt.Sprintf(format, a...)})
}

const c18SymFile = "package out\n\nimport \"reflect\"\n\nvar Symbols = map[string]map[string]reflect.Value{}\n"

func repoDir() string {
	if d := os.Getenv("VERIF_REPO"); d != "" {
		return d
	}
	return "/repo"
}

// c18Analyze runs the extractor on importPath (resolved through go/build: GOROOT or gopath) and checks its output.
func c18Analyze(importPath, gopath string, wantMain bool) (rep *c18Report) {
	rep = &c18Report{}
	defer func() {
		if r := recover(); r != nil {
			rep.fail("extract", "", "Go panic: %v", r)
		}
	}()
	os.Setenv("GO111MODULE", "off")
	if gopath != "" {
		build.Default.GOPATH = gopath
		os.Setenv("GOPATH", gopath)
	}
	var buf bytes.Buffer
	ex := extract.Extractor{Dest: "out"}
	if _, err := ex.Extract(importPath, "", &buf); err != nil {
		rep.fail("extract", "", "Extract returned an error: %v", err)
		return
	}
	src := buf.String()
	rep.Src = src
	fset := token.NewFileSet()
	imp := importer.ForCompiler(fset, "source", nil)
	pkg, err := imp.Import(importPath)
	if err != nil {
		rep.fail("extract", "", "reference import failed: %v", err)
		return
	}
	gen, err := parser.ParseFile(fset, "gen.go", src, parser.ParseComments)
	if err != nil {
		rep.fail("compile", "", "generated file does not parse: %v", err)
		return
	}
	sym, _ := parser.ParseFile(fset, "symbols.go", c18SymFile, 0)
	files := []*ast.File{gen, sym}
	if importPath == "os" || importPath == "log" || importPath == "log/slog" || importPath == "log/syslog" {
		// the generated file refers to the replacements shipped next to it in package stdlib
		rs, _ := filepath.Glob(filepath.Join(repoDir(), "stdlib", "restricted*.go"))
		for _, rf := range rs {
			b, err := os.ReadFile(rf)
			if err == nil {
				s := strings.Replace(string(b), "package stdlib", "package out", 1)
				if f, err := parser.ParseFile(fset, filepath.Base(rf), s, parser.ParseComments); err == nil {
					files = append(files, f)
				}
			}
		}
	}
	info := &types.Info{Uses: map[*ast.Ident]types.Object{}, Defs: map[*ast.Ident]types.Object{}, Types: map[ast.Expr]types.TypeAndValue{}}
	nerr := 0
	conf := types.Config{Importer: imp, Error: func(err error) {
		if nerr < 5 && !strings.Contains(err.Error(), "restricted.go") {
			rep.fail("compile", "", "%v", err)
		}
		nerr++
	}}
	out, _ := conf.Check("out", fset, files, info)
	if nerr > 0 || out == nil {
		return
	}
	c18Match(rep, importPath, pkg, gen, info, out)
	if len(rep.Fails) == 0 {
		rep.Src = ""
	}
	if wantMain {
		var mb bytes.Buffer
		ex := extract.Extractor{Dest: "main"}
		if _, err := ex.Extract(importPath, "", &mb); err == nil {
			rep.MainSrc = mb.String()
		}
		rep.Ref = map[string]c18Ref{}
		objs, _ := c18Expected(pkg)
		for n, o := range objs {
			ref := c18Ref{Type: o.Type().String()}
			switch o := o.(type) {
			case *types.Func:
				ref.Kind = "func"
			case *types.Var:
				ref.Kind = "var"
			case *types.TypeName:
				ref.Kind = "type"
				if it, ok := o.Type().Underlying().(*types.Interface); ok {
					ref.Impl = true
					for i := 0; i < it.NumMethods(); i++ {
						if !it.Method(i).Exported() {
							ref.Impl = false
						}
					}
				}
			case *types.Const:
				ref.Kind = "tconst"
				if b, ok := o.Type().(*types.Basic); ok && b.Info()&types.IsUntyped != 0 {
					ref.Kind = "uconst"
				}
				ref.Exact = o.Val().ExactString()
				ref.CK = int(o.Val().Kind())
			}
			rep.Ref[n] = ref
		}
	}
	return
}

// c18Expected enumerates what must be bound: exported, package-level, non-generic, usable as a value or type.
func c18Expected(pkg *types.Package) (objs map[string]types.Object, ifaces map[string]*types.Interface) {
	objs, ifaces = map[string]types.Object{}, map[string]*types.Interface{}
	sc := pkg.Scope()
	for _, name := range sc.Names() {
		o := sc.Lookup(name)
		if !o.Exported() {
			continue
		}
		switch o := o.(type) {
		case *types.Builtin:
			continue // unsafe.Sizeof etc.: not values
		case *types.Func:
			if o.Type().(*types.Signature).TypeParams().Len() > 0 {
				continue
			}
		case *types.TypeName:
			if n, ok := o.Type().(*types.Named); ok && n.TypeParams().Len() > 0 {
				continue
			}
			if a, ok := o.Type().(*types.Alias); ok && a.TypeParams().Len() > 0 {
				continue
			}
			if it, ok := o.Type().Underlying().(*types.Interface); ok {
				if !it.IsMethodSet() {
					continue // a constraint: not usable as a type
				}
				ifaces[name] = it
			}
		}
		objs[name] = o
	}
	return
}

func c18Match(rep *c18Report, importPath string, pkg *types.Package, gen *ast.File, info *types.Info, out *types.Package) {
	objs, ifaces := c18Expected(pkg)
	// locate Symbols["key"] = map[string]reflect.Value{...}
	var lit *ast.CompositeLit
	var key string
	ast.Inspect(gen, func(n ast.Node) bool {
		as, ok := n.(*ast.AssignStmt)
		if !ok || len(as.Lhs) != 1 || len(as.Rhs) != 1 {
			return true
		}
		ix, ok := as.Lhs[0].(*ast.IndexExpr)
		if !ok {
			return true
		}
		if id, ok := ix.X.(*ast.Ident); !ok || id.Name != "Symbols" {
			return true
		}
		if bl, ok := ix.Index.(*ast.BasicLit); ok {
			key, _ = strconv.Unquote(bl.Value)
		}
		lit, _ = as.Rhs[0].(*ast.CompositeLit)
		return false
	})
	if lit == nil {
		if len(objs) > 0 {
			rep.fail("missing", "", "no Symbols[...] table in the generated file")
		}
		return
	}
	if want := path.Join(importPath, pkg.Name()); key != want {
		rep.fail("binding", "", "table registered under %q, want %q", key, want)
	}
	seen := map[string]bool{}
	wrapTypes := map[string]*types.Named{}
	for _, el := range lit.Elts {
		kv, ok := el.(*ast.KeyValueExpr)
		if !ok {
			rep.fail("binding", "", "table element without a key")
			continue
		}
		kl, _ := kv.Key.(*ast.BasicLit)
		if kl == nil {
			rep.fail("binding", "", "table key is not a literal")
			continue
		}
		name, _ := strconv.Unquote(kl.Value)
		if seen[name] {
			rep.fail("surplus", name, "bound twice")
		}
		seen[name] = true
		arg := c18ValueOfArg(kv.Value, info)
		if arg == nil {
			rep.fail("binding", name, "value is not reflect.ValueOf(...) / reflect.ValueOf(&x).Elem()")
			continue
		}
		if strings.HasPrefix(name, "_") {
			// interface wrapper: (*W)(nil)
			tn := c18NilPtrType(arg.expr, info)
			if nt, ok := tn.(*types.Named); ok && nt.Obj().Pkg() == out {
				wrapTypes[name[1:]] = nt
			} else {
				rep.fail("wrapper", name, "wrapper entry is not (*<wrapper type>)(nil)")
			}
			if _, ok := ifaces[name[1:]]; !ok {
				rep.fail("surplus", name, "wrapper for something that is not an exported interface of the package")
			}
			continue
		}
		o, ok := objs[name]
		if !ok {
			rep.fail("surplus", name, "bound but not an exported non-generic object of the package")
			continue
		}
		switch o := o.(type) {
		case *types.Var:
			rep.NVal++
			if !arg.addr {
				rep.fail("binding", name, "variable not bound by address")
				continue
			}
			if c18Denotes(arg.expr, info) != o {
				rep.fail("binding", name, "bound to another object")
			}
		case *types.Func:
			rep.NVal++
			d := c18Denotes(arg.expr, info)
			if d != o && !c18RestrictedOK(importPath, name, d) {
				rep.fail("binding", name, "bound to another object (%v)", d)
			}
			if arg.addr {
				rep.fail("binding", name, "function bound by address")
			}
		case *types.TypeName:
			rep.NTyp++
			t := c18NilPtrType(arg.expr, info)
			if t == nil || (!types.Identical(t, o.Type()) && !c18RestrictedTypeOK(importPath, name, t)) {
				rep.fail("binding", name, "type entry is not (*%s.%s)(nil)", pkg.Name(), name)
			}
		case *types.Const:
			rep.NConst++
			c18Const(rep, name, o, arg, info)
		}
	}
	for name := range objs {
		if !seen[name] {
			rep.fail("missing", name, "exported %s not bound", c18Kind(objs[name]))
		}
	}
	// wrappers
	for name, it := range ifaces {
		wt := wrapTypes[name]
		if wt == nil {
			if !seen["_"+name] {
				rep.fail("missing", "_"+name, "no wrapper for exported interface %s", name)
			}
			continue
		}
		rep.NWrap++
		c18Wrapper(rep, name, it, wt, gen, info, pkg)
	}
}

func c18Kind(o types.Object) string {
	switch o.(type) {
	case *types.Var:
		return "variable"
	case *types.Func:
		return "function"
	case *types.TypeName:
		return "type"
	case *types.Const:
		return "constant"
	}
	return "object"
}

// the documented replacements of package stdlib
func c18RestrictedOK(importPath, name string, d types.Object) bool {
	if d == nil || d.Pkg() == nil || d.Pkg().Name() != "out" {
		return false
	}
	want := map[string]string{"os.Exit": "osExit", "os.FindProcess": "osFindProcess", "log.Fatal": "logFatal", "log.Fatalf": "logFatalf", "log.Fatalln": "logFatalln", "log.New": "logNew", "log.Default": "logDefault",
		"log/slog.NewLogLogger": "slogNewLogLogger", "log/syslog.NewLogger": "syslogNewLogger"}
	return want[importPath+"."+name] == d.Name()
}

func c18RestrictedTypeOK(importPath, name string, t types.Type) bool {
	nt, ok := t.(*types.Named)
	return ok && importPath == "log" && name == "Logger" && nt.Obj().Name() == "logLogger"
}

type c18Arg struct {
	expr ast.Expr
	addr bool
}

// c18ValueOfArg recognises reflect.ValueOf(X) and reflect.ValueOf(&X).Elem().
func c18ValueOfArg(e ast.Expr, info *types.Info) *c18Arg {
	isValueOf := func(c *ast.CallExpr) bool {
		sel, ok := c.Fun.(*ast.SelectorExpr)
		if !ok || len(c.Args) != 1 {
			return false
		}
		f, ok := info.Uses[sel.Sel].(*types.Func)
		return ok && f.Pkg() != nil && f.Pkg().Path() == "reflect" && f.Name() == "ValueOf"
	}
	c, ok := e.(*ast.CallExpr)
	if !ok {
		return nil
	}
	if isValueOf(c) {
		return &c18Arg{expr: c.Args[0]}
	}
	// reflect.ValueOf(&X).Elem()
	sel, ok := c.Fun.(*ast.SelectorExpr)
	if !ok || sel.Sel.Name != "Elem" || len(c.Args) != 0 {
		return nil
	}
	in, ok := sel.X.(*ast.CallExpr)
	if !ok || !isValueOf(in) {
		return nil
	}
	u, ok := in.Args[0].(*ast.UnaryExpr)
	if !ok || u.Op != token.AND {
		return nil
	}
	return &c18Arg{expr: u.X, addr: true}
}

func c18Denotes(e ast.Expr, info *types.Info) types.Object {
	switch x := e.(type) {
	case *ast.ParenExpr:
		return c18Denotes(x.X, info)
	case *ast.SelectorExpr:
		return info.Uses[x.Sel]
	case *ast.Ident:
		return info.Uses[x]
	}
	return nil
}

// c18NilPtrType recognises (*T)(nil) and returns T.
func c18NilPtrType(e ast.Expr, info *types.Info) types.Type {
	c, ok := e.(*ast.CallExpr)
	if !ok || len(c.Args) != 1 {
		return nil
	}
	if id, ok := c.Args[0].(*ast.Ident); !ok || id.Name != "nil" {
		return nil
	}
	tv, ok := info.Types[c.Fun]
	if !ok || !tv.IsType() {
		return nil
	}
	p, ok := tv.Type.(*types.Pointer)
	if !ok {
		return nil
	}
	return p.Elem()
}

func c18Const(rep *c18Report, name string, o *types.Const, arg *c18Arg, info *types.Info) {
	if arg.addr {
		rep.fail("binding", name, "constant bound by address")
		return
	}
	b, isBasic := o.Type().(*types.Basic)
	untyped := isBasic && b.Info()&types.IsUntyped != 0
	// form 1: the constant itself
	if d := c18Denotes(arg.expr, info); d != nil {
		if d != o {
			rep.fail("binding", name, "bound to another object (%v)", d)
			return
		}
		if untyped {
			// the value takes the default type: exact only if representable there
			dv := c18DefaultValue(o.Val(), types.Default(o.Type()))
			if dv == nil || !constant.Compare(dv, token.EQL, o.Val()) {
				rep.fail("exact", name, "untyped constant bound through its default type loses its exact value %s", o.Val().ExactString())
			}
		}
		return
	}
	// form 2: an expression over go/constant: MakeFromLiteral(lit, token.KIND, 0), BinaryOp(x, token.OP, y)
	v, msg := c18EvalConst(arg.expr, info)
	if msg != "" {
		rep.fail("binding", name, "%s", msg)
		return
	}
	if v.Kind() == constant.Unknown {
		rep.fail("exact", name, "the bound expression has no value (invalid literal), constant is %s", clip18(o.Val().ExactString()))
		return
	}
	if !untyped {
		rep.fail("binding", name, "typed constant re-materialised as an untyped value")
		return
	}
	if !constant.Compare(v, token.EQL, o.Val()) {
		rep.fail("exact", name, "bound value %s differs from the constant %s", clip18(v.ExactString()), clip18(o.Val().ExactString()))
	}
}

var c18Tokens = map[string]token.Token{"INT": token.INT, "FLOAT": token.FLOAT, "STRING": token.STRING, "CHAR": token.CHAR, "IMAG": token.IMAG,
	"ADD": token.ADD, "SUB": token.SUB, "MUL": token.MUL, "QUO": token.QUO}

func c18EvalConst(e ast.Expr, info *types.Info) (constant.Value, string) {
	c, ok := e.(*ast.CallExpr)
	if !ok {
		return nil, "unrecognised constant expression"
	}
	f, ok := c18Denotes(c.Fun, info).(*types.Func)
	if !ok || f.Pkg() == nil || f.Pkg().Path() != "go/constant" || len(c.Args) != 3 {
		return nil, "unrecognised constant expression"
	}
	tokOf := func(e ast.Expr) (token.Token, bool) {
		sel, ok := e.(*ast.SelectorExpr)
		if !ok {
			return 0, false
		}
		t, ok := c18Tokens[sel.Sel.Name]
		return t, ok
	}
	switch f.Name() {
	case "MakeFromLiteral":
		ls, ok := c.Args[0].(*ast.BasicLit)
		tok, ok2 := tokOf(c.Args[1])
		if !ok || !ok2 {
			return nil, "unrecognised MakeFromLiteral arguments"
		}
		text, _ := strconv.Unquote(ls.Value)
		return constant.MakeFromLiteral(text, tok, 0), ""
	case "BinaryOp":
		x, m := c18EvalConst(c.Args[0], info)
		if m != "" {
			return nil, m
		}
		y, m := c18EvalConst(c.Args[2], info)
		if m != "" {
			return nil, m
		}
		tok, ok := tokOf(c.Args[1])
		if !ok || x.Kind() == constant.Unknown || y.Kind() == constant.Unknown {
			return constant.MakeUnknown(), ""
		}
		return constant.BinaryOp(x, tok, y), ""
	}
	return nil, "unrecognised constant expression"
}

func clip18(s string) string {
	if len(s) > 120 {
		return s[:120] + "..."
	}
	return s
}

// c18DefaultValue rounds an untyped constant to its default type.
func c18DefaultValue(v constant.Value, t types.Type) constant.Value {
	b, ok := t.(*types.Basic)
	if !ok {
		return nil
	}
	switch b.Kind() {
	case types.Bool, types.String:
		return v
	case types.Int, types.Int32: // rune
		if i, exact := constant.Int64Val(constant.ToInt(v)); exact {
			return constant.MakeInt64(i)
		}
		return nil
	case types.Float64:
		f, _ := constant.Float64Val(v)
		return constant.MakeFloat64(f)
	case types.Complex128:
		re, _ := constant.Float64Val(constant.Real(v))
		im, _ := constant.Float64Val(constant.Imag(v))
		return constant.BinaryOp(constant.MakeFloat64(re), token.ADD, constant.MakeImag(constant.MakeFloat64(im)))
	}
	return nil
}

// c18Wrapper checks the wrapper type of one interface.
func c18Wrapper(rep *c18Report, name string, it *types.Interface, wt *types.Named, gen *ast.File, info *types.Info, pkg *types.Package) {
	st, ok := wt.Underlying().(*types.Struct)
	if !ok {
		rep.fail("wrapper", name, "wrapper type is not a struct")
		return
	}
	fields := map[string]*types.Var{}
	for i := 0; i < st.NumFields(); i++ {
		fields[st.Field(i).Name()] = st.Field(i)
	}
	if f := fields["IValue"]; f == nil {
		rep.fail("wrapper", name, "no IValue field")
	}
	decls := map[string]*ast.FuncDecl{}
	for _, d := range gen.Decls {
		fd, ok := d.(*ast.FuncDecl)
		if !ok || fd.Recv == nil || len(fd.Recv.List) != 1 {
			continue
		}
		if id, ok := fd.Recv.List[0].Type.(*ast.Ident); ok && id.Name == wt.Obj().Name() {
			decls[fd.Name.Name] = fd
		}
	}
	hasUnexported := false
	nExp := 0
	for i := 0; i < it.NumMethods(); i++ {
		m := it.Method(i)
		if !m.Exported() {
			hasUnexported = true
			if decls[m.Name()] != nil || fields["W"+m.Name()] != nil {
				rep.fail("wrapper", name+"."+m.Name(), "unexported method emitted")
			}
			continue
		}
		nExp++
		rep.NM++
		msig := m.Type().(*types.Signature)
		plain := types.NewSignatureType(nil, nil, nil, msig.Params(), msig.Results(), msig.Variadic())
		f := fields["W"+m.Name()]
		if f == nil {
			rep.fail("wrapper", name+"."+m.Name(), "no W%s field", m.Name())
			continue
		}
		if !types.Identical(f.Type(), plain) {
			rep.fail("wrapper", name+"."+m.Name(), "field W%s has type %s, method is %s", m.Name(), f.Type(), plain)
		}
		fd := decls[m.Name()]
		if fd == nil {
			rep.fail("wrapper", name+"."+m.Name(), "no forwarding method")
			continue
		}
		if obj, ok := info.Defs[fd.Name].(*types.Func); ok {
			ds := obj.Type().(*types.Signature)
			dp := types.NewSignatureType(nil, nil, nil, ds.Params(), ds.Results(), ds.Variadic())
			if !types.Identical(dp, plain) {
				rep.fail("wrapper", name+"."+m.Name(), "forwarding method has signature %s, interface method is %s", dp, plain)
			}
		}
		c18Forward(rep, name+"."+m.Name(), fd, msig)
	}
	// no surplus W fields / methods
	for fn := range fields {
		if fn != "IValue" && (!strings.HasPrefix(fn, "W") || c18Method(it, fn[1:]) == nil) {
			rep.fail("wrapper", name+"."+fn, "surplus field")
		}
	}
	for mn := range decls {
		if c18Method(it, mn) == nil {
			rep.fail("wrapper", name+"."+mn, "surplus method")
		}
	}
	if !hasUnexported && nExp == it.NumMethods() {
		if !types.Implements(wt, it) {
			rep.fail("wrapper", name, "wrapper type does not implement the interface")
		}
	}
}

func c18Method(it *types.Interface, name string) *types.Func {
	for i := 0; i < it.NumMethods(); i++ {
		if it.Method(i).Name() == name && it.Method(i).Exported() {
			return it.Method(i)
		}
	}
	return nil
}

// c18Forward checks the body: [nil guard for String] then (return)? W.W<M>(p0, p1, ..., pn[...]).
func c18Forward(rep *c18Report, id string, fd *ast.FuncDecl, sig *types.Signature) {
	var params []string
	for _, f := range fd.Type.Params.List {
		for _, n := range f.Names {
			params = append(params, n.Name)
		}
	}
	if len(params) != sig.Params().Len() {
		rep.fail("wrapper", id, "%d named parameters, method has %d", len(params), sig.Params().Len())
		return
	}
	if fd.Body == nil || len(fd.Body.List) == 0 {
		rep.fail("wrapper", id, "empty body")
		return
	}
	last := fd.Body.List[len(fd.Body.List)-1]
	var call *ast.CallExpr
	switch s := last.(type) {
	case *ast.ReturnStmt:
		if sig.Results().Len() == 0 || len(s.Results) != 1 {
			rep.fail("wrapper", id, "return statement does not match the result list")
			return
		}
		call, _ = s.Results[0].(*ast.CallExpr)
	case *ast.ExprStmt:
		if sig.Results().Len() != 0 {
			rep.fail("wrapper", id, "results of the forwarded call are dropped")
			return
		}
		call, _ = s.X.(*ast.CallExpr)
	}
	if call == nil {
		rep.fail("wrapper", id, "body does not end with the forwarded call")
		return
	}
	sel, ok := call.Fun.(*ast.SelectorExpr)
	recv := fd.Recv.List[0].Names
	if !ok || sel.Sel.Name != "W"+fd.Name.Name || len(recv) != 1 {
		rep.fail("wrapper", id, "forwards to something else than W%s", fd.Name.Name)
		return
	}
	if x, ok := sel.X.(*ast.Ident); !ok || x.Name != recv[0].Name {
		rep.fail("wrapper", id, "forwards through something else than the receiver")
	}
	if len(call.Args) != len(params) {
		rep.fail("wrapper", id, "forwards %d arguments, method has %d parameters", len(call.Args), len(params))
		return
	}
	for i, a := range call.Args {
		if x, ok := a.(*ast.Ident); !ok || x.Name != params[i] {
			rep.fail("wrapper", id, "argument %d is not parameter %s", i, params[i])
		}
	}
	if sig.Variadic() != call.Ellipsis.IsValid() {
		rep.fail("wrapper", id, "variadic=%v but forwarded with ellipsis=%v", sig.Variadic(), call.Ellipsis.IsValid())
	}
}

func c18StdPackages() ([]string, error) {
	cmd := exec.Command("go", "list", "std")
	cmd.Env = append(os.Environ(), "GOFLAGS=", "GO111MODULE=off")
	b, err := cmd.Output()
	if err != nil {
		return nil, err
	}
	var out []string
	for _, p := range strings.Fields(string(b)) {
		if strings.Contains(p, "internal") || strings.HasPrefix(p, "vendor/") || strings.HasPrefix(p, "cmd/") {
			continue
		}
		out = append(out, p)
	}
	sort.Strings(out)
	return out, nil
}

func init() {
	checks["C18"] = checkC18
	core.BatchModes["c18"] = func(it *core.BatchItem) map[string]string {
		if d := it.Data["chdir"]; d != "" {
			os.MkdirAll(d, 0o755)
			os.Chdir(d)
		}
		rep := c18Analyze(it.Data["pkg"], it.Data["gopath"], it.Data["main"] != "")
		b, _ := json.Marshal(rep)
		return map[string]string{"report": string(b)}
	}
}

func checkC18(r *core.Run) {
	r.Rule = "cell = (input package, aspect) or (input package, aspect, object) for failures. The real extract.Extractor runs on each package (child processes). Aspects: extract (no error), compile (the generated file type-checks as Go source against the package, together with the Symbols declaration and, for os and log, stdlib/restricted.go), complete (every exported non-generic object usable as value or type is bound, nothing else is), binding (each entry denotes the object of its own name: functions and typed constants by value, variables by address, types as (*T)(nil), table key importpath/name), exact (untyped constants carry exactly their value), wrapper (one wrapper per exported method-set interface: W field and forwarding method per exported method with the identical signature, arguments forwarded in order, variadic spread, no unexported method, implements the interface). Inputs: every importable standard-library package of the installed toolchain, and generated packages (c18gen) that are also built by gc and exercised at run time by a reflect-only driver. non-trivial = the package exports at least one object"
	r.Assume = []string{"go/types (source importer) of the installed toolchain is the reference view of a package and the compile oracle", "generic objects and constraint interfaces cannot be bound and are expected to be absent"}
	std, err := c18StdPackages()
	if err != nil || len(std) < 100 {
		r.Inconclusive("C18/std", fmt.Sprintf("go list std failed: %v (%d packages)", err, len(std)))
		r.Finish()
		return
	}
	var items []core.BatchItem
	wd := filepath.Join(r.Work, "c18-empty")
	for i, p := range std {
		if !r.Thorough() && os.Getenv("VERIF_C18_ALL") == "" && (uint64(i)+r.Seed)%6 != 0 && p != "io" && p != "math" && p != "os" && p != "log" {
			continue
		}
		items = append(items, core.BatchItem{ID: "C18/std/" + p, Data: map[string]string{"pkg": p, "chdir": wd}})
	}
	pool := newPool(r)
	res := pool.RunBatch("c18", items, 6, 600000)
	c18Report2(r, res)
	c18Generated(r, pool)
	r.Extra["std_packages"] = len(items)
}

func c18Report2(r *core.Run, res []core.BatchResult) {
	aspects := []string{"extract", "compile", "complete", "binding", "exact", "wrapper"}
	tot := map[string]int{}
	for _, br := range res {
		if br.Crash != "" {
			r.Fail(br.ID+"/child", map[string]any{"diff": "the extracting process died: " + firstLines2(br.Crash, 5)})
			continue
		}
		var rep c18Report
		json.Unmarshal([]byte(br.Data["report"]), &rep)
		bad := map[string]bool{}
		for _, f := range rep.Fails {
			a := f.Aspect
			if a == "missing" || a == "surplus" {
				a = "complete"
			}
			bad[a] = true
			cell := br.ID + "/" + a
			if f.Name != "" {
				cell += "/" + f.Name
			}
			w := map[string]any{"diff": f.Msg, "package": br.ID}
			if br.Data["pkgsrc"] != "" {
				w["package_source"] = br.Data["pkgsrc"]
				// a failure is attributed to a rare generator shape only when its message is the one that shape causes
				has := func(t string) bool { return strings.Contains(","+br.Data["tags"]+",", ","+t+",") }
				switch {
				case a == "compile" && strings.Contains(f.Msg, "name unexp not exported") && has("method-with-unexported-type"):
					w["tags"] = "known:method-with-unexported-type"
				case a == "exact" && strings.Contains(f.Msg, "i)") && has("inexact-untyped-complex"):
					w["tags"] = "known:inexact-untyped-complex"
				}
			}
			if len(rep.Src) < 20000 {
				w["generated"] = rep.Src
			}
			r.Fail(cell, w)
		}
		for _, a := range aspects {
			if !bad[a] && !(bad["extract"] || bad["compile"]) {
				r.Ok(br.ID + "/" + a)
			}
		}
		tot["values"] += rep.NVal
		tot["types"] += rep.NTyp
		tot["constants"] += rep.NConst
		tot["wrappers"] += rep.NWrap
		tot["wrapper_methods"] += rep.NM
		if rep.NWrap > 3 {
			r.Sample(map[string]any{"package": br.ID, "values": rep.NVal, "types": rep.NTyp, "constants": rep.NConst, "wrappers": rep.NWrap, "methods": rep.NM})
		}
	}
	for k, v := range tot {
		if old, ok := r.Extra["checked_"+k].(int); ok {
			v += old
		}
		r.Extra["checked_"+k] = v
	}
}
