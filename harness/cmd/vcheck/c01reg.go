package main

import (
	"strings"

	"verifharness/core"
)

// c01RegressionProgram: hand-written cells for defects of the C01 family that were repaired by fix: commits
// (and a few neighbouring shapes); they are part of every run so that a regression is noticed by the quick tier.
func c01RegressionProgram() *core.CellProgram {
	p := &core.CellProgram{Name: "C01-regression", Imports: []string{"sync"}}
	p.Shared = `
type RT struct{ x, y int }

func (t RT) Sum(k int) int { return t.x + t.y + k }

func recvOne(ch <-chan int) int { return <-ch }

func recvTwo(ch chan int) (int, bool) { v, ok := <-ch; return v, ok }

func named(k int) (r int, s string) {
	if k > 0 {
		r, s = k, "pos"
		return
	}
	return -1, "neg"
}

var _ sync.Mutex
`
	cell := func(id, body string) {
		fn := "r_" + strings.ReplaceAll(id, "-", "_")
		p.Cells = append(p.Cells, core.Cell{ID: "C01/regression/" + id, Fn: fn, Decls: "func " + fn + "() {\n" + body + "}\n", Tags: []string{"regression"}})
	}
	cell("return-receive", "\tc := make(chan int, 3)\n\tc <- 5\n\tc <- 6\n\tobs(\"r\", recvOne(c))\n\tv, ok := recvTwo(c)\n\tobs(\"r2\", v, ok)\n")
	cell("receive-into-captured", "\tc := make(chan int, 2)\n\tc <- 1\n\tc <- 2\n\tx := 0\n\tfunc() { x = <-c }()\n\ty := <-c\n\tobs(\"x\", x, y)\n")
	cell("empty-loop-bodies", "\tn := 0\n\tfor i := 0; i < 3; i++ {\n\t}\n\tfor range []int{1, 2} {\n\t}\n\tfor n < 2 {\n\t\tn++\n\t}\n\tobs(\"after\", n)\n")
	cell("label-in-case-clause", "\ts := 0\n\tswitch k := 2; k {\n\tcase 2:\n\tL:\n\t\tfor i := 0; i < 4; i++ {\n\t\t\tfor j := 0; j < 4; j++ {\n\t\t\t\tif j == 2 {\n\t\t\t\t\tcontinue L\n\t\t\t\t}\n\t\t\t\ts += i*10 + j\n\t\t\t}\n\t\t}\n\t}\n\tobs(\"s\", s)\n")
	cell("composite-assign-in-place", "\tt := RT{1, 2}\n\tp := &t\n\tf := func() int { return t.x }\n\tt = RT{7, 8}\n\tobs(\"p\", p.x, f())\n\ta := [2]int{1, 2}\n\tq := &a\n\ta = [2]int{3, 4}\n\tobs(\"q\", q[0])\n")
	cell("method-value-binds-receiver", "\tt := RT{1, 2}\n\tm := t.Sum\n\tt.x = 100\n\tobs(\"m\", m(1), t.Sum(1))\n")
	cell("defer-arguments", "\tx := 1\n\tdefer obs(\"deferred\", x)\n\tdefer func(v int) { obs(\"lit\", v, x) }(x)\n\tx = 50\n")
	cell("named-results", "\tr, s := named(3)\n\tobs(\"a\", r, s)\n\tr, s = named(0)\n\tobs(\"b\", r, s)\n")
	cell("switch-case-kinds", "\ti, f, s := 3, 2.5, \"k\"\n\tout := \"\"\n\tswitch i {\n\tcase 1, 2:\n\t\tout += \"a\"\n\tcase 3:\n\t\tout += \"b\"\n\t}\n\tswitch f {\n\tcase 2.5, 1:\n\t\tout += \"c\"\n\t}\n\tswitch s {\n\tcase \"k\":\n\t\tout += \"d\"\n\t}\n\tswitch r := 'a'; r {\n\tcase 98:\n\t\tout += \"x\"\n\tcase 'a':\n\t\tout += \"e\"\n\t}\n\tobs(\"out\", out)\n")
	cell("logical-operators", "\ttype B bool\n\tvar b B = true\n\tx, y := true, false\n\tconst K = true\n\tobs(\"l\", b && B(x), x || y, K && x, (x && y) || (K || x), b || !b)\n")
	cell("single-value-calls", "\tone := func() int { return 3 }\n\tx := one()\n\tvar y = one()\n\ty = one() + x\n\tobs(\"v\", x, y, len(\"abc\"), append([]int{}, 1))\n")
	cell("func-literal-called-in-place", "\tn := 0\n\tfunc() { n += 2 }()\n\tv := func(k int) int { return k * n }(4)\n\tobs(\"n\", n, v)\n")
	cell("goroutines-in-a-loop", "\tvar wg sync.WaitGroup\n\tvar mu sync.Mutex\n\tsum := 0\n\tfor i := 0; i < 20; i++ {\n\t\twg.Add(1)\n\t\tgo func(k int) {\n\t\t\tdefer wg.Done()\n\t\t\tmu.Lock()\n\t\t\tsum += k\n\t\t\tmu.Unlock()\n\t\t}(i)\n\t}\n\twg.Wait()\n\tobs(\"sum\", sum)\n")
	cell("go-function-variable", "\tc := make(chan int, 2)\n\tf := func(v int) { c <- v }\n\tgo f(1)\n\tx := <-c\n\tf = func(v int) { c <- -v }\n\tgo f(2)\n\tobs(\"x\", x, <-c)\n")
	cell("range-kinds", "\ts := 0\n\tfor i := range 3 {\n\t\ts += i\n\t}\n\tfor _, r := range \"ab\" {\n\t\ts += int(r)\n\t}\n\tfor k, v := range map[int]int{1: 2} {\n\t\ts += k * v\n\t}\n\tfor i, v := range &[2]int{5, 6} {\n\t\ts += i * v\n\t}\n\tobs(\"s\", s)\n")
	cell("range-string-positions", "\ts := \"h\u00e9llo, \u4e16\u754c\"\n\tt := s[2:9]\n\tfor i, r := range t {\n\t\tobs(\"ir\", i, r)\n\t}\n\tfor i := range \"h\u00e9llo\" {\n\t\tobs(\"i\", i)\n\t}\n\tu := \"xyz\"\n\tfor i, r := range u {\n\t\tu = \"changed\"\n\t\tobs(\"u\", i, r)\n\t}\n\tobs(\"end\", u)\n")
	cell("folded-constant-conditions", "\tconst dbg = false\n\tm := map[string]bool{\"a\": true}\n\tfor _, k := range []string{\"a\", \"b\"} {\n\t\tif !true || m[k] {\n\t\t\tobs(\"or1\", k)\n\t\t}\n\t\tif m[k] && !dbg {\n\t\t\tobs(\"and2\", k)\n\t\t}\n\t\tswitch {\n\t\tcase !true:\n\t\t\tobs(\"never\")\n\t\tcase dbg:\n\t\t\tobs(\"dbg\")\n\t\tcase !dbg && m[k]:\n\t\t\tobs(\"sw\", k)\n\t\tdefault:\n\t\t\tobs(\"default\", k)\n\t\t}\n\t\tx := !true || m[k]\n\t\tobs(\"x\", x, !(1 > 2) && m[k])\n\t}\n")
	cell("tuple-assignments", "\tf := func() int { return 10 }\n\ta, b := 1, 2\n\tb, a = a, f()\n\tobs(\"ab\", a, b)\n\ta, b = f(), a\n\tobs(\"ab2\", a, b)\n\tt := RT{1, 2}\n\tp := &t\n\tt.x, p = 5, nil\n\tobs(\"t\", t.x, p == nil)\n\tarr := [3]int{1, 2, 3}\n\tarr[0], arr[1] = arr[1], arr[0]\n\tobs(\"arr\", arr)\n")
	cell("paren-operand-in-logical", "\tr, i, q := true, 1, 4\n\tr = ((i) == q) && r\n\tobs(\"r\", r)\n\tr = ((i) < q) || r\n\tb := false\n\tr2 := (b) || r\n\tobs(\"r2\", r, r2, ((b) == false) && r)\n")
	cell("bool-received-in-condition", "\tmessages := make(chan bool)\n\tgo func() {\n\t\tn := 0\n\t\tfor i := 0; i < 2000; i++ {\n\t\t\tn += i % 3\n\t\t}\n\t\tmessages <- n > 0\n\t}()\n\tobs(\"and\", <-messages && true)\n\tgo func() { messages <- true }()\n\tif <-messages {\n\t\tobs(\"if\")\n\t}\n")
	cell("send-directions", "\tc := make(chan int, 1)\n\tvar so chan<- int = c\n\tvar ro <-chan int = c\n\tso <- 4\n\tobs(\"v\", <-ro)\n\tselect {\n\tcase so <- 9:\n\t\tobs(\"sent\", len(c))\n\tdefault:\n\t\tobs(\"full\")\n\t}\n")
	// the range expression is evaluated (and an array copied) once, whatever expression it is
	cell("range-array-snapshot", "\ttype holder struct{ arr [4]int }\n\th := holder{[4]int{1, 2, 3, 4}}\n\tfor i, v := range h.arr {\n\t\tif i < 3 {\n\t\t\th.arr[i+1] = v * 10\n\t\t}\n\t\tobs(\"field\", i, v)\n\t}\n\tobs(\"h\", h.arr)\n\tph := &holder{[4]int{1, 2, 3, 4}}\n\tfor i, v := range ph.arr {\n\t\tph.arr[3-i] += v\n\t\tobs(\"pfield\", i, v)\n\t}\n\tgrid := [2][3]int{{1, 2, 3}, {4, 5, 6}}\n\tfor i, v := range grid[1] {\n\t\tgrid[1][2] += v\n\t\tobs(\"elem\", i, v)\n\t}\n\tobs(\"grid\", grid)\n\tpa := &[3]int{7, 8, 9}\n\tfor i, v := range *pa {\n\t\tpa[2] = 0\n\t\tobs(\"deref\", i, v)\n\t}\n\tfor i, v := range pa {\n\t\tpa[2] = 5\n\t\tobs(\"ptr\", i, v)\n\t}\n\tsl := []int{1, 2, 3}\n\ths := struct{ s []int }{sl}\n\tfor i, v := range hs.s {\n\t\ths.s = hs.s[:1]\n\t\tsl[2] = 30\n\t\tobs(\"slice\", i, v)\n\t}\n")
	return p
}
