package main

import (
	"encoding/json"
	"fmt"
	"os"
	"os/exec"
	"path/filepath"
	"sort"
	"strings"
	"sync"

	"verifharness/core"
)

// Generated input packages for C18 and the run-time driver.
// Package p<idx> lives in a scratch GOPATH (src/gen/p<idx>); gen/dep is a fixed helper package whose types and
// interfaces are used in signatures and embeddings (qualification and imports of the generated file).

const c18Universe = 3000

const c18Dep = `package dep

import (
	"net/url"
	"time"
)

type T struct{ A int }

// W mentions packages which a package embedding or aliasing it does not import itself.
type W interface {
	When() time.Time
	Where(u *url.URL) error
}

type I interface {
	DepM(x int) string
}

type E interface {
	Err(code int) error
}
`

type c18Gen struct {
	rg    *core.Rng
	decls []string
	n     int
	tags  []string
}

func (g *c18Gen) name(prefix string) string {
	g.n++
	return fmt.Sprintf("%s%d", prefix, g.n)
}

func (g *c18Gen) add(format string, a ...any) {
	g.decls = append(g.decls, fmt.Sprintf(format, a...))
}

var c18Basic = []string{"bool", "int", "int8", "int16", "int32", "int64", "uint", "uint8", "uint16", "uint32", "uint64", "uintptr", "float32", "float64", "complex64", "complex128", "string", "byte", "rune"}

func (g *c18Gen) typ(depth int) string {
	r := g.rg
	if depth <= 0 {
		return core.Pick(r, c18Basic)
	}
	switch r.Intn(14) {
	case 0:
		return "*" + g.typ(depth-1)
	case 1:
		return "[]" + g.typ(depth-1)
	case 2:
		return fmt.Sprintf("[%d]%s", 1+r.Intn(3), g.typ(depth-1))
	case 3:
		return fmt.Sprintf("map[%s]%s", core.Pick(r, []string{"string", "int", "S0"}), g.typ(depth-1))
	case 4:
		return "S0"
	case 5:
		return "dep.T"
	case 6:
		return "error"
	case 7:
		return "io.Reader"
	case 8:
		return fmt.Sprintf("func(%s) %s", g.typ(depth-1), g.typ(depth-1))
	case 9:
		return "interface{}"
	case 10:
		return "chan " + g.typ(0)
	case 11:
		return "time.Duration"
	}
	return core.Pick(r, c18Basic)
}

func (g *c18Gen) rare(tag string, den int) bool {
	if g.rg.Chance(1, den) {
		g.tags = append(g.tags, tag)
		return true
	}
	return false
}

func (g *c18Gen) params(variadic bool, named int) string {
	r := g.rg
	n := r.Intn(4)
	if variadic && n == 0 {
		n = 1
	}
	var ps []string
	for i := 0; i < n; i++ {
		t := g.typ(2)
		if variadic && i == n-1 {
			t = "..." + g.typ(1)
		}
		switch named {
		case 0:
			ps = append(ps, t)
		case 1:
			ps = append(ps, fmt.Sprintf("p%d %s", i, t))
		case 2:
			ps = append(ps, "_ "+t)
		case 3:
			ps = append(ps, []string{"W", "a0", "reflect", "IValue"}[i%4]+" "+t)
		}
	}
	return strings.Join(ps, ", ")
}

func (g *c18Gen) results() string {
	r := g.rg
	switch r.Intn(5) {
	case 0:
		return ""
	case 1:
		return " " + g.typ(1)
	case 2:
		return " (" + g.typ(1) + ", error)"
	case 3:
		return fmt.Sprintf(" (r0 %s, err error)", g.typ(1))
	}
	return fmt.Sprintf(" (%s, %s, %s)", g.typ(1), g.typ(0), g.typ(1))
}

func (g *c18Gen) method(name string) string {
	r := g.rg
	variadic := r.Chance(1, 4)
	named := r.Intn(2)
	if g.rare("blank-parameter-names", 25) {
		named = 2
	} else if g.rare("parameter-named-like-wrapper-identifiers", 25) {
		named = 3
	}
	return fmt.Sprintf("%s(%s)%s", name, g.params(variadic, named), g.results())
}

func c18GenPackage(idx uint64) (name string, src string, tags []string) {
	rg := core.NewRng(idx).Sub("C18")
	g := &c18Gen{rg: rg}
	name = fmt.Sprintf("p%d", idx)
	g.add("type S0 struct {\n\tA int\n\tB string\n}")
	g.add("type unexp struct{ x int }")
	nd := 6 + rg.Intn(10)
	var varNames []string
	for k := 0; k < nd; k++ {
		switch rg.Intn(12) {
		case 0: // typed constants
			t := core.Pick(rg, []string{"int8", "uint64", "float32", "float64", "complex64", "string", "bool", "rune", "uintptr", "Color"})
			v := map[string]string{"int8": "-128", "uint64": "1<<64 - 1", "float32": "1.0 / 3", "float64": "1e308", "complex64": "1 + 2i", "string": `"typed\x00\xff"`, "bool": "true", "rune": `'\u1234'`, "uintptr": "0xffff", "Color": "3"}[t]
			if t == "Color" && !strings.Contains(strings.Join(g.decls, "\n"), "type Color ") {
				g.add("type Color int")
			}
			g.add("const %s %s = %s", g.name("TC"), t, v)
		case 1: // untyped constants of every kind and magnitude
			v := core.Pick(rg, []string{"1 << 200", "-1 << 100", "0", "1<<63 - 1", "1 << 63", "'x'", `'\U0010FFFF'`, "1e-300", "1.0 / 3", "0x1p-1074", "1e1000", "2.5", "-0.0", "1e400 / 3", `""`, `"a\"b\\c\n"`, "`raw\\n`", `"\xff\xfe"`, "true", "false", "1 + 2i", "0i", "2.5i",
				fmt.Sprintf("%q", strings.Repeat("long string constant ", 3+rg.Intn(4))), "'a' + 1", "10 / 4", "10 / 4.0", "1 << 10 >> 3", "len(\"abc\")"})
			if g.rare("inexact-untyped-complex", 30) {
				v = "1e100i"
			}
			g.add("const %s = %s", g.name("UC"), v)
		case 2: // iota block with named type and untyped
			n := g.name("K")
			g.add("const (\n\t%sA = iota * 10\n\t%sB\n\t%sC\n)", n, n, n)
		case 3, 4: // variables
			n := g.name("V")
			t := g.typ(2)
			if rg.Chance(1, 8) {
				t = "unexp"
			}
			g.add("var %s %s", n, t)
			varNames = append(varNames, n)
		case 5: // functions
			variadic := rg.Chance(1, 3)
			res := g.results()
			body := ""
			if res != "" {
				body = " panic(\"unreachable\") "
			}
			g.add("func %s(%s)%s {%s}", g.name("F"), g.params(variadic, rg.Intn(2)), res, body)
		case 6: // generic function and type: must be skipped
			g.add("func %s[T any](x T) T { return x }", g.name("GF"))
			n := g.name("GT")
			g.add("type %s[T any] struct{ X T }", n)
			if rg.Bool() {
				g.add("type %s = %s[int]", g.name("AI"), n) // an alias of an instance is an ordinary type
			}
		case 7: // struct / named / func types, aliases
			switch rg.Intn(5) {
			case 0:
				g.add("type %s struct {\n\tX %s\n\ty %s\n}", g.name("ST"), g.typ(2), g.typ(1))
			case 1:
				g.add("type %s %s", g.name("N"), g.typ(2))
			case 2:
				g.add("type %s func(%s)%s", g.name("FT"), g.params(rg.Chance(1, 3), 1), g.results())
			case 3:
				g.add("type %s = %s", g.name("A"), core.Pick(rg, []string{"S0", "dep.T", "int", "io.Reader", "any", "[]S0"}))
			case 4:
				n := g.name("M")
				g.add("type %s int\n\nfunc (m %s) Get() int { return int(m) }\n\nfunc (m *%s) Set(v int) { *m = %s(v) }", n, n, n, n)
			}
		default: // interfaces
			n := g.name("I")
			var body []string
			nm := rg.Intn(4)
			for i := 0; i < nm; i++ {
				body = append(body, "\t"+g.method(fmt.Sprintf("M%d", i)))
			}
			if rg.Chance(1, 4) {
				body = append(body, "\tString() string")
			}
			for _, e := range []string{"io.Reader", "fmt.Stringer", "dep.I", "dep.E", "error", "io.Closer", "Base"} {
				if rg.Chance(1, 7) && !(e == "fmt.Stringer" && strings.Contains(strings.Join(body, "\n"), "String()")) {
					body = append(body, "\t"+e)
				}
			}
			// (drawn from a hash, not from the generator's stream: the rest of the universe is unchanged)
			if core.Hash64("embed-dep-W/"+name+"/"+n)%4 == 0 {
				body = append(body, "\tdep.W")
				g.tags = append(g.tags, "embeds-interface-of-third-package")
			}
			if g.rare("unexported-method", 8) {
				body = append(body, "\thidden(x int) unexp")
			}
			if g.rare("method-with-unexported-type", 30) {
				body = append(body, "\tLeak(x unexp)")
			}
			if g.rare("constraint-with-methods", 40) {
				body = append(body, "\t~int | ~string")
			}
			g.add("type %s interface {\n%s\n}", n, strings.Join(body, "\n"))
		}
	}
	if rg.Chance(1, 5) {
		g.add("type %s interface {\n\t~int | ~float64\n}", g.name("Cons"))
	}
	if rg.Chance(1, 5) {
		g.add("type %s interface{ comparable }", g.name("Cmp"))
	}
	g.add("type Base interface {\n\tBaseM(a int, b ...string) (int, error)\n}")
	if core.Hash64("alias-dep-W/"+name)%3 == 0 {
		g.add("type AliasW = dep.W")
		g.tags = append(g.tags, "alias-of-interface-of-third-package")
	}
	// address oracle for the run-time driver
	var cases []string
	for _, v := range varNames {
		cases = append(cases, fmt.Sprintf("\tcase %q:\n\t\treturn unsafe.Pointer(&%s)", v, v))
	}
	g.add("func AddrOf(name string) unsafe.Pointer {\n\tswitch name {\n%s\n\t}\n\treturn nil\n}", strings.Join(cases, "\n"))
	core.Shuffle(rg, g.decls)
	body := strings.Join(g.decls, "\n\n") + "\n"
	var imports []string
	for _, im := range []struct{ use, path string }{{"dep.", "gen/dep"}, {"io.", "io"}, {"fmt.", "fmt"}, {"time.", "time"}, {"unsafe.", "unsafe"}} {
		if strings.Contains(body, im.use) {
			imports = append(imports, fmt.Sprintf("%q", im.path))
		}
	}
	src = fmt.Sprintf("package %s\n\nimport (\n\t%s\n)\n\n%s", name, strings.Join(imports, "\n\t"), body)
	sort.Strings(g.tags)
	return name, src, g.tags
}

// The driver is compiled (GOPATH mode) with the generated wrapper (Dest main). It uses reflection only.
const c18Driver = `package main

import (
	"errors"
	"fmt"
	"go/constant"
	"reflect"
	"runtime"
	"sort"
	"strings"
	"unsafe"
)

var Symbols = map[string]map[string]reflect.Value{}

var counter = 1000

func sample(t reflect.Type, depth int) reflect.Value {
	counter++
	v := reflect.New(t).Elem()
	switch t.Kind() {
	case reflect.Bool:
		v.SetBool(counter%2 == 0)
	case reflect.Int, reflect.Int8, reflect.Int16, reflect.Int32, reflect.Int64:
		v.SetInt(int64(counter % 100))
	case reflect.Uint, reflect.Uint8, reflect.Uint16, reflect.Uint32, reflect.Uint64, reflect.Uintptr:
		v.SetUint(uint64(counter % 100))
	case reflect.Float32, reflect.Float64:
		v.SetFloat(float64(counter) / 4)
	case reflect.Complex64, reflect.Complex128:
		v.SetComplex(complex(float64(counter), 1))
	case reflect.String:
		v.SetString(fmt.Sprint("s", counter))
	case reflect.Slice:
		if depth > 0 {
			v.Set(reflect.Append(v, sample(t.Elem(), depth-1), sample(t.Elem(), depth-1)))
		}
	case reflect.Array:
		for i := 0; i < t.Len() && depth > 0; i++ {
			v.Index(i).Set(sample(t.Elem(), depth-1))
		}
	case reflect.Map:
		if depth > 0 {
			v.Set(reflect.MakeMap(t))
			v.SetMapIndex(sample(t.Key(), depth-1), sample(t.Elem(), depth-1))
		}
	case reflect.Ptr:
		if depth > 0 {
			p := reflect.New(t.Elem())
			p.Elem().Set(sample(t.Elem(), depth-1))
			v.Set(p)
		}
	case reflect.Struct:
		for i := 0; i < t.NumField() && depth > 0; i++ {
			if t.Field(i).PkgPath == "" {
				v.Field(i).Set(sample(t.Field(i).Type, depth-1))
			}
		}
	case reflect.Interface:
		if t.NumMethod() == 0 {
			v.Set(reflect.ValueOf(counter))
		} else if t == reflect.TypeOf((*error)(nil)).Elem() {
			v.Set(reflect.ValueOf(errors.New(fmt.Sprint("e", counter))))
		}
	case reflect.Chan:
		if t.ChanDir() == reflect.BothDir {
			v.Set(reflect.MakeChan(t, 1))
		}
	}
	return v
}

func same(a, b reflect.Value) bool {
	if a.Type() != b.Type() {
		return false
	}
	switch a.Kind() {
	case reflect.Func:
		return a.IsNil() == b.IsNil()
	case reflect.Chan, reflect.UnsafePointer:
		return a.Pointer() == b.Pointer()
	}
	return reflect.DeepEqual(a.Interface(), b.Interface())
}

func wrapper(pkgName, name string, wv reflect.Value, tab map[string]reflect.Value) {
	T := wv.Type().Elem()
	if T.Kind() != reflect.Struct {
		fmt.Printf("WRAP %s bad not-a-struct\n", name)
		return
	}
	if it, ok := tab[name[1:]]; ok && it.Type().Elem().Kind() == reflect.Interface {
		fmt.Printf("WRAP %s implements %v\n", name, T.Implements(it.Type().Elem()))
	}
	w := reflect.New(T).Elem()
	for i := 0; i < T.NumMethod(); i++ {
		m := T.Method(i)
		f := w.FieldByName("W" + m.Name)
		if !f.IsValid() {
			fmt.Printf("WRAP %s.%s bad no-field\n", name, m.Name)
			continue
		}
		ft := f.Type()
		var got []reflect.Value
		var rets []reflect.Value
		for k := 0; k < ft.NumOut(); k++ {
			rets = append(rets, sample(ft.Out(k), 2))
		}
		f.Set(reflect.MakeFunc(ft, func(args []reflect.Value) []reflect.Value {
			got = args
			return rets
		}))
		mt := w.Method(i).Type()
		var args []reflect.Value
		for k := 0; k < mt.NumIn(); k++ {
			if mt.IsVariadic() && k == mt.NumIn()-1 {
				args = append(args, sample(mt.In(k).Elem(), 2), sample(mt.In(k).Elem(), 2))
			} else {
				args = append(args, sample(mt.In(k), 2))
			}
		}
		var out []reflect.Value
		func() {
			defer func() {
				if r := recover(); r != nil {
					fmt.Printf("WRAP %s.%s bad panic %v\n", name, m.Name, r)
				}
			}()
			out = w.Method(i).Call(args)
		}()
		ok := len(out) == len(rets)
		for k := range out {
			ok = ok && same(out[k], rets[k])
		}
		// what the recorder received: fixed parameters one by one, the variadic ones as one slice
		nfix := mt.NumIn()
		if mt.IsVariadic() {
			nfix--
		}
		ok = ok && len(got) == mt.NumIn()
		for k := 0; ok && k < nfix; k++ {
			ok = same(got[k], args[k])
		}
		if ok && mt.IsVariadic() {
			s := got[nfix]
			ok = s.Len() == 2 && same(s.Index(0), args[nfix]) && same(s.Index(1), args[nfix+1])
		}
		if m.Name == "String" && mt.NumIn() == 0 {
			// documented special case: a nil WString yields ""
			z := reflect.New(T).Elem()
			r := z.Method(i).Call(nil)
			ok = ok && len(r) == 1 && r[0].Kind() == reflect.String && r[0].String() == ""
		}
		fmt.Printf("WRAP %s.%s %v in=%d out=%d variadic=%v\n", name, m.Name, map[bool]string{true: "ok", false: "bad forwarding"}[ok], mt.NumIn(), mt.NumOut(), mt.IsVariadic())
	}
}

func main() {
	for key, tab := range Symbols {
		pkgName := key[strings.LastIndex(key, "/")+1:]
		fmt.Printf("TABLE %s\n", key)
		var names []string
		for n := range tab {
			names = append(names, n)
		}
		sort.Strings(names)
		var addrOf func(string) unsafe.Pointer
		if f, ok := tab["AddrOf"]; ok {
			addrOf, _ = f.Interface().(func(string) unsafe.Pointer)
		}
		for _, n := range names {
			v := tab[n]
			switch {
			case strings.HasPrefix(n, "_"):
				wrapper(pkgName, n, v, tab)
			case v.Kind() == reflect.Ptr && v.IsNil() && !v.CanAddr():
				fmt.Printf("TYPE %s %s\n", n, v.Type().Elem().String())
			case v.CanAddr():
				ok := addrOf != nil && addrOf(n) == unsafe.Pointer(v.Addr().Pointer())
				fmt.Printf("VAR %s %s addr=%v\n", n, v.Type().String(), ok)
			case v.Kind() == reflect.Func:
				fmt.Printf("FUNC %s %s %s\n", n, runtime.FuncForPC(v.Pointer()).Name(), v.Type().String())
			default:
				if c, ok := v.Interface().(constant.Value); ok {
					fmt.Printf("UCONST %s %d %s\n", n, c.Kind(), c.ExactString())
				} else {
					fmt.Printf("CONST %s %s %q\n", n, v.Type().String(), fmt.Sprint(v.Interface()))
				}
			}
		}
	}
}
`

type c18Ref struct {
	Kind  string `json:"kind"` // func var type tconst uconst
	Type  string `json:"type"`
	Exact string `json:"exact"`
	CK    int    `json:"ck"`
	Impl  bool   `json:"impl"` // interface without unexported methods: the wrapper must implement it
}

func c18Generated(r *core.Run, pool *core.Pool) {
	n := 60
	if r.Thorough() {
		n = 1200
	}
	if os.Getenv("VERIF_C18_ALL") != "" {
		n = c18Universe
	}
	gp := filepath.Join(r.Work, "c18gp")
	os.RemoveAll(gp)
	defer os.RemoveAll(gp)
	os.MkdirAll(filepath.Join(gp, "src", "gen", "dep"), 0o755)
	os.WriteFile(filepath.Join(gp, "src", "gen", "dep", "dep.go"), []byte(c18Dep), 0o644)
	start := (r.Seed * 2741) % c18Universe
	var items []core.BatchItem
	tagsOf := map[string][]string{}
	srcOf := map[string]string{}
	for k := 0; k < n; k++ {
		idx := (start + uint64(k)) % c18Universe
		name, src, tags := c18GenPackage(idx)
		dir := filepath.Join(gp, "src", "gen", name)
		os.MkdirAll(dir, 0o755)
		os.WriteFile(filepath.Join(dir, name+".go"), []byte(src), 0o644)
		id := "C18/gen/" + name
		tagsOf[id], srcOf[id] = tags, src
		items = append(items, core.BatchItem{ID: id, Data: map[string]string{"pkg": "gen/" + name, "gopath": gp, "chdir": filepath.Join(r.Work, "c18-empty"), "main": "1"}})
	}
	res := pool.RunBatch("c18", items, 8, 600000)
	for i := range res {
		// failures of generated packages carry the package source and the generator's rare-shape tags
		if res[i].Data != nil {
			res[i].Data["pkgsrc"] = srcOf[res[i].ID]
			res[i].Data["tags"] = strings.Join(tagsOf[res[i].ID], ",")
		}
	}
	c18Report2(r, res)
	// run-time part: build and run the driver with the wrapper generated for package main
	var wg sync.WaitGroup
	sem := make(chan struct{}, 14)
	type drv struct {
		id, out, err string
		rep          c18Report
	}
	outs := make([]*drv, len(res))
	for i, br := range res {
		if br.Crash != "" {
			continue
		}
		d := &drv{id: br.ID}
		json.Unmarshal([]byte(br.Data["report"]), &d.rep)
		if d.rep.MainSrc == "" {
			continue
		}
		outs[i] = d
		wg.Add(1)
		go func(d *drv) {
			defer wg.Done()
			sem <- struct{}{}
			defer func() { <-sem }()
			name := strings.TrimPrefix(d.id, "C18/gen/")
			dir := filepath.Join(gp, "src", "gen", name, "drv")
			os.MkdirAll(dir, 0o755)
			os.WriteFile(filepath.Join(dir, "wrap.go"), []byte(d.rep.MainSrc), 0o644)
			os.WriteFile(filepath.Join(dir, "main.go"), []byte(c18Driver), 0o644)
			bin := filepath.Join(dir, "drv.bin")
			cmd := exec.Command("go", "build", "-o", bin, "gen/"+name+"/drv")
			cmd.Env = append(os.Environ(), "GOPATH="+gp, "GO111MODULE=off", "GOFLAGS=")
			if b, err := cmd.CombinedOutput(); err != nil {
				d.err = "gc build failed: " + firstLines2(string(b), 6)
				return
			}
			b, err := exec.Command(bin).CombinedOutput()
			d.out = string(b)
			if err != nil {
				d.err = "driver failed: " + err.Error() + " " + firstLines2(d.out, 4)
			}
			os.Remove(bin)
		}(d)
	}
	wg.Wait()
	ran := 0
	for _, d := range outs {
		if d == nil {
			continue
		}
		ran++
		c18Runtime(r, d.id, d.out, d.err, &d.rep, srcOf[d.id], tagsOf[d.id])
	}
	r.Extra["generated_packages"] = n
	r.Extra["drivers_built_and_run"] = ran
}

// c18Runtime compares the driver's observations with the go/types view of the package.
func c18Runtime(r *core.Run, id, out, errText string, rep *c18Report, src string, tags []string) {
	fail := func(cell, msg string) {
		r.Fail(cell, map[string]any{"diff": msg, "package_source": src, "tags": c18Tags(tags), "driver_output": firstLines2(out, 60)})
	}
	if errText != "" {
		fail(id+"/run", errText)
		return
	}
	seen := map[string]bool{}
	bad := 0
	name := strings.TrimPrefix(id, "C18/gen/")
	for _, l := range strings.Split(out, "\n") {
		f := strings.SplitN(l, " ", 4)
		if len(f) < 3 {
			continue
		}
		ref, known := rep.Ref[f[1]]
		switch f[0] {
		case "FUNC":
			seen[f[1]] = true
			if !known || ref.Kind != "func" || !strings.HasSuffix(f[2], "/"+name+"."+f[1]) {
				fail(id+"/run/"+f[1], "function entry denotes "+f[2])
				bad++
			}
		case "VAR":
			seen[f[1]] = true
			if !known || ref.Kind != "var" || !strings.HasSuffix(l, "addr=true") {
				fail(id+"/run/"+f[1], "variable entry is not the address of the variable: "+l)
				bad++
			}
		case "TYPE":
			seen[f[1]] = true
			if !known || ref.Kind != "type" {
				fail(id+"/run/"+f[1], "type entry for something that is not a type: "+l)
				bad++
			}
		case "UCONST":
			seen[f[1]] = true
			if !known || ref.Kind != "uconst" || len(f) < 4 || f[3] != ref.Exact || f[2] != fmt.Sprint(ref.CK) {
				fail(id+"/run/"+f[1], fmt.Sprintf("untyped constant observed as kind %s value %s, declared kind %d value %s", f[2], clip18(strings.Join(f[3:], " ")), ref.CK, clip18(ref.Exact)))
				bad++
			}
		case "CONST":
			seen[f[1]] = true
			if !known || (ref.Kind != "tconst" && ref.Kind != "uconst") {
				fail(id+"/run/"+f[1], "constant entry for something else: "+l)
				bad++
			}
		case "WRAP":
			if strings.Contains(l, " bad") || (strings.HasSuffix(l, "implements false") && rep.Ref[strings.TrimPrefix(f[1], "_")].Impl) {
				fail(id+"/run/"+f[1], "wrapper misbehaves at run time: "+l)
				bad++
			}
		}
	}
	for n, ref := range rep.Ref {
		if !seen[n] {
			fail(id+"/run/"+n, "exported "+ref.Kind+" not found in the table at run time")
			bad++
		}
	}
	if bad == 0 {
		r.Ok(id + "/run")
	}
}

func c18Tags(tags []string) string {
	var out []string
	for _, t := range tags {
		out = append(out, "known:"+t)
	}
	return strings.Join(out, ",")
}
