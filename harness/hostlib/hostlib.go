// Package hostlib holds the host-declared types and helpers exported to scripts by the C07 monitor.
package hostlib

import (
	"fmt"
	"math"
	"reflect"
	"sort"
	"strconv"
	"strings"
)

type Pt struct{ X, Y int }

type Vec struct{ X, Y float64 }

type ID int

type Rec struct {
	Name string
	Pts  []Pt
	M    map[string]*Pt
}

// Namer is a host interface; _Namer is its wrapper in the style of the extract tool.
type Namer interface{ Name() string }

type W_Namer struct {
	IValue interface{}
	WName  func() string
}

func (W W_Namer) Name() string { return W.WName() }

// Methods on host types, called from scripts (receiver handling of native calls).
func (p Pt) Add(q Pt, ks ...int) Pt {
	for _, k := range ks {
		p.X += k
	}
	return Pt{p.X + q.X, p.Y + q.Y}
}

func (p *Pt) Scale(k int) *Pt { p.X *= k; p.Y *= k; return p }

func (r *Rec) SetName(s string) *Rec { r.Name = s; return r }

func (id ID) Name() string { return fmt.Sprint("id", int(id)) }

// Ops carries function fields in both directions.
type Ops struct {
	F    func(int) int
	G    func(...string) string
	Done func()
}

func RunOps(o Ops, x int) string {
	s := fmt.Sprint(o.F(x))
	if o.G != nil {
		s += o.G("a", "b")
	}
	if o.Done != nil {
		o.Done()
	}
	return s
}

func MakeOps(k int) *Ops {
	return &Ops{F: func(x int) int { return x * k }, G: func(s ...string) string { return strings.Join(s, "-") }}
}

func Two() (int, string) { return 7, "seven" }

func NewNamer(n int) Namer { return ID(n) }

// Nest calls f with depth-1 until depth is 0: used for host->script->host recursion.
func Nest(depth int, f func(int) int) int {
	if depth <= 0 {
		return 0
	}
	return 1 + f(depth-1)
}

func SendPts(ch chan Pt, n int) {
	for i := 0; i < n; i++ {
		ch <- Pt{i, i * i}
	}
	close(ch)
}

// Calls counts the executions of func() values rendered by Show.
var Calls int

// Show renders any value canonically: floats with their sign and exact bits, pointers by their pointee, maps with
// sorted keys, nil-ness of slices, maps and pointers, errors by message, functions of the known signatures by
// calling them with fixed probe arguments.
func Show(x interface{}) string {
	if x == nil {
		return "nil-interface"
	}
	return show(reflect.ValueOf(x), 0)
}

func ShowValue(v reflect.Value) string {
	if !v.IsValid() {
		return "invalid"
	}
	return show(v, 0)
}

var errType = reflect.TypeOf((*error)(nil)).Elem()

func show(v reflect.Value, depth int) string {
	if depth > 6 {
		return "..."
	}
	t := v.Type()
	name := t.String()
	if v.Kind() == reflect.Interface {
		// the static interface type is not part of the value
		if v.IsNil() {
			return "nil-interface"
		}
		return show(v.Elem(), depth)
	}
	if t.Implements(errType) && v.CanInterface() && !(v.Kind() == reflect.Ptr && v.IsNil()) {
		return fmt.Sprintf("error(%q)", v.Interface().(error).Error())
	}
	switch v.Kind() {
	case reflect.Bool:
		return fmt.Sprintf("%s(%v)", name, v.Bool())
	case reflect.Int, reflect.Int8, reflect.Int16, reflect.Int32, reflect.Int64:
		return fmt.Sprintf("%s(%d)", name, v.Int())
	case reflect.Uint, reflect.Uint8, reflect.Uint16, reflect.Uint32, reflect.Uint64, reflect.Uintptr:
		return fmt.Sprintf("%s(%d)", name, v.Uint())
	case reflect.Float32, reflect.Float64:
		return fmt.Sprintf("%s(%s)", name, flt(v.Float()))
	case reflect.Complex64, reflect.Complex128:
		c := v.Complex()
		return fmt.Sprintf("%s(%s,%s)", name, flt(real(c)), flt(imag(c)))
	case reflect.String:
		return fmt.Sprintf("%s(%q)", name, v.String())
	case reflect.Ptr:
		if v.IsNil() {
			return name + "(nil)"
		}
		return "&" + show(v.Elem(), depth+1)
	case reflect.Slice:
		if v.IsNil() {
			return name + "(nil)"
		}
		fallthrough
	case reflect.Array:
		var el []string
		for i := 0; i < v.Len(); i++ {
			el = append(el, show(v.Index(i), depth+1))
		}
		return name + "{" + strings.Join(el, ", ") + "}"
	case reflect.Map:
		if v.IsNil() {
			return name + "(nil)"
		}
		var el []string
		for _, k := range v.MapKeys() {
			el = append(el, show(k, depth+1)+": "+show(v.MapIndex(k), depth+1))
		}
		sort.Strings(el)
		return name + "{" + strings.Join(el, ", ") + "}"
	case reflect.Struct:
		var el []string
		for i := 0; i < v.NumField(); i++ {
			el = append(el, t.Field(i).Name+": "+show(v.Field(i), depth+1))
		}
		return name + "{" + strings.Join(el, ", ") + "}"
	case reflect.Func:
		if v.IsNil() {
			return name + "(nil)"
		}
		return showFunc(v)
	}
	return fmt.Sprintf("%s?%v", name, v)
}

func flt(f float64) string {
	return strconv.FormatFloat(f, 'g', -1, 64) + "#" + strconv.FormatUint(math.Float64bits(f), 16)
}

func showFunc(v reflect.Value) (s string) {
	defer func() {
		if r := recover(); r != nil {
			s = fmt.Sprintf("func-panicked(%v)", r)
		}
	}()
	switch f := v.Interface().(type) {
	case func(int) int:
		return fmt.Sprintf("f1(%d,%d)", f(7), f(-2))
	case func(Pt) (int, error):
		n, err := f(Pt{2, 3})
		return fmt.Sprintf("f2(%d,%v)", n, err)
	case func(...string) string:
		return fmt.Sprintf("f3(%q,%q)", f("a", "b"), f())
	case func():
		before := Calls
		f()
		return fmt.Sprintf("f4(calls+%d)", Calls-before)
	}
	return "func:" + v.Type().String()
}

// Bump is what func() values of the pool do.
func Bump() { Calls++ }

func NegZero() float64 { return math.Copysign(0, -1) }

func CallName(n Namer) string { return "name=" + n.Name() }

func CallNames(ns ...Namer) string {
	var s []string
	for _, n := range ns {
		s = append(s, n.Name())
	}
	return strings.Join(s, ",")
}

func Stringify(s fmt.Stringer) string { return "str=" + s.String() }

func ErrText(e error) string {
	if e == nil {
		return "no error"
	}
	return "err=" + e.Error()
}

// Symbols is the export table for package hostlib (dynamic functions are added per cell).
// named types over string, float64 and bool, as parameters (fixed, variadic, method)
type Label string
type Ratio float64
type Flag bool

func TakeLabel(l Label) string { return "label=" + string(l) }
func TakeRatio(r Ratio) string { return "ratio=" + flt(float64(r)) }
func TakeFlag(f Flag) string   { return fmt.Sprint("flag=", bool(f)) }
func Labels(n int, ls ...Label) string {
	out := fmt.Sprint(n)
	for _, l := range ls {
		out += "/" + string(l)
	}
	return out
}
func (r *Rec) Tag(l Label, w Ratio) string { return r.Name + ":" + string(l) + ":" + flt(float64(w)) }

func Symbols() map[string]reflect.Value {
	return map[string]reflect.Value{
		"Label":     reflect.ValueOf((*Label)(nil)),
		"Ratio":     reflect.ValueOf((*Ratio)(nil)),
		"Flag":      reflect.ValueOf((*Flag)(nil)),
		"TakeLabel": reflect.ValueOf(TakeLabel),
		"TakeRatio": reflect.ValueOf(TakeRatio),
		"TakeFlag":  reflect.ValueOf(TakeFlag),
		"Labels":    reflect.ValueOf(Labels),
		"Pt":        reflect.ValueOf((*Pt)(nil)),
		"Vec":       reflect.ValueOf((*Vec)(nil)),
		"ID":        reflect.ValueOf((*ID)(nil)),
		"Rec":       reflect.ValueOf((*Rec)(nil)),
		"Namer":     reflect.ValueOf((*Namer)(nil)),
		"_Namer":    reflect.ValueOf((*W_Namer)(nil)),
		"Show":      reflect.ValueOf(Show),
		"Bump":      reflect.ValueOf(Bump),
		"NegZero":   reflect.ValueOf(NegZero),
		"CallName":  reflect.ValueOf(CallName),
		"CallNames": reflect.ValueOf(CallNames),
		"Stringify": reflect.ValueOf(Stringify),
		"ErrText":   reflect.ValueOf(ErrText),
		"Calls":     reflect.ValueOf(&Calls).Elem(),
		"Ops":       reflect.ValueOf((*Ops)(nil)),
		"RunOps":    reflect.ValueOf(RunOps),
		"MakeOps":   reflect.ValueOf(MakeOps),
		"Two":       reflect.ValueOf(Two),
		"NewNamer":  reflect.ValueOf(NewNamer),
		"Nest":      reflect.ValueOf(Nest),
		"SendPts":   reflect.ValueOf(SendPts),
	}
}
