// +build windows
package p

func M() int { return 1 }
