// C05: gc prints "true false"; yaegi panics (assertion on a nil value of an interpreted interface type).
package main

import "fmt"

type I interface{ M() int }
type J interface{ N() int }

func main() {
	var n I
	_, ok := n.(J)
	fmt.Println(n == nil, ok)
}
