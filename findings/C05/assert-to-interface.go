// C05: gc prints "false"; yaegi reports ok=true for an interface the dynamic type does not implement.
package main

import "fmt"

type T struct{ f int }

func (t T) M0() int { return t.f }

type I interface{ M0() int }
type J interface {
	M0() int
	M9() int
}

func main() {
	var i I = T{1}
	_, ok := i.(J)
	fmt.Println(ok)
}
