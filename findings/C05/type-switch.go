// C05: type switch on interface{} with interface-typed and concrete cases: wrong branch or run-time panic under yaegi.
package main

import "fmt"

type T struct{ f int }

func (t *T) P() int { return t.f }

type I interface{ P() int }
type Num int

func main() {
	var e interface{} = T{1}
	switch x := e.(type) {
	case I:
		fmt.Println("I", x.P())
	case *Num:
		fmt.Println("*Num")
	case T:
		fmt.Println("T", x.f)
	default:
		fmt.Println("default")
	}
}
