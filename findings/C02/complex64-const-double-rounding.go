package main

import (
	"fmt"
	"math"
)

var curCell string

type userPanic struct{ v int }

func obs(tag string, vs ...interface{}) {
	fmt.Print("#", curCell, " ", tag)
	for _, v := range vs {
		fmt.Print(" ", v)
	}
	fmt.Println()
}

func runCell(id string, f func()) {
	curCell = id
	defer func() {
		if r := recover(); r != nil {
			switch v := r.(type) {
			case userPanic:
				fmt.Println("#"+id, "panic user", v.v)
			case string:
				if len(v) > 5 && v[:5] == "user:" {
					fmt.Println("#"+id, "panic", v)
				} else {
					fmt.Println("#"+id, "panic fault")
				}
			default:
				fmt.Println("#"+id, "panic fault")
			}
		}
	}()
	f()
	fmt.Println("#"+id, "end")
}
var panicked bool
var v_int = []int{-9223372036854775808, -9223372036854775807, -4294967297, -4294967296, -4294967295, -3, -2, -1, 0, 1, 2, 3, 7, 10, 4294967295, 4294967296, 4294967297, 4611686018427387903, 4611686018427387904, 4611686018427387905, 9223372036854775806, 9223372036854775807}
func id_int(x int) int { return x }
var v_int8 = []int8{-128, -127, -17, -16, -15, -3, -2, -1, 0, 1, 2, 3, 7, 10, 15, 16, 17, 63, 64, 65, 126, 127}
func id_int8(x int8) int8 { return x }
var v_int16 = []int16{-32768, -32767, -257, -256, -255, -3, -2, -1, 0, 1, 2, 3, 7, 10, 255, 256, 257, 16383, 16384, 16385, 32766, 32767}
func id_int16(x int16) int16 { return x }
var v_int32 = []int32{-2147483648, -2147483647, -65537, -65536, -65535, -3, -2, -1, 0, 1, 2, 3, 7, 10, 65535, 65536, 65537, 1073741823, 1073741824, 1073741825, 2147483646, 2147483647}
func id_int32(x int32) int32 { return x }
var v_int64 = []int64{-9223372036854775808, -9223372036854775807, -4294967297, -4294967296, -4294967295, -3, -2, -1, 0, 1, 2, 3, 7, 10, 4294967295, 4294967296, 4294967297, 4611686018427387903, 4611686018427387904, 4611686018427387905, 9223372036854775806, 9223372036854775807}
func id_int64(x int64) int64 { return x }
var v_uint = []uint{0, 1, 2, 3, 7, 10, 4294967295, 4294967296, 4294967297, 4611686018427387903, 4611686018427387904, 4611686018427387905, 9223372036854775807, 9223372036854775808, 9223372036854775809, 18446744073709551614, 18446744073709551615}
func id_uint(x uint) uint { return x }
var v_uint8 = []uint8{0, 1, 2, 3, 7, 10, 15, 16, 17, 63, 64, 65, 127, 128, 129, 254, 255}
func id_uint8(x uint8) uint8 { return x }
var v_uint16 = []uint16{0, 1, 2, 3, 7, 10, 255, 256, 257, 16383, 16384, 16385, 32767, 32768, 32769, 65534, 65535}
func id_uint16(x uint16) uint16 { return x }
var v_uint32 = []uint32{0, 1, 2, 3, 7, 10, 65535, 65536, 65537, 1073741823, 1073741824, 1073741825, 2147483647, 2147483648, 2147483649, 4294967294, 4294967295}
func id_uint32(x uint32) uint32 { return x }
var v_uint64 = []uint64{0, 1, 2, 3, 7, 10, 4294967295, 4294967296, 4294967297, 4611686018427387903, 4611686018427387904, 4611686018427387905, 9223372036854775807, 9223372036854775808, 9223372036854775809, 18446744073709551614, 18446744073709551615}
func id_uint64(x uint64) uint64 { return x }
var v_uintptr = []uintptr{0, 1, 2, 3, 7, 10, 4294967295, 4294967296, 4294967297, 4611686018427387903, 4611686018427387904, 4611686018427387905, 9223372036854775807, 9223372036854775808, 9223372036854775809, 18446744073709551614, 18446744073709551615}
func id_uintptr(x uintptr) uintptr { return x }
var v_float32 = []float32{float32(0), float32(math.Copysign(0, -1)), float32(1), float32(-1), float32(0.5), float32(2), float32(3), float32(-2.75), float32(16777217), float32(1e10), float32(-1e10), float32(math.NaN()), float32(math.Inf(1)), float32(math.Inf(-1)), float32(math.MaxFloat32), float32(1e-45), float32(1.17549435e-38), float32(3.4e38)}
func id_float32(x float32) float32 { return x }
var v_float64 = []float64{float64(0), float64(math.Copysign(0, -1)), float64(1), float64(-1), float64(0.5), float64(2), float64(3), float64(-2.75), float64(16777217), float64(1e10), float64(-1e10), float64(math.NaN()), float64(math.Inf(1)), float64(math.Inf(-1)), float64(math.MaxFloat64), float64(5e-324), float64(2.2250738585072014e-308), float64(9007199254740993), float64(0.1)}
func id_float64(x float64) float64 { return x }
var v_complex64 = []complex64{complex(float32(0), float32(0)), complex(float32(1), float32(2)), complex(float32(-1.5), float32(0.5)), complex(float32(3), float32(-4)), complex(float32(0), float32(1)), complex(float32(1e10), float32(-1e-10)), complex(float32(math.Inf(1)), float32(0)), complex(float32(math.NaN()), float32(1))}
func id_complex64(x complex64) complex64 { return x }
var v_complex128 = []complex128{complex(float64(0), float64(0)), complex(float64(1), float64(2)), complex(float64(-1.5), float64(0.5)), complex(float64(3), float64(-4)), complex(float64(0), float64(1)), complex(float64(1e10), float64(-1e-10)), complex(float64(math.Inf(1)), float64(0)), complex(float64(math.NaN()), float64(1))}
func id_complex128(x complex128) complex128 { return x }
var v_string = []string{"", "a", "ab", "b", "\x00", "é", "abc", "aB"}
func id_string(x string) string { return x }
func safe_int_int_int(f func(int, int) int, a int, b int) int {
	defer func() {
		if x := recover(); x != nil {
			panicked = true
		}
	}()
	panicked = false
	return f(a, b)
}
func safe_int_int_string(f func(int, int) string, a int, b int) string {
	defer func() {
		if x := recover(); x != nil {
			panicked = true
		}
	}()
	panicked = false
	return f(a, b)
}
func safe1_int_int(f func(int) int, a int) int {
	defer func() {
		if x := recover(); x != nil {
			panicked = true
		}
	}()
	panicked = false
	return f(a)
}
func safe1_int_string(f func(int) string, a int) string {
	defer func() {
		if x := recover(); x != nil {
			panicked = true
		}
	}()
	panicked = false
	return f(a)
}
func safe_int8_int8_int8(f func(int8, int8) int8, a int8, b int8) int8 {
	defer func() {
		if x := recover(); x != nil {
			panicked = true
		}
	}()
	panicked = false
	return f(a, b)
}
func safe_int8_int8_string(f func(int8, int8) string, a int8, b int8) string {
	defer func() {
		if x := recover(); x != nil {
			panicked = true
		}
	}()
	panicked = false
	return f(a, b)
}
func safe1_int8_int8(f func(int8) int8, a int8) int8 {
	defer func() {
		if x := recover(); x != nil {
			panicked = true
		}
	}()
	panicked = false
	return f(a)
}
func safe1_int8_string(f func(int8) string, a int8) string {
	defer func() {
		if x := recover(); x != nil {
			panicked = true
		}
	}()
	panicked = false
	return f(a)
}
func safe_int16_int16_int16(f func(int16, int16) int16, a int16, b int16) int16 {
	defer func() {
		if x := recover(); x != nil {
			panicked = true
		}
	}()
	panicked = false
	return f(a, b)
}
func safe_int16_int16_string(f func(int16, int16) string, a int16, b int16) string {
	defer func() {
		if x := recover(); x != nil {
			panicked = true
		}
	}()
	panicked = false
	return f(a, b)
}
func safe1_int16_int16(f func(int16) int16, a int16) int16 {
	defer func() {
		if x := recover(); x != nil {
			panicked = true
		}
	}()
	panicked = false
	return f(a)
}
func safe1_int16_string(f func(int16) string, a int16) string {
	defer func() {
		if x := recover(); x != nil {
			panicked = true
		}
	}()
	panicked = false
	return f(a)
}
func safe_int32_int32_int32(f func(int32, int32) int32, a int32, b int32) int32 {
	defer func() {
		if x := recover(); x != nil {
			panicked = true
		}
	}()
	panicked = false
	return f(a, b)
}
func safe_int32_int32_string(f func(int32, int32) string, a int32, b int32) string {
	defer func() {
		if x := recover(); x != nil {
			panicked = true
		}
	}()
	panicked = false
	return f(a, b)
}
func safe1_int32_int32(f func(int32) int32, a int32) int32 {
	defer func() {
		if x := recover(); x != nil {
			panicked = true
		}
	}()
	panicked = false
	return f(a)
}
func safe1_int32_string(f func(int32) string, a int32) string {
	defer func() {
		if x := recover(); x != nil {
			panicked = true
		}
	}()
	panicked = false
	return f(a)
}
func safe_int64_int64_int64(f func(int64, int64) int64, a int64, b int64) int64 {
	defer func() {
		if x := recover(); x != nil {
			panicked = true
		}
	}()
	panicked = false
	return f(a, b)
}
func safe_int64_int64_string(f func(int64, int64) string, a int64, b int64) string {
	defer func() {
		if x := recover(); x != nil {
			panicked = true
		}
	}()
	panicked = false
	return f(a, b)
}
func safe1_int64_int64(f func(int64) int64, a int64) int64 {
	defer func() {
		if x := recover(); x != nil {
			panicked = true
		}
	}()
	panicked = false
	return f(a)
}
func safe1_int64_string(f func(int64) string, a int64) string {
	defer func() {
		if x := recover(); x != nil {
			panicked = true
		}
	}()
	panicked = false
	return f(a)
}
func safe_uint_uint_uint(f func(uint, uint) uint, a uint, b uint) uint {
	defer func() {
		if x := recover(); x != nil {
			panicked = true
		}
	}()
	panicked = false
	return f(a, b)
}
func safe_uint_uint_string(f func(uint, uint) string, a uint, b uint) string {
	defer func() {
		if x := recover(); x != nil {
			panicked = true
		}
	}()
	panicked = false
	return f(a, b)
}
func safe1_uint_uint(f func(uint) uint, a uint) uint {
	defer func() {
		if x := recover(); x != nil {
			panicked = true
		}
	}()
	panicked = false
	return f(a)
}
func safe1_uint_string(f func(uint) string, a uint) string {
	defer func() {
		if x := recover(); x != nil {
			panicked = true
		}
	}()
	panicked = false
	return f(a)
}
func safe_uint8_uint8_uint8(f func(uint8, uint8) uint8, a uint8, b uint8) uint8 {
	defer func() {
		if x := recover(); x != nil {
			panicked = true
		}
	}()
	panicked = false
	return f(a, b)
}
func safe_uint8_uint8_string(f func(uint8, uint8) string, a uint8, b uint8) string {
	defer func() {
		if x := recover(); x != nil {
			panicked = true
		}
	}()
	panicked = false
	return f(a, b)
}
func safe1_uint8_uint8(f func(uint8) uint8, a uint8) uint8 {
	defer func() {
		if x := recover(); x != nil {
			panicked = true
		}
	}()
	panicked = false
	return f(a)
}
func safe1_uint8_string(f func(uint8) string, a uint8) string {
	defer func() {
		if x := recover(); x != nil {
			panicked = true
		}
	}()
	panicked = false
	return f(a)
}
func safe_uint16_uint16_uint16(f func(uint16, uint16) uint16, a uint16, b uint16) uint16 {
	defer func() {
		if x := recover(); x != nil {
			panicked = true
		}
	}()
	panicked = false
	return f(a, b)
}
func safe_uint16_uint16_string(f func(uint16, uint16) string, a uint16, b uint16) string {
	defer func() {
		if x := recover(); x != nil {
			panicked = true
		}
	}()
	panicked = false
	return f(a, b)
}
func safe1_uint16_uint16(f func(uint16) uint16, a uint16) uint16 {
	defer func() {
		if x := recover(); x != nil {
			panicked = true
		}
	}()
	panicked = false
	return f(a)
}
func safe1_uint16_string(f func(uint16) string, a uint16) string {
	defer func() {
		if x := recover(); x != nil {
			panicked = true
		}
	}()
	panicked = false
	return f(a)
}
func safe_uint32_uint32_uint32(f func(uint32, uint32) uint32, a uint32, b uint32) uint32 {
	defer func() {
		if x := recover(); x != nil {
			panicked = true
		}
	}()
	panicked = false
	return f(a, b)
}
func safe_uint32_uint32_string(f func(uint32, uint32) string, a uint32, b uint32) string {
	defer func() {
		if x := recover(); x != nil {
			panicked = true
		}
	}()
	panicked = false
	return f(a, b)
}
func safe1_uint32_uint32(f func(uint32) uint32, a uint32) uint32 {
	defer func() {
		if x := recover(); x != nil {
			panicked = true
		}
	}()
	panicked = false
	return f(a)
}
func safe1_uint32_string(f func(uint32) string, a uint32) string {
	defer func() {
		if x := recover(); x != nil {
			panicked = true
		}
	}()
	panicked = false
	return f(a)
}
func safe_uint64_uint64_uint64(f func(uint64, uint64) uint64, a uint64, b uint64) uint64 {
	defer func() {
		if x := recover(); x != nil {
			panicked = true
		}
	}()
	panicked = false
	return f(a, b)
}
func safe_uint64_uint64_string(f func(uint64, uint64) string, a uint64, b uint64) string {
	defer func() {
		if x := recover(); x != nil {
			panicked = true
		}
	}()
	panicked = false
	return f(a, b)
}
func safe1_uint64_uint64(f func(uint64) uint64, a uint64) uint64 {
	defer func() {
		if x := recover(); x != nil {
			panicked = true
		}
	}()
	panicked = false
	return f(a)
}
func safe1_uint64_string(f func(uint64) string, a uint64) string {
	defer func() {
		if x := recover(); x != nil {
			panicked = true
		}
	}()
	panicked = false
	return f(a)
}
func safe_uintptr_uintptr_uintptr(f func(uintptr, uintptr) uintptr, a uintptr, b uintptr) uintptr {
	defer func() {
		if x := recover(); x != nil {
			panicked = true
		}
	}()
	panicked = false
	return f(a, b)
}
func safe_uintptr_uintptr_string(f func(uintptr, uintptr) string, a uintptr, b uintptr) string {
	defer func() {
		if x := recover(); x != nil {
			panicked = true
		}
	}()
	panicked = false
	return f(a, b)
}
func safe1_uintptr_uintptr(f func(uintptr) uintptr, a uintptr) uintptr {
	defer func() {
		if x := recover(); x != nil {
			panicked = true
		}
	}()
	panicked = false
	return f(a)
}
func safe1_uintptr_string(f func(uintptr) string, a uintptr) string {
	defer func() {
		if x := recover(); x != nil {
			panicked = true
		}
	}()
	panicked = false
	return f(a)
}
var v_bool = []bool{false, true}
var sc_int_int = []int{-9223372036854775808, -64, -2, -1, 0, 1, 2, 5, 31, 32, 63, 64, 65, 127, 255, 9223372036854775807}
var sc_int_int8 = []int8{-128, -64, -2, -1, 0, 1, 2, 5, 31, 32, 63, 64, 65, 127}
func safe_int_int8_int(f func(int, int8) int, a int, b int8) int {
	defer func() {
		if x := recover(); x != nil {
			panicked = true
		}
	}()
	panicked = false
	return f(a, b)
}
func safe_int_int8_string(f func(int, int8) string, a int, b int8) string {
	defer func() {
		if x := recover(); x != nil {
			panicked = true
		}
	}()
	panicked = false
	return f(a, b)
}
var sc_int_int16 = []int16{-32768, -64, -2, -1, 0, 1, 2, 5, 31, 32, 63, 64, 65, 127, 255, 32767}
func safe_int_int16_int(f func(int, int16) int, a int, b int16) int {
	defer func() {
		if x := recover(); x != nil {
			panicked = true
		}
	}()
	panicked = false
	return f(a, b)
}
func safe_int_int16_string(f func(int, int16) string, a int, b int16) string {
	defer func() {
		if x := recover(); x != nil {
			panicked = true
		}
	}()
	panicked = false
	return f(a, b)
}
var sc_int_int32 = []int32{-2147483648, -64, -2, -1, 0, 1, 2, 5, 31, 32, 63, 64, 65, 127, 255, 2147483647}
func safe_int_int32_int(f func(int, int32) int, a int, b int32) int {
	defer func() {
		if x := recover(); x != nil {
			panicked = true
		}
	}()
	panicked = false
	return f(a, b)
}
func safe_int_int32_string(f func(int, int32) string, a int, b int32) string {
	defer func() {
		if x := recover(); x != nil {
			panicked = true
		}
	}()
	panicked = false
	return f(a, b)
}
var sc_int_int64 = []int64{-9223372036854775808, -64, -2, -1, 0, 1, 2, 5, 31, 32, 63, 64, 65, 127, 255, 9223372036854775807}
func safe_int_int64_int(f func(int, int64) int, a int, b int64) int {
	defer func() {
		if x := recover(); x != nil {
			panicked = true
		}
	}()
	panicked = false
	return f(a, b)
}
func safe_int_int64_string(f func(int, int64) string, a int, b int64) string {
	defer func() {
		if x := recover(); x != nil {
			panicked = true
		}
	}()
	panicked = false
	return f(a, b)
}
var sc_int_uint = []uint{0, 1, 2, 5, 31, 32, 63, 64, 65, 127, 255, 18446744073709551615}
func safe_int_uint_int(f func(int, uint) int, a int, b uint) int {
	defer func() {
		if x := recover(); x != nil {
			panicked = true
		}
	}()
	panicked = false
	return f(a, b)
}
func safe_int_uint_string(f func(int, uint) string, a int, b uint) string {
	defer func() {
		if x := recover(); x != nil {
			panicked = true
		}
	}()
	panicked = false
	return f(a, b)
}
var sc_int_uint8 = []uint8{0, 1, 2, 5, 31, 32, 63, 64, 65, 127, 255}
func safe_int_uint8_int(f func(int, uint8) int, a int, b uint8) int {
	defer func() {
		if x := recover(); x != nil {
			panicked = true
		}
	}()
	panicked = false
	return f(a, b)
}
func safe_int_uint8_string(f func(int, uint8) string, a int, b uint8) string {
	defer func() {
		if x := recover(); x != nil {
			panicked = true
		}
	}()
	panicked = false
	return f(a, b)
}
var sc_int_uint16 = []uint16{0, 1, 2, 5, 31, 32, 63, 64, 65, 127, 255, 65535}
func safe_int_uint16_int(f func(int, uint16) int, a int, b uint16) int {
	defer func() {
		if x := recover(); x != nil {
			panicked = true
		}
	}()
	panicked = false
	return f(a, b)
}
func safe_int_uint16_string(f func(int, uint16) string, a int, b uint16) string {
	defer func() {
		if x := recover(); x != nil {
			panicked = true
		}
	}()
	panicked = false
	return f(a, b)
}
var sc_int_uint32 = []uint32{0, 1, 2, 5, 31, 32, 63, 64, 65, 127, 255, 4294967295}
func safe_int_uint32_int(f func(int, uint32) int, a int, b uint32) int {
	defer func() {
		if x := recover(); x != nil {
			panicked = true
		}
	}()
	panicked = false
	return f(a, b)
}
func safe_int_uint32_string(f func(int, uint32) string, a int, b uint32) string {
	defer func() {
		if x := recover(); x != nil {
			panicked = true
		}
	}()
	panicked = false
	return f(a, b)
}
var sc_int_uint64 = []uint64{0, 1, 2, 5, 31, 32, 63, 64, 65, 127, 255, 18446744073709551615}
func safe_int_uint64_int(f func(int, uint64) int, a int, b uint64) int {
	defer func() {
		if x := recover(); x != nil {
			panicked = true
		}
	}()
	panicked = false
	return f(a, b)
}
func safe_int_uint64_string(f func(int, uint64) string, a int, b uint64) string {
	defer func() {
		if x := recover(); x != nil {
			panicked = true
		}
	}()
	panicked = false
	return f(a, b)
}
var sc_int_uintptr = []uintptr{0, 1, 2, 5, 31, 32, 63, 64, 65, 127, 255, 18446744073709551615}
func safe_int_uintptr_int(f func(int, uintptr) int, a int, b uintptr) int {
	defer func() {
		if x := recover(); x != nil {
			panicked = true
		}
	}()
	panicked = false
	return f(a, b)
}
func safe_int_uintptr_string(f func(int, uintptr) string, a int, b uintptr) string {
	defer func() {
		if x := recover(); x != nil {
			panicked = true
		}
	}()
	panicked = false
	return f(a, b)
}
var sc_int8_int = []int{-9223372036854775808, -64, -2, -1, 0, 1, 2, 5, 7, 8, 9, 31, 32, 63, 64, 65, 127, 255, 9223372036854775807}
func safe_int8_int_int8(f func(int8, int) int8, a int8, b int) int8 {
	defer func() {
		if x := recover(); x != nil {
			panicked = true
		}
	}()
	panicked = false
	return f(a, b)
}
func safe_int8_int_string(f func(int8, int) string, a int8, b int) string {
	defer func() {
		if x := recover(); x != nil {
			panicked = true
		}
	}()
	panicked = false
	return f(a, b)
}
var sc_int8_int8 = []int8{-128, -64, -2, -1, 0, 1, 2, 5, 7, 8, 9, 31, 32, 63, 64, 65, 127}
var sc_int8_int16 = []int16{-32768, -64, -2, -1, 0, 1, 2, 5, 7, 8, 9, 31, 32, 63, 64, 65, 127, 255, 32767}
func safe_int8_int16_int8(f func(int8, int16) int8, a int8, b int16) int8 {
	defer func() {
		if x := recover(); x != nil {
			panicked = true
		}
	}()
	panicked = false
	return f(a, b)
}
func safe_int8_int16_string(f func(int8, int16) string, a int8, b int16) string {
	defer func() {
		if x := recover(); x != nil {
			panicked = true
		}
	}()
	panicked = false
	return f(a, b)
}
var sc_int8_int32 = []int32{-2147483648, -64, -2, -1, 0, 1, 2, 5, 7, 8, 9, 31, 32, 63, 64, 65, 127, 255, 2147483647}
func safe_int8_int32_int8(f func(int8, int32) int8, a int8, b int32) int8 {
	defer func() {
		if x := recover(); x != nil {
			panicked = true
		}
	}()
	panicked = false
	return f(a, b)
}
func safe_int8_int32_string(f func(int8, int32) string, a int8, b int32) string {
	defer func() {
		if x := recover(); x != nil {
			panicked = true
		}
	}()
	panicked = false
	return f(a, b)
}
var sc_int8_int64 = []int64{-9223372036854775808, -64, -2, -1, 0, 1, 2, 5, 7, 8, 9, 31, 32, 63, 64, 65, 127, 255, 9223372036854775807}
func safe_int8_int64_int8(f func(int8, int64) int8, a int8, b int64) int8 {
	defer func() {
		if x := recover(); x != nil {
			panicked = true
		}
	}()
	panicked = false
	return f(a, b)
}
func safe_int8_int64_string(f func(int8, int64) string, a int8, b int64) string {
	defer func() {
		if x := recover(); x != nil {
			panicked = true
		}
	}()
	panicked = false
	return f(a, b)
}
var sc_int8_uint = []uint{0, 1, 2, 5, 7, 8, 9, 31, 32, 63, 64, 65, 127, 255, 18446744073709551615}
func safe_int8_uint_int8(f func(int8, uint) int8, a int8, b uint) int8 {
	defer func() {
		if x := recover(); x != nil {
			panicked = true
		}
	}()
	panicked = false
	return f(a, b)
}
func safe_int8_uint_string(f func(int8, uint) string, a int8, b uint) string {
	defer func() {
		if x := recover(); x != nil {
			panicked = true
		}
	}()
	panicked = false
	return f(a, b)
}
var sc_int8_uint8 = []uint8{0, 1, 2, 5, 7, 8, 9, 31, 32, 63, 64, 65, 127, 255}
func safe_int8_uint8_int8(f func(int8, uint8) int8, a int8, b uint8) int8 {
	defer func() {
		if x := recover(); x != nil {
			panicked = true
		}
	}()
	panicked = false
	return f(a, b)
}
func safe_int8_uint8_string(f func(int8, uint8) string, a int8, b uint8) string {
	defer func() {
		if x := recover(); x != nil {
			panicked = true
		}
	}()
	panicked = false
	return f(a, b)
}
var sc_int8_uint16 = []uint16{0, 1, 2, 5, 7, 8, 9, 31, 32, 63, 64, 65, 127, 255, 65535}
func safe_int8_uint16_int8(f func(int8, uint16) int8, a int8, b uint16) int8 {
	defer func() {
		if x := recover(); x != nil {
			panicked = true
		}
	}()
	panicked = false
	return f(a, b)
}
func safe_int8_uint16_string(f func(int8, uint16) string, a int8, b uint16) string {
	defer func() {
		if x := recover(); x != nil {
			panicked = true
		}
	}()
	panicked = false
	return f(a, b)
}
var sc_int8_uint32 = []uint32{0, 1, 2, 5, 7, 8, 9, 31, 32, 63, 64, 65, 127, 255, 4294967295}
func safe_int8_uint32_int8(f func(int8, uint32) int8, a int8, b uint32) int8 {
	defer func() {
		if x := recover(); x != nil {
			panicked = true
		}
	}()
	panicked = false
	return f(a, b)
}
func safe_int8_uint32_string(f func(int8, uint32) string, a int8, b uint32) string {
	defer func() {
		if x := recover(); x != nil {
			panicked = true
		}
	}()
	panicked = false
	return f(a, b)
}
var sc_int8_uint64 = []uint64{0, 1, 2, 5, 7, 8, 9, 31, 32, 63, 64, 65, 127, 255, 18446744073709551615}
func safe_int8_uint64_int8(f func(int8, uint64) int8, a int8, b uint64) int8 {
	defer func() {
		if x := recover(); x != nil {
			panicked = true
		}
	}()
	panicked = false
	return f(a, b)
}
func safe_int8_uint64_string(f func(int8, uint64) string, a int8, b uint64) string {
	defer func() {
		if x := recover(); x != nil {
			panicked = true
		}
	}()
	panicked = false
	return f(a, b)
}
var sc_int8_uintptr = []uintptr{0, 1, 2, 5, 7, 8, 9, 31, 32, 63, 64, 65, 127, 255, 18446744073709551615}
func safe_int8_uintptr_int8(f func(int8, uintptr) int8, a int8, b uintptr) int8 {
	defer func() {
		if x := recover(); x != nil {
			panicked = true
		}
	}()
	panicked = false
	return f(a, b)
}
func safe_int8_uintptr_string(f func(int8, uintptr) string, a int8, b uintptr) string {
	defer func() {
		if x := recover(); x != nil {
			panicked = true
		}
	}()
	panicked = false
	return f(a, b)
}
var sc_int16_int = []int{-9223372036854775808, -64, -2, -1, 0, 1, 2, 5, 15, 16, 17, 31, 32, 63, 64, 65, 127, 255, 9223372036854775807}
func safe_int16_int_int16(f func(int16, int) int16, a int16, b int) int16 {
	defer func() {
		if x := recover(); x != nil {
			panicked = true
		}
	}()
	panicked = false
	return f(a, b)
}
func safe_int16_int_string(f func(int16, int) string, a int16, b int) string {
	defer func() {
		if x := recover(); x != nil {
			panicked = true
		}
	}()
	panicked = false
	return f(a, b)
}
var sc_int16_int8 = []int8{-128, -64, -2, -1, 0, 1, 2, 5, 15, 16, 17, 31, 32, 63, 64, 65, 127}
func safe_int16_int8_int16(f func(int16, int8) int16, a int16, b int8) int16 {
	defer func() {
		if x := recover(); x != nil {
			panicked = true
		}
	}()
	panicked = false
	return f(a, b)
}
func safe_int16_int8_string(f func(int16, int8) string, a int16, b int8) string {
	defer func() {
		if x := recover(); x != nil {
			panicked = true
		}
	}()
	panicked = false
	return f(a, b)
}
var sc_int16_int16 = []int16{-32768, -64, -2, -1, 0, 1, 2, 5, 15, 16, 17, 31, 32, 63, 64, 65, 127, 255, 32767}
var sc_int16_int32 = []int32{-2147483648, -64, -2, -1, 0, 1, 2, 5, 15, 16, 17, 31, 32, 63, 64, 65, 127, 255, 2147483647}
func safe_int16_int32_int16(f func(int16, int32) int16, a int16, b int32) int16 {
	defer func() {
		if x := recover(); x != nil {
			panicked = true
		}
	}()
	panicked = false
	return f(a, b)
}
func safe_int16_int32_string(f func(int16, int32) string, a int16, b int32) string {
	defer func() {
		if x := recover(); x != nil {
			panicked = true
		}
	}()
	panicked = false
	return f(a, b)
}
var sc_int16_int64 = []int64{-9223372036854775808, -64, -2, -1, 0, 1, 2, 5, 15, 16, 17, 31, 32, 63, 64, 65, 127, 255, 9223372036854775807}
func safe_int16_int64_int16(f func(int16, int64) int16, a int16, b int64) int16 {
	defer func() {
		if x := recover(); x != nil {
			panicked = true
		}
	}()
	panicked = false
	return f(a, b)
}
func safe_int16_int64_string(f func(int16, int64) string, a int16, b int64) string {
	defer func() {
		if x := recover(); x != nil {
			panicked = true
		}
	}()
	panicked = false
	return f(a, b)
}
var sc_int16_uint = []uint{0, 1, 2, 5, 15, 16, 17, 31, 32, 63, 64, 65, 127, 255, 18446744073709551615}
func safe_int16_uint_int16(f func(int16, uint) int16, a int16, b uint) int16 {
	defer func() {
		if x := recover(); x != nil {
			panicked = true
		}
	}()
	panicked = false
	return f(a, b)
}
func safe_int16_uint_string(f func(int16, uint) string, a int16, b uint) string {
	defer func() {
		if x := recover(); x != nil {
			panicked = true
		}
	}()
	panicked = false
	return f(a, b)
}
var sc_int16_uint8 = []uint8{0, 1, 2, 5, 15, 16, 17, 31, 32, 63, 64, 65, 127, 255}
func safe_int16_uint8_int16(f func(int16, uint8) int16, a int16, b uint8) int16 {
	defer func() {
		if x := recover(); x != nil {
			panicked = true
		}
	}()
	panicked = false
	return f(a, b)
}
func safe_int16_uint8_string(f func(int16, uint8) string, a int16, b uint8) string {
	defer func() {
		if x := recover(); x != nil {
			panicked = true
		}
	}()
	panicked = false
	return f(a, b)
}
var sc_int16_uint16 = []uint16{0, 1, 2, 5, 15, 16, 17, 31, 32, 63, 64, 65, 127, 255, 65535}
func safe_int16_uint16_int16(f func(int16, uint16) int16, a int16, b uint16) int16 {
	defer func() {
		if x := recover(); x != nil {
			panicked = true
		}
	}()
	panicked = false
	return f(a, b)
}
func safe_int16_uint16_string(f func(int16, uint16) string, a int16, b uint16) string {
	defer func() {
		if x := recover(); x != nil {
			panicked = true
		}
	}()
	panicked = false
	return f(a, b)
}
var sc_int16_uint32 = []uint32{0, 1, 2, 5, 15, 16, 17, 31, 32, 63, 64, 65, 127, 255, 4294967295}
func safe_int16_uint32_int16(f func(int16, uint32) int16, a int16, b uint32) int16 {
	defer func() {
		if x := recover(); x != nil {
			panicked = true
		}
	}()
	panicked = false
	return f(a, b)
}
func safe_int16_uint32_string(f func(int16, uint32) string, a int16, b uint32) string {
	defer func() {
		if x := recover(); x != nil {
			panicked = true
		}
	}()
	panicked = false
	return f(a, b)
}
var sc_int16_uint64 = []uint64{0, 1, 2, 5, 15, 16, 17, 31, 32, 63, 64, 65, 127, 255, 18446744073709551615}
func safe_int16_uint64_int16(f func(int16, uint64) int16, a int16, b uint64) int16 {
	defer func() {
		if x := recover(); x != nil {
			panicked = true
		}
	}()
	panicked = false
	return f(a, b)
}
func safe_int16_uint64_string(f func(int16, uint64) string, a int16, b uint64) string {
	defer func() {
		if x := recover(); x != nil {
			panicked = true
		}
	}()
	panicked = false
	return f(a, b)
}
var sc_int16_uintptr = []uintptr{0, 1, 2, 5, 15, 16, 17, 31, 32, 63, 64, 65, 127, 255, 18446744073709551615}
func safe_int16_uintptr_int16(f func(int16, uintptr) int16, a int16, b uintptr) int16 {
	defer func() {
		if x := recover(); x != nil {
			panicked = true
		}
	}()
	panicked = false
	return f(a, b)
}
func safe_int16_uintptr_string(f func(int16, uintptr) string, a int16, b uintptr) string {
	defer func() {
		if x := recover(); x != nil {
			panicked = true
		}
	}()
	panicked = false
	return f(a, b)
}
var sc_int32_int = []int{-9223372036854775808, -64, -2, -1, 0, 1, 2, 5, 31, 32, 33, 63, 64, 65, 127, 255, 9223372036854775807}
func safe_int32_int_int32(f func(int32, int) int32, a int32, b int) int32 {
	defer func() {
		if x := recover(); x != nil {
			panicked = true
		}
	}()
	panicked = false
	return f(a, b)
}
func safe_int32_int_string(f func(int32, int) string, a int32, b int) string {
	defer func() {
		if x := recover(); x != nil {
			panicked = true
		}
	}()
	panicked = false
	return f(a, b)
}
var sc_int32_int8 = []int8{-128, -64, -2, -1, 0, 1, 2, 5, 31, 32, 33, 63, 64, 65, 127}
func safe_int32_int8_int32(f func(int32, int8) int32, a int32, b int8) int32 {
	defer func() {
		if x := recover(); x != nil {
			panicked = true
		}
	}()
	panicked = false
	return f(a, b)
}
func safe_int32_int8_string(f func(int32, int8) string, a int32, b int8) string {
	defer func() {
		if x := recover(); x != nil {
			panicked = true
		}
	}()
	panicked = false
	return f(a, b)
}
var sc_int32_int16 = []int16{-32768, -64, -2, -1, 0, 1, 2, 5, 31, 32, 33, 63, 64, 65, 127, 255, 32767}
func safe_int32_int16_int32(f func(int32, int16) int32, a int32, b int16) int32 {
	defer func() {
		if x := recover(); x != nil {
			panicked = true
		}
	}()
	panicked = false
	return f(a, b)
}
func safe_int32_int16_string(f func(int32, int16) string, a int32, b int16) string {
	defer func() {
		if x := recover(); x != nil {
			panicked = true
		}
	}()
	panicked = false
	return f(a, b)
}
var sc_int32_int32 = []int32{-2147483648, -64, -2, -1, 0, 1, 2, 5, 31, 32, 33, 63, 64, 65, 127, 255, 2147483647}
var sc_int32_int64 = []int64{-9223372036854775808, -64, -2, -1, 0, 1, 2, 5, 31, 32, 33, 63, 64, 65, 127, 255, 9223372036854775807}
func safe_int32_int64_int32(f func(int32, int64) int32, a int32, b int64) int32 {
	defer func() {
		if x := recover(); x != nil {
			panicked = true
		}
	}()
	panicked = false
	return f(a, b)
}
func safe_int32_int64_string(f func(int32, int64) string, a int32, b int64) string {
	defer func() {
		if x := recover(); x != nil {
			panicked = true
		}
	}()
	panicked = false
	return f(a, b)
}
var sc_int32_uint = []uint{0, 1, 2, 5, 31, 32, 33, 63, 64, 65, 127, 255, 18446744073709551615}
func safe_int32_uint_int32(f func(int32, uint) int32, a int32, b uint) int32 {
	defer func() {
		if x := recover(); x != nil {
			panicked = true
		}
	}()
	panicked = false
	return f(a, b)
}
func safe_int32_uint_string(f func(int32, uint) string, a int32, b uint) string {
	defer func() {
		if x := recover(); x != nil {
			panicked = true
		}
	}()
	panicked = false
	return f(a, b)
}
var sc_int32_uint8 = []uint8{0, 1, 2, 5, 31, 32, 33, 63, 64, 65, 127, 255}
func safe_int32_uint8_int32(f func(int32, uint8) int32, a int32, b uint8) int32 {
	defer func() {
		if x := recover(); x != nil {
			panicked = true
		}
	}()
	panicked = false
	return f(a, b)
}
func safe_int32_uint8_string(f func(int32, uint8) string, a int32, b uint8) string {
	defer func() {
		if x := recover(); x != nil {
			panicked = true
		}
	}()
	panicked = false
	return f(a, b)
}
var sc_int32_uint16 = []uint16{0, 1, 2, 5, 31, 32, 33, 63, 64, 65, 127, 255, 65535}
func safe_int32_uint16_int32(f func(int32, uint16) int32, a int32, b uint16) int32 {
	defer func() {
		if x := recover(); x != nil {
			panicked = true
		}
	}()
	panicked = false
	return f(a, b)
}
func safe_int32_uint16_string(f func(int32, uint16) string, a int32, b uint16) string {
	defer func() {
		if x := recover(); x != nil {
			panicked = true
		}
	}()
	panicked = false
	return f(a, b)
}
var sc_int32_uint32 = []uint32{0, 1, 2, 5, 31, 32, 33, 63, 64, 65, 127, 255, 4294967295}
func safe_int32_uint32_int32(f func(int32, uint32) int32, a int32, b uint32) int32 {
	defer func() {
		if x := recover(); x != nil {
			panicked = true
		}
	}()
	panicked = false
	return f(a, b)
}
func safe_int32_uint32_string(f func(int32, uint32) string, a int32, b uint32) string {
	defer func() {
		if x := recover(); x != nil {
			panicked = true
		}
	}()
	panicked = false
	return f(a, b)
}
var sc_int32_uint64 = []uint64{0, 1, 2, 5, 31, 32, 33, 63, 64, 65, 127, 255, 18446744073709551615}
func safe_int32_uint64_int32(f func(int32, uint64) int32, a int32, b uint64) int32 {
	defer func() {
		if x := recover(); x != nil {
			panicked = true
		}
	}()
	panicked = false
	return f(a, b)
}
func safe_int32_uint64_string(f func(int32, uint64) string, a int32, b uint64) string {
	defer func() {
		if x := recover(); x != nil {
			panicked = true
		}
	}()
	panicked = false
	return f(a, b)
}
var sc_int32_uintptr = []uintptr{0, 1, 2, 5, 31, 32, 33, 63, 64, 65, 127, 255, 18446744073709551615}
func safe_int32_uintptr_int32(f func(int32, uintptr) int32, a int32, b uintptr) int32 {
	defer func() {
		if x := recover(); x != nil {
			panicked = true
		}
	}()
	panicked = false
	return f(a, b)
}
func safe_int32_uintptr_string(f func(int32, uintptr) string, a int32, b uintptr) string {
	defer func() {
		if x := recover(); x != nil {
			panicked = true
		}
	}()
	panicked = false
	return f(a, b)
}
var sc_int64_int = []int{-9223372036854775808, -64, -2, -1, 0, 1, 2, 5, 31, 32, 63, 64, 65, 127, 255, 9223372036854775807}
func safe_int64_int_int64(f func(int64, int) int64, a int64, b int) int64 {
	defer func() {
		if x := recover(); x != nil {
			panicked = true
		}
	}()
	panicked = false
	return f(a, b)
}
func safe_int64_int_string(f func(int64, int) string, a int64, b int) string {
	defer func() {
		if x := recover(); x != nil {
			panicked = true
		}
	}()
	panicked = false
	return f(a, b)
}
var sc_int64_int8 = []int8{-128, -64, -2, -1, 0, 1, 2, 5, 31, 32, 63, 64, 65, 127}
func safe_int64_int8_int64(f func(int64, int8) int64, a int64, b int8) int64 {
	defer func() {
		if x := recover(); x != nil {
			panicked = true
		}
	}()
	panicked = false
	return f(a, b)
}
func safe_int64_int8_string(f func(int64, int8) string, a int64, b int8) string {
	defer func() {
		if x := recover(); x != nil {
			panicked = true
		}
	}()
	panicked = false
	return f(a, b)
}
var sc_int64_int16 = []int16{-32768, -64, -2, -1, 0, 1, 2, 5, 31, 32, 63, 64, 65, 127, 255, 32767}
func safe_int64_int16_int64(f func(int64, int16) int64, a int64, b int16) int64 {
	defer func() {
		if x := recover(); x != nil {
			panicked = true
		}
	}()
	panicked = false
	return f(a, b)
}
func safe_int64_int16_string(f func(int64, int16) string, a int64, b int16) string {
	defer func() {
		if x := recover(); x != nil {
			panicked = true
		}
	}()
	panicked = false
	return f(a, b)
}
var sc_int64_int32 = []int32{-2147483648, -64, -2, -1, 0, 1, 2, 5, 31, 32, 63, 64, 65, 127, 255, 2147483647}
func safe_int64_int32_int64(f func(int64, int32) int64, a int64, b int32) int64 {
	defer func() {
		if x := recover(); x != nil {
			panicked = true
		}
	}()
	panicked = false
	return f(a, b)
}
func safe_int64_int32_string(f func(int64, int32) string, a int64, b int32) string {
	defer func() {
		if x := recover(); x != nil {
			panicked = true
		}
	}()
	panicked = false
	return f(a, b)
}
var sc_int64_int64 = []int64{-9223372036854775808, -64, -2, -1, 0, 1, 2, 5, 31, 32, 63, 64, 65, 127, 255, 9223372036854775807}
var sc_int64_uint = []uint{0, 1, 2, 5, 31, 32, 63, 64, 65, 127, 255, 18446744073709551615}
func safe_int64_uint_int64(f func(int64, uint) int64, a int64, b uint) int64 {
	defer func() {
		if x := recover(); x != nil {
			panicked = true
		}
	}()
	panicked = false
	return f(a, b)
}
func safe_int64_uint_string(f func(int64, uint) string, a int64, b uint) string {
	defer func() {
		if x := recover(); x != nil {
			panicked = true
		}
	}()
	panicked = false
	return f(a, b)
}
var sc_int64_uint8 = []uint8{0, 1, 2, 5, 31, 32, 63, 64, 65, 127, 255}
func safe_int64_uint8_int64(f func(int64, uint8) int64, a int64, b uint8) int64 {
	defer func() {
		if x := recover(); x != nil {
			panicked = true
		}
	}()
	panicked = false
	return f(a, b)
}
func safe_int64_uint8_string(f func(int64, uint8) string, a int64, b uint8) string {
	defer func() {
		if x := recover(); x != nil {
			panicked = true
		}
	}()
	panicked = false
	return f(a, b)
}
var sc_int64_uint16 = []uint16{0, 1, 2, 5, 31, 32, 63, 64, 65, 127, 255, 65535}
func safe_int64_uint16_int64(f func(int64, uint16) int64, a int64, b uint16) int64 {
	defer func() {
		if x := recover(); x != nil {
			panicked = true
		}
	}()
	panicked = false
	return f(a, b)
}
func safe_int64_uint16_string(f func(int64, uint16) string, a int64, b uint16) string {
	defer func() {
		if x := recover(); x != nil {
			panicked = true
		}
	}()
	panicked = false
	return f(a, b)
}
var sc_int64_uint32 = []uint32{0, 1, 2, 5, 31, 32, 63, 64, 65, 127, 255, 4294967295}
func safe_int64_uint32_int64(f func(int64, uint32) int64, a int64, b uint32) int64 {
	defer func() {
		if x := recover(); x != nil {
			panicked = true
		}
	}()
	panicked = false
	return f(a, b)
}
func safe_int64_uint32_string(f func(int64, uint32) string, a int64, b uint32) string {
	defer func() {
		if x := recover(); x != nil {
			panicked = true
		}
	}()
	panicked = false
	return f(a, b)
}
var sc_int64_uint64 = []uint64{0, 1, 2, 5, 31, 32, 63, 64, 65, 127, 255, 18446744073709551615}
func safe_int64_uint64_int64(f func(int64, uint64) int64, a int64, b uint64) int64 {
	defer func() {
		if x := recover(); x != nil {
			panicked = true
		}
	}()
	panicked = false
	return f(a, b)
}
func safe_int64_uint64_string(f func(int64, uint64) string, a int64, b uint64) string {
	defer func() {
		if x := recover(); x != nil {
			panicked = true
		}
	}()
	panicked = false
	return f(a, b)
}
var sc_int64_uintptr = []uintptr{0, 1, 2, 5, 31, 32, 63, 64, 65, 127, 255, 18446744073709551615}
func safe_int64_uintptr_int64(f func(int64, uintptr) int64, a int64, b uintptr) int64 {
	defer func() {
		if x := recover(); x != nil {
			panicked = true
		}
	}()
	panicked = false
	return f(a, b)
}
func safe_int64_uintptr_string(f func(int64, uintptr) string, a int64, b uintptr) string {
	defer func() {
		if x := recover(); x != nil {
			panicked = true
		}
	}()
	panicked = false
	return f(a, b)
}
var sc_uint_int = []int{-9223372036854775808, -64, -2, -1, 0, 1, 2, 5, 31, 32, 63, 64, 65, 127, 255, 9223372036854775807}
func safe_uint_int_uint(f func(uint, int) uint, a uint, b int) uint {
	defer func() {
		if x := recover(); x != nil {
			panicked = true
		}
	}()
	panicked = false
	return f(a, b)
}
func safe_uint_int_string(f func(uint, int) string, a uint, b int) string {
	defer func() {
		if x := recover(); x != nil {
			panicked = true
		}
	}()
	panicked = false
	return f(a, b)
}
var sc_uint_int8 = []int8{-128, -64, -2, -1, 0, 1, 2, 5, 31, 32, 63, 64, 65, 127}
func safe_uint_int8_uint(f func(uint, int8) uint, a uint, b int8) uint {
	defer func() {
		if x := recover(); x != nil {
			panicked = true
		}
	}()
	panicked = false
	return f(a, b)
}
func safe_uint_int8_string(f func(uint, int8) string, a uint, b int8) string {
	defer func() {
		if x := recover(); x != nil {
			panicked = true
		}
	}()
	panicked = false
	return f(a, b)
}
var sc_uint_int16 = []int16{-32768, -64, -2, -1, 0, 1, 2, 5, 31, 32, 63, 64, 65, 127, 255, 32767}
func safe_uint_int16_uint(f func(uint, int16) uint, a uint, b int16) uint {
	defer func() {
		if x := recover(); x != nil {
			panicked = true
		}
	}()
	panicked = false
	return f(a, b)
}
func safe_uint_int16_string(f func(uint, int16) string, a uint, b int16) string {
	defer func() {
		if x := recover(); x != nil {
			panicked = true
		}
	}()
	panicked = false
	return f(a, b)
}
var sc_uint_int32 = []int32{-2147483648, -64, -2, -1, 0, 1, 2, 5, 31, 32, 63, 64, 65, 127, 255, 2147483647}
func safe_uint_int32_uint(f func(uint, int32) uint, a uint, b int32) uint {
	defer func() {
		if x := recover(); x != nil {
			panicked = true
		}
	}()
	panicked = false
	return f(a, b)
}
func safe_uint_int32_string(f func(uint, int32) string, a uint, b int32) string {
	defer func() {
		if x := recover(); x != nil {
			panicked = true
		}
	}()
	panicked = false
	return f(a, b)
}
var sc_uint_int64 = []int64{-9223372036854775808, -64, -2, -1, 0, 1, 2, 5, 31, 32, 63, 64, 65, 127, 255, 9223372036854775807}
func safe_uint_int64_uint(f func(uint, int64) uint, a uint, b int64) uint {
	defer func() {
		if x := recover(); x != nil {
			panicked = true
		}
	}()
	panicked = false
	return f(a, b)
}
func safe_uint_int64_string(f func(uint, int64) string, a uint, b int64) string {
	defer func() {
		if x := recover(); x != nil {
			panicked = true
		}
	}()
	panicked = false
	return f(a, b)
}
var sc_uint_uint = []uint{0, 1, 2, 5, 31, 32, 63, 64, 65, 127, 255, 18446744073709551615}
var sc_uint_uint8 = []uint8{0, 1, 2, 5, 31, 32, 63, 64, 65, 127, 255}
func safe_uint_uint8_uint(f func(uint, uint8) uint, a uint, b uint8) uint {
	defer func() {
		if x := recover(); x != nil {
			panicked = true
		}
	}()
	panicked = false
	return f(a, b)
}
func safe_uint_uint8_string(f func(uint, uint8) string, a uint, b uint8) string {
	defer func() {
		if x := recover(); x != nil {
			panicked = true
		}
	}()
	panicked = false
	return f(a, b)
}
var sc_uint_uint16 = []uint16{0, 1, 2, 5, 31, 32, 63, 64, 65, 127, 255, 65535}
func safe_uint_uint16_uint(f func(uint, uint16) uint, a uint, b uint16) uint {
	defer func() {
		if x := recover(); x != nil {
			panicked = true
		}
	}()
	panicked = false
	return f(a, b)
}
func safe_uint_uint16_string(f func(uint, uint16) string, a uint, b uint16) string {
	defer func() {
		if x := recover(); x != nil {
			panicked = true
		}
	}()
	panicked = false
	return f(a, b)
}
var sc_uint_uint32 = []uint32{0, 1, 2, 5, 31, 32, 63, 64, 65, 127, 255, 4294967295}
func safe_uint_uint32_uint(f func(uint, uint32) uint, a uint, b uint32) uint {
	defer func() {
		if x := recover(); x != nil {
			panicked = true
		}
	}()
	panicked = false
	return f(a, b)
}
func safe_uint_uint32_string(f func(uint, uint32) string, a uint, b uint32) string {
	defer func() {
		if x := recover(); x != nil {
			panicked = true
		}
	}()
	panicked = false
	return f(a, b)
}
var sc_uint_uint64 = []uint64{0, 1, 2, 5, 31, 32, 63, 64, 65, 127, 255, 18446744073709551615}
func safe_uint_uint64_uint(f func(uint, uint64) uint, a uint, b uint64) uint {
	defer func() {
		if x := recover(); x != nil {
			panicked = true
		}
	}()
	panicked = false
	return f(a, b)
}
func safe_uint_uint64_string(f func(uint, uint64) string, a uint, b uint64) string {
	defer func() {
		if x := recover(); x != nil {
			panicked = true
		}
	}()
	panicked = false
	return f(a, b)
}
var sc_uint_uintptr = []uintptr{0, 1, 2, 5, 31, 32, 63, 64, 65, 127, 255, 18446744073709551615}
func safe_uint_uintptr_uint(f func(uint, uintptr) uint, a uint, b uintptr) uint {
	defer func() {
		if x := recover(); x != nil {
			panicked = true
		}
	}()
	panicked = false
	return f(a, b)
}
func safe_uint_uintptr_string(f func(uint, uintptr) string, a uint, b uintptr) string {
	defer func() {
		if x := recover(); x != nil {
			panicked = true
		}
	}()
	panicked = false
	return f(a, b)
}
var sc_uint8_int = []int{-9223372036854775808, -64, -2, -1, 0, 1, 2, 5, 7, 8, 9, 31, 32, 63, 64, 65, 127, 255, 9223372036854775807}
func safe_uint8_int_uint8(f func(uint8, int) uint8, a uint8, b int) uint8 {
	defer func() {
		if x := recover(); x != nil {
			panicked = true
		}
	}()
	panicked = false
	return f(a, b)
}
func safe_uint8_int_string(f func(uint8, int) string, a uint8, b int) string {
	defer func() {
		if x := recover(); x != nil {
			panicked = true
		}
	}()
	panicked = false
	return f(a, b)
}
var sc_uint8_int8 = []int8{-128, -64, -2, -1, 0, 1, 2, 5, 7, 8, 9, 31, 32, 63, 64, 65, 127}
func safe_uint8_int8_uint8(f func(uint8, int8) uint8, a uint8, b int8) uint8 {
	defer func() {
		if x := recover(); x != nil {
			panicked = true
		}
	}()
	panicked = false
	return f(a, b)
}
func safe_uint8_int8_string(f func(uint8, int8) string, a uint8, b int8) string {
	defer func() {
		if x := recover(); x != nil {
			panicked = true
		}
	}()
	panicked = false
	return f(a, b)
}
var sc_uint8_int16 = []int16{-32768, -64, -2, -1, 0, 1, 2, 5, 7, 8, 9, 31, 32, 63, 64, 65, 127, 255, 32767}
func safe_uint8_int16_uint8(f func(uint8, int16) uint8, a uint8, b int16) uint8 {
	defer func() {
		if x := recover(); x != nil {
			panicked = true
		}
	}()
	panicked = false
	return f(a, b)
}
func safe_uint8_int16_string(f func(uint8, int16) string, a uint8, b int16) string {
	defer func() {
		if x := recover(); x != nil {
			panicked = true
		}
	}()
	panicked = false
	return f(a, b)
}
var sc_uint8_int32 = []int32{-2147483648, -64, -2, -1, 0, 1, 2, 5, 7, 8, 9, 31, 32, 63, 64, 65, 127, 255, 2147483647}
func safe_uint8_int32_uint8(f func(uint8, int32) uint8, a uint8, b int32) uint8 {
	defer func() {
		if x := recover(); x != nil {
			panicked = true
		}
	}()
	panicked = false
	return f(a, b)
}
func safe_uint8_int32_string(f func(uint8, int32) string, a uint8, b int32) string {
	defer func() {
		if x := recover(); x != nil {
			panicked = true
		}
	}()
	panicked = false
	return f(a, b)
}
var sc_uint8_int64 = []int64{-9223372036854775808, -64, -2, -1, 0, 1, 2, 5, 7, 8, 9, 31, 32, 63, 64, 65, 127, 255, 9223372036854775807}
func safe_uint8_int64_uint8(f func(uint8, int64) uint8, a uint8, b int64) uint8 {
	defer func() {
		if x := recover(); x != nil {
			panicked = true
		}
	}()
	panicked = false
	return f(a, b)
}
func safe_uint8_int64_string(f func(uint8, int64) string, a uint8, b int64) string {
	defer func() {
		if x := recover(); x != nil {
			panicked = true
		}
	}()
	panicked = false
	return f(a, b)
}
var sc_uint8_uint = []uint{0, 1, 2, 5, 7, 8, 9, 31, 32, 63, 64, 65, 127, 255, 18446744073709551615}
func safe_uint8_uint_uint8(f func(uint8, uint) uint8, a uint8, b uint) uint8 {
	defer func() {
		if x := recover(); x != nil {
			panicked = true
		}
	}()
	panicked = false
	return f(a, b)
}
func safe_uint8_uint_string(f func(uint8, uint) string, a uint8, b uint) string {
	defer func() {
		if x := recover(); x != nil {
			panicked = true
		}
	}()
	panicked = false
	return f(a, b)
}
var sc_uint8_uint8 = []uint8{0, 1, 2, 5, 7, 8, 9, 31, 32, 63, 64, 65, 127, 255}
var sc_uint8_uint16 = []uint16{0, 1, 2, 5, 7, 8, 9, 31, 32, 63, 64, 65, 127, 255, 65535}
func safe_uint8_uint16_uint8(f func(uint8, uint16) uint8, a uint8, b uint16) uint8 {
	defer func() {
		if x := recover(); x != nil {
			panicked = true
		}
	}()
	panicked = false
	return f(a, b)
}
func safe_uint8_uint16_string(f func(uint8, uint16) string, a uint8, b uint16) string {
	defer func() {
		if x := recover(); x != nil {
			panicked = true
		}
	}()
	panicked = false
	return f(a, b)
}
var sc_uint8_uint32 = []uint32{0, 1, 2, 5, 7, 8, 9, 31, 32, 63, 64, 65, 127, 255, 4294967295}
func safe_uint8_uint32_uint8(f func(uint8, uint32) uint8, a uint8, b uint32) uint8 {
	defer func() {
		if x := recover(); x != nil {
			panicked = true
		}
	}()
	panicked = false
	return f(a, b)
}
func safe_uint8_uint32_string(f func(uint8, uint32) string, a uint8, b uint32) string {
	defer func() {
		if x := recover(); x != nil {
			panicked = true
		}
	}()
	panicked = false
	return f(a, b)
}
var sc_uint8_uint64 = []uint64{0, 1, 2, 5, 7, 8, 9, 31, 32, 63, 64, 65, 127, 255, 18446744073709551615}
func safe_uint8_uint64_uint8(f func(uint8, uint64) uint8, a uint8, b uint64) uint8 {
	defer func() {
		if x := recover(); x != nil {
			panicked = true
		}
	}()
	panicked = false
	return f(a, b)
}
func safe_uint8_uint64_string(f func(uint8, uint64) string, a uint8, b uint64) string {
	defer func() {
		if x := recover(); x != nil {
			panicked = true
		}
	}()
	panicked = false
	return f(a, b)
}
var sc_uint8_uintptr = []uintptr{0, 1, 2, 5, 7, 8, 9, 31, 32, 63, 64, 65, 127, 255, 18446744073709551615}
func safe_uint8_uintptr_uint8(f func(uint8, uintptr) uint8, a uint8, b uintptr) uint8 {
	defer func() {
		if x := recover(); x != nil {
			panicked = true
		}
	}()
	panicked = false
	return f(a, b)
}
func safe_uint8_uintptr_string(f func(uint8, uintptr) string, a uint8, b uintptr) string {
	defer func() {
		if x := recover(); x != nil {
			panicked = true
		}
	}()
	panicked = false
	return f(a, b)
}
var sc_uint16_int = []int{-9223372036854775808, -64, -2, -1, 0, 1, 2, 5, 15, 16, 17, 31, 32, 63, 64, 65, 127, 255, 9223372036854775807}
func safe_uint16_int_uint16(f func(uint16, int) uint16, a uint16, b int) uint16 {
	defer func() {
		if x := recover(); x != nil {
			panicked = true
		}
	}()
	panicked = false
	return f(a, b)
}
func safe_uint16_int_string(f func(uint16, int) string, a uint16, b int) string {
	defer func() {
		if x := recover(); x != nil {
			panicked = true
		}
	}()
	panicked = false
	return f(a, b)
}
var sc_uint16_int8 = []int8{-128, -64, -2, -1, 0, 1, 2, 5, 15, 16, 17, 31, 32, 63, 64, 65, 127}
func safe_uint16_int8_uint16(f func(uint16, int8) uint16, a uint16, b int8) uint16 {
	defer func() {
		if x := recover(); x != nil {
			panicked = true
		}
	}()
	panicked = false
	return f(a, b)
}
func safe_uint16_int8_string(f func(uint16, int8) string, a uint16, b int8) string {
	defer func() {
		if x := recover(); x != nil {
			panicked = true
		}
	}()
	panicked = false
	return f(a, b)
}
var sc_uint16_int16 = []int16{-32768, -64, -2, -1, 0, 1, 2, 5, 15, 16, 17, 31, 32, 63, 64, 65, 127, 255, 32767}
func safe_uint16_int16_uint16(f func(uint16, int16) uint16, a uint16, b int16) uint16 {
	defer func() {
		if x := recover(); x != nil {
			panicked = true
		}
	}()
	panicked = false
	return f(a, b)
}
func safe_uint16_int16_string(f func(uint16, int16) string, a uint16, b int16) string {
	defer func() {
		if x := recover(); x != nil {
			panicked = true
		}
	}()
	panicked = false
	return f(a, b)
}
var sc_uint16_int32 = []int32{-2147483648, -64, -2, -1, 0, 1, 2, 5, 15, 16, 17, 31, 32, 63, 64, 65, 127, 255, 2147483647}
func safe_uint16_int32_uint16(f func(uint16, int32) uint16, a uint16, b int32) uint16 {
	defer func() {
		if x := recover(); x != nil {
			panicked = true
		}
	}()
	panicked = false
	return f(a, b)
}
func safe_uint16_int32_string(f func(uint16, int32) string, a uint16, b int32) string {
	defer func() {
		if x := recover(); x != nil {
			panicked = true
		}
	}()
	panicked = false
	return f(a, b)
}
var sc_uint16_int64 = []int64{-9223372036854775808, -64, -2, -1, 0, 1, 2, 5, 15, 16, 17, 31, 32, 63, 64, 65, 127, 255, 9223372036854775807}
func safe_uint16_int64_uint16(f func(uint16, int64) uint16, a uint16, b int64) uint16 {
	defer func() {
		if x := recover(); x != nil {
			panicked = true
		}
	}()
	panicked = false
	return f(a, b)
}
func safe_uint16_int64_string(f func(uint16, int64) string, a uint16, b int64) string {
	defer func() {
		if x := recover(); x != nil {
			panicked = true
		}
	}()
	panicked = false
	return f(a, b)
}
var sc_uint16_uint = []uint{0, 1, 2, 5, 15, 16, 17, 31, 32, 63, 64, 65, 127, 255, 18446744073709551615}
func safe_uint16_uint_uint16(f func(uint16, uint) uint16, a uint16, b uint) uint16 {
	defer func() {
		if x := recover(); x != nil {
			panicked = true
		}
	}()
	panicked = false
	return f(a, b)
}
func safe_uint16_uint_string(f func(uint16, uint) string, a uint16, b uint) string {
	defer func() {
		if x := recover(); x != nil {
			panicked = true
		}
	}()
	panicked = false
	return f(a, b)
}
var sc_uint16_uint8 = []uint8{0, 1, 2, 5, 15, 16, 17, 31, 32, 63, 64, 65, 127, 255}
func safe_uint16_uint8_uint16(f func(uint16, uint8) uint16, a uint16, b uint8) uint16 {
	defer func() {
		if x := recover(); x != nil {
			panicked = true
		}
	}()
	panicked = false
	return f(a, b)
}
func safe_uint16_uint8_string(f func(uint16, uint8) string, a uint16, b uint8) string {
	defer func() {
		if x := recover(); x != nil {
			panicked = true
		}
	}()
	panicked = false
	return f(a, b)
}
var sc_uint16_uint16 = []uint16{0, 1, 2, 5, 15, 16, 17, 31, 32, 63, 64, 65, 127, 255, 65535}
var sc_uint16_uint32 = []uint32{0, 1, 2, 5, 15, 16, 17, 31, 32, 63, 64, 65, 127, 255, 4294967295}
func safe_uint16_uint32_uint16(f func(uint16, uint32) uint16, a uint16, b uint32) uint16 {
	defer func() {
		if x := recover(); x != nil {
			panicked = true
		}
	}()
	panicked = false
	return f(a, b)
}
func safe_uint16_uint32_string(f func(uint16, uint32) string, a uint16, b uint32) string {
	defer func() {
		if x := recover(); x != nil {
			panicked = true
		}
	}()
	panicked = false
	return f(a, b)
}
var sc_uint16_uint64 = []uint64{0, 1, 2, 5, 15, 16, 17, 31, 32, 63, 64, 65, 127, 255, 18446744073709551615}
func safe_uint16_uint64_uint16(f func(uint16, uint64) uint16, a uint16, b uint64) uint16 {
	defer func() {
		if x := recover(); x != nil {
			panicked = true
		}
	}()
	panicked = false
	return f(a, b)
}
func safe_uint16_uint64_string(f func(uint16, uint64) string, a uint16, b uint64) string {
	defer func() {
		if x := recover(); x != nil {
			panicked = true
		}
	}()
	panicked = false
	return f(a, b)
}
var sc_uint16_uintptr = []uintptr{0, 1, 2, 5, 15, 16, 17, 31, 32, 63, 64, 65, 127, 255, 18446744073709551615}
func safe_uint16_uintptr_uint16(f func(uint16, uintptr) uint16, a uint16, b uintptr) uint16 {
	defer func() {
		if x := recover(); x != nil {
			panicked = true
		}
	}()
	panicked = false
	return f(a, b)
}
func safe_uint16_uintptr_string(f func(uint16, uintptr) string, a uint16, b uintptr) string {
	defer func() {
		if x := recover(); x != nil {
			panicked = true
		}
	}()
	panicked = false
	return f(a, b)
}
var sc_uint32_int = []int{-9223372036854775808, -64, -2, -1, 0, 1, 2, 5, 31, 32, 33, 63, 64, 65, 127, 255, 9223372036854775807}
func safe_uint32_int_uint32(f func(uint32, int) uint32, a uint32, b int) uint32 {
	defer func() {
		if x := recover(); x != nil {
			panicked = true
		}
	}()
	panicked = false
	return f(a, b)
}
func safe_uint32_int_string(f func(uint32, int) string, a uint32, b int) string {
	defer func() {
		if x := recover(); x != nil {
			panicked = true
		}
	}()
	panicked = false
	return f(a, b)
}
var sc_uint32_int8 = []int8{-128, -64, -2, -1, 0, 1, 2, 5, 31, 32, 33, 63, 64, 65, 127}
func safe_uint32_int8_uint32(f func(uint32, int8) uint32, a uint32, b int8) uint32 {
	defer func() {
		if x := recover(); x != nil {
			panicked = true
		}
	}()
	panicked = false
	return f(a, b)
}
func safe_uint32_int8_string(f func(uint32, int8) string, a uint32, b int8) string {
	defer func() {
		if x := recover(); x != nil {
			panicked = true
		}
	}()
	panicked = false
	return f(a, b)
}
var sc_uint32_int16 = []int16{-32768, -64, -2, -1, 0, 1, 2, 5, 31, 32, 33, 63, 64, 65, 127, 255, 32767}
func safe_uint32_int16_uint32(f func(uint32, int16) uint32, a uint32, b int16) uint32 {
	defer func() {
		if x := recover(); x != nil {
			panicked = true
		}
	}()
	panicked = false
	return f(a, b)
}
func safe_uint32_int16_string(f func(uint32, int16) string, a uint32, b int16) string {
	defer func() {
		if x := recover(); x != nil {
			panicked = true
		}
	}()
	panicked = false
	return f(a, b)
}
var sc_uint32_int32 = []int32{-2147483648, -64, -2, -1, 0, 1, 2, 5, 31, 32, 33, 63, 64, 65, 127, 255, 2147483647}
func safe_uint32_int32_uint32(f func(uint32, int32) uint32, a uint32, b int32) uint32 {
	defer func() {
		if x := recover(); x != nil {
			panicked = true
		}
	}()
	panicked = false
	return f(a, b)
}
func safe_uint32_int32_string(f func(uint32, int32) string, a uint32, b int32) string {
	defer func() {
		if x := recover(); x != nil {
			panicked = true
		}
	}()
	panicked = false
	return f(a, b)
}
var sc_uint32_int64 = []int64{-9223372036854775808, -64, -2, -1, 0, 1, 2, 5, 31, 32, 33, 63, 64, 65, 127, 255, 9223372036854775807}
func safe_uint32_int64_uint32(f func(uint32, int64) uint32, a uint32, b int64) uint32 {
	defer func() {
		if x := recover(); x != nil {
			panicked = true
		}
	}()
	panicked = false
	return f(a, b)
}
func safe_uint32_int64_string(f func(uint32, int64) string, a uint32, b int64) string {
	defer func() {
		if x := recover(); x != nil {
			panicked = true
		}
	}()
	panicked = false
	return f(a, b)
}
var sc_uint32_uint = []uint{0, 1, 2, 5, 31, 32, 33, 63, 64, 65, 127, 255, 18446744073709551615}
func safe_uint32_uint_uint32(f func(uint32, uint) uint32, a uint32, b uint) uint32 {
	defer func() {
		if x := recover(); x != nil {
			panicked = true
		}
	}()
	panicked = false
	return f(a, b)
}
func safe_uint32_uint_string(f func(uint32, uint) string, a uint32, b uint) string {
	defer func() {
		if x := recover(); x != nil {
			panicked = true
		}
	}()
	panicked = false
	return f(a, b)
}
var sc_uint32_uint8 = []uint8{0, 1, 2, 5, 31, 32, 33, 63, 64, 65, 127, 255}
func safe_uint32_uint8_uint32(f func(uint32, uint8) uint32, a uint32, b uint8) uint32 {
	defer func() {
		if x := recover(); x != nil {
			panicked = true
		}
	}()
	panicked = false
	return f(a, b)
}
func safe_uint32_uint8_string(f func(uint32, uint8) string, a uint32, b uint8) string {
	defer func() {
		if x := recover(); x != nil {
			panicked = true
		}
	}()
	panicked = false
	return f(a, b)
}
var sc_uint32_uint16 = []uint16{0, 1, 2, 5, 31, 32, 33, 63, 64, 65, 127, 255, 65535}
func safe_uint32_uint16_uint32(f func(uint32, uint16) uint32, a uint32, b uint16) uint32 {
	defer func() {
		if x := recover(); x != nil {
			panicked = true
		}
	}()
	panicked = false
	return f(a, b)
}
func safe_uint32_uint16_string(f func(uint32, uint16) string, a uint32, b uint16) string {
	defer func() {
		if x := recover(); x != nil {
			panicked = true
		}
	}()
	panicked = false
	return f(a, b)
}
var sc_uint32_uint32 = []uint32{0, 1, 2, 5, 31, 32, 33, 63, 64, 65, 127, 255, 4294967295}
var sc_uint32_uint64 = []uint64{0, 1, 2, 5, 31, 32, 33, 63, 64, 65, 127, 255, 18446744073709551615}
func safe_uint32_uint64_uint32(f func(uint32, uint64) uint32, a uint32, b uint64) uint32 {
	defer func() {
		if x := recover(); x != nil {
			panicked = true
		}
	}()
	panicked = false
	return f(a, b)
}
func safe_uint32_uint64_string(f func(uint32, uint64) string, a uint32, b uint64) string {
	defer func() {
		if x := recover(); x != nil {
			panicked = true
		}
	}()
	panicked = false
	return f(a, b)
}
var sc_uint32_uintptr = []uintptr{0, 1, 2, 5, 31, 32, 33, 63, 64, 65, 127, 255, 18446744073709551615}
func safe_uint32_uintptr_uint32(f func(uint32, uintptr) uint32, a uint32, b uintptr) uint32 {
	defer func() {
		if x := recover(); x != nil {
			panicked = true
		}
	}()
	panicked = false
	return f(a, b)
}
func safe_uint32_uintptr_string(f func(uint32, uintptr) string, a uint32, b uintptr) string {
	defer func() {
		if x := recover(); x != nil {
			panicked = true
		}
	}()
	panicked = false
	return f(a, b)
}
var sc_uint64_int = []int{-9223372036854775808, -64, -2, -1, 0, 1, 2, 5, 31, 32, 63, 64, 65, 127, 255, 9223372036854775807}
func safe_uint64_int_uint64(f func(uint64, int) uint64, a uint64, b int) uint64 {
	defer func() {
		if x := recover(); x != nil {
			panicked = true
		}
	}()
	panicked = false
	return f(a, b)
}
func safe_uint64_int_string(f func(uint64, int) string, a uint64, b int) string {
	defer func() {
		if x := recover(); x != nil {
			panicked = true
		}
	}()
	panicked = false
	return f(a, b)
}
var sc_uint64_int8 = []int8{-128, -64, -2, -1, 0, 1, 2, 5, 31, 32, 63, 64, 65, 127}
func safe_uint64_int8_uint64(f func(uint64, int8) uint64, a uint64, b int8) uint64 {
	defer func() {
		if x := recover(); x != nil {
			panicked = true
		}
	}()
	panicked = false
	return f(a, b)
}
func safe_uint64_int8_string(f func(uint64, int8) string, a uint64, b int8) string {
	defer func() {
		if x := recover(); x != nil {
			panicked = true
		}
	}()
	panicked = false
	return f(a, b)
}
var sc_uint64_int16 = []int16{-32768, -64, -2, -1, 0, 1, 2, 5, 31, 32, 63, 64, 65, 127, 255, 32767}
func safe_uint64_int16_uint64(f func(uint64, int16) uint64, a uint64, b int16) uint64 {
	defer func() {
		if x := recover(); x != nil {
			panicked = true
		}
	}()
	panicked = false
	return f(a, b)
}
func safe_uint64_int16_string(f func(uint64, int16) string, a uint64, b int16) string {
	defer func() {
		if x := recover(); x != nil {
			panicked = true
		}
	}()
	panicked = false
	return f(a, b)
}
var sc_uint64_int32 = []int32{-2147483648, -64, -2, -1, 0, 1, 2, 5, 31, 32, 63, 64, 65, 127, 255, 2147483647}
func safe_uint64_int32_uint64(f func(uint64, int32) uint64, a uint64, b int32) uint64 {
	defer func() {
		if x := recover(); x != nil {
			panicked = true
		}
	}()
	panicked = false
	return f(a, b)
}
func safe_uint64_int32_string(f func(uint64, int32) string, a uint64, b int32) string {
	defer func() {
		if x := recover(); x != nil {
			panicked = true
		}
	}()
	panicked = false
	return f(a, b)
}
var sc_uint64_int64 = []int64{-9223372036854775808, -64, -2, -1, 0, 1, 2, 5, 31, 32, 63, 64, 65, 127, 255, 9223372036854775807}
func safe_uint64_int64_uint64(f func(uint64, int64) uint64, a uint64, b int64) uint64 {
	defer func() {
		if x := recover(); x != nil {
			panicked = true
		}
	}()
	panicked = false
	return f(a, b)
}
func safe_uint64_int64_string(f func(uint64, int64) string, a uint64, b int64) string {
	defer func() {
		if x := recover(); x != nil {
			panicked = true
		}
	}()
	panicked = false
	return f(a, b)
}
var sc_uint64_uint = []uint{0, 1, 2, 5, 31, 32, 63, 64, 65, 127, 255, 18446744073709551615}
func safe_uint64_uint_uint64(f func(uint64, uint) uint64, a uint64, b uint) uint64 {
	defer func() {
		if x := recover(); x != nil {
			panicked = true
		}
	}()
	panicked = false
	return f(a, b)
}
func safe_uint64_uint_string(f func(uint64, uint) string, a uint64, b uint) string {
	defer func() {
		if x := recover(); x != nil {
			panicked = true
		}
	}()
	panicked = false
	return f(a, b)
}
var sc_uint64_uint8 = []uint8{0, 1, 2, 5, 31, 32, 63, 64, 65, 127, 255}
func safe_uint64_uint8_uint64(f func(uint64, uint8) uint64, a uint64, b uint8) uint64 {
	defer func() {
		if x := recover(); x != nil {
			panicked = true
		}
	}()
	panicked = false
	return f(a, b)
}
func safe_uint64_uint8_string(f func(uint64, uint8) string, a uint64, b uint8) string {
	defer func() {
		if x := recover(); x != nil {
			panicked = true
		}
	}()
	panicked = false
	return f(a, b)
}
var sc_uint64_uint16 = []uint16{0, 1, 2, 5, 31, 32, 63, 64, 65, 127, 255, 65535}
func safe_uint64_uint16_uint64(f func(uint64, uint16) uint64, a uint64, b uint16) uint64 {
	defer func() {
		if x := recover(); x != nil {
			panicked = true
		}
	}()
	panicked = false
	return f(a, b)
}
func safe_uint64_uint16_string(f func(uint64, uint16) string, a uint64, b uint16) string {
	defer func() {
		if x := recover(); x != nil {
			panicked = true
		}
	}()
	panicked = false
	return f(a, b)
}
var sc_uint64_uint32 = []uint32{0, 1, 2, 5, 31, 32, 63, 64, 65, 127, 255, 4294967295}
func safe_uint64_uint32_uint64(f func(uint64, uint32) uint64, a uint64, b uint32) uint64 {
	defer func() {
		if x := recover(); x != nil {
			panicked = true
		}
	}()
	panicked = false
	return f(a, b)
}
func safe_uint64_uint32_string(f func(uint64, uint32) string, a uint64, b uint32) string {
	defer func() {
		if x := recover(); x != nil {
			panicked = true
		}
	}()
	panicked = false
	return f(a, b)
}
var sc_uint64_uint64 = []uint64{0, 1, 2, 5, 31, 32, 63, 64, 65, 127, 255, 18446744073709551615}
var sc_uint64_uintptr = []uintptr{0, 1, 2, 5, 31, 32, 63, 64, 65, 127, 255, 18446744073709551615}
func safe_uint64_uintptr_uint64(f func(uint64, uintptr) uint64, a uint64, b uintptr) uint64 {
	defer func() {
		if x := recover(); x != nil {
			panicked = true
		}
	}()
	panicked = false
	return f(a, b)
}
func safe_uint64_uintptr_string(f func(uint64, uintptr) string, a uint64, b uintptr) string {
	defer func() {
		if x := recover(); x != nil {
			panicked = true
		}
	}()
	panicked = false
	return f(a, b)
}
var sc_uintptr_int = []int{-9223372036854775808, -64, -2, -1, 0, 1, 2, 5, 31, 32, 63, 64, 65, 127, 255, 9223372036854775807}
func safe_uintptr_int_uintptr(f func(uintptr, int) uintptr, a uintptr, b int) uintptr {
	defer func() {
		if x := recover(); x != nil {
			panicked = true
		}
	}()
	panicked = false
	return f(a, b)
}
func safe_uintptr_int_string(f func(uintptr, int) string, a uintptr, b int) string {
	defer func() {
		if x := recover(); x != nil {
			panicked = true
		}
	}()
	panicked = false
	return f(a, b)
}
var sc_uintptr_int8 = []int8{-128, -64, -2, -1, 0, 1, 2, 5, 31, 32, 63, 64, 65, 127}
func safe_uintptr_int8_uintptr(f func(uintptr, int8) uintptr, a uintptr, b int8) uintptr {
	defer func() {
		if x := recover(); x != nil {
			panicked = true
		}
	}()
	panicked = false
	return f(a, b)
}
func safe_uintptr_int8_string(f func(uintptr, int8) string, a uintptr, b int8) string {
	defer func() {
		if x := recover(); x != nil {
			panicked = true
		}
	}()
	panicked = false
	return f(a, b)
}
var sc_uintptr_int16 = []int16{-32768, -64, -2, -1, 0, 1, 2, 5, 31, 32, 63, 64, 65, 127, 255, 32767}
func safe_uintptr_int16_uintptr(f func(uintptr, int16) uintptr, a uintptr, b int16) uintptr {
	defer func() {
		if x := recover(); x != nil {
			panicked = true
		}
	}()
	panicked = false
	return f(a, b)
}
func safe_uintptr_int16_string(f func(uintptr, int16) string, a uintptr, b int16) string {
	defer func() {
		if x := recover(); x != nil {
			panicked = true
		}
	}()
	panicked = false
	return f(a, b)
}
var sc_uintptr_int32 = []int32{-2147483648, -64, -2, -1, 0, 1, 2, 5, 31, 32, 63, 64, 65, 127, 255, 2147483647}
func safe_uintptr_int32_uintptr(f func(uintptr, int32) uintptr, a uintptr, b int32) uintptr {
	defer func() {
		if x := recover(); x != nil {
			panicked = true
		}
	}()
	panicked = false
	return f(a, b)
}
func safe_uintptr_int32_string(f func(uintptr, int32) string, a uintptr, b int32) string {
	defer func() {
		if x := recover(); x != nil {
			panicked = true
		}
	}()
	panicked = false
	return f(a, b)
}
var sc_uintptr_int64 = []int64{-9223372036854775808, -64, -2, -1, 0, 1, 2, 5, 31, 32, 63, 64, 65, 127, 255, 9223372036854775807}
func safe_uintptr_int64_uintptr(f func(uintptr, int64) uintptr, a uintptr, b int64) uintptr {
	defer func() {
		if x := recover(); x != nil {
			panicked = true
		}
	}()
	panicked = false
	return f(a, b)
}
func safe_uintptr_int64_string(f func(uintptr, int64) string, a uintptr, b int64) string {
	defer func() {
		if x := recover(); x != nil {
			panicked = true
		}
	}()
	panicked = false
	return f(a, b)
}
var sc_uintptr_uint = []uint{0, 1, 2, 5, 31, 32, 63, 64, 65, 127, 255, 18446744073709551615}
func safe_uintptr_uint_uintptr(f func(uintptr, uint) uintptr, a uintptr, b uint) uintptr {
	defer func() {
		if x := recover(); x != nil {
			panicked = true
		}
	}()
	panicked = false
	return f(a, b)
}
func safe_uintptr_uint_string(f func(uintptr, uint) string, a uintptr, b uint) string {
	defer func() {
		if x := recover(); x != nil {
			panicked = true
		}
	}()
	panicked = false
	return f(a, b)
}
var sc_uintptr_uint8 = []uint8{0, 1, 2, 5, 31, 32, 63, 64, 65, 127, 255}
func safe_uintptr_uint8_uintptr(f func(uintptr, uint8) uintptr, a uintptr, b uint8) uintptr {
	defer func() {
		if x := recover(); x != nil {
			panicked = true
		}
	}()
	panicked = false
	return f(a, b)
}
func safe_uintptr_uint8_string(f func(uintptr, uint8) string, a uintptr, b uint8) string {
	defer func() {
		if x := recover(); x != nil {
			panicked = true
		}
	}()
	panicked = false
	return f(a, b)
}
var sc_uintptr_uint16 = []uint16{0, 1, 2, 5, 31, 32, 63, 64, 65, 127, 255, 65535}
func safe_uintptr_uint16_uintptr(f func(uintptr, uint16) uintptr, a uintptr, b uint16) uintptr {
	defer func() {
		if x := recover(); x != nil {
			panicked = true
		}
	}()
	panicked = false
	return f(a, b)
}
func safe_uintptr_uint16_string(f func(uintptr, uint16) string, a uintptr, b uint16) string {
	defer func() {
		if x := recover(); x != nil {
			panicked = true
		}
	}()
	panicked = false
	return f(a, b)
}
var sc_uintptr_uint32 = []uint32{0, 1, 2, 5, 31, 32, 63, 64, 65, 127, 255, 4294967295}
func safe_uintptr_uint32_uintptr(f func(uintptr, uint32) uintptr, a uintptr, b uint32) uintptr {
	defer func() {
		if x := recover(); x != nil {
			panicked = true
		}
	}()
	panicked = false
	return f(a, b)
}
func safe_uintptr_uint32_string(f func(uintptr, uint32) string, a uintptr, b uint32) string {
	defer func() {
		if x := recover(); x != nil {
			panicked = true
		}
	}()
	panicked = false
	return f(a, b)
}
var sc_uintptr_uint64 = []uint64{0, 1, 2, 5, 31, 32, 63, 64, 65, 127, 255, 18446744073709551615}
func safe_uintptr_uint64_uintptr(f func(uintptr, uint64) uintptr, a uintptr, b uint64) uintptr {
	defer func() {
		if x := recover(); x != nil {
			panicked = true
		}
	}()
	panicked = false
	return f(a, b)
}
func safe_uintptr_uint64_string(f func(uintptr, uint64) string, a uintptr, b uint64) string {
	defer func() {
		if x := recover(); x != nil {
			panicked = true
		}
	}()
	panicked = false
	return f(a, b)
}
var sc_uintptr_uintptr = []uintptr{0, 1, 2, 5, 31, 32, 63, 64, 65, 127, 255, 18446744073709551615}
var fv_float32_int = []float32{float32(0), float32(1), float32(-1), float32(0.5), float32(-0.5), float32(2.75), float32(-2.75), float32(100.999), float32(127), float32(-128), float32(-127.5), float32(1e18), float32(16777216), float32(1e10), float32(-1e10), float32(65535.9), float32(255.5), float32(4294967295), float32(1e-40)}
var fv_float32_int8 = []float32{float32(0), float32(1), float32(-1), float32(0.5), float32(-0.5), float32(2.75), float32(-2.75), float32(100.999), float32(127), float32(-128), float32(-127.5), float32(127), float32(1e-40)}
var fv_float32_int16 = []float32{float32(0), float32(1), float32(-1), float32(0.5), float32(-0.5), float32(2.75), float32(-2.75), float32(100.999), float32(127), float32(-128), float32(-127.5), float32(32767), float32(255.5), float32(1e-40)}
var fv_float32_int32 = []float32{float32(0), float32(1), float32(-1), float32(0.5), float32(-0.5), float32(2.75), float32(-2.75), float32(100.999), float32(127), float32(-128), float32(-127.5), float32(16777216), float32(65535.9), float32(255.5), float32(1e-40)}
var fv_float32_int64 = []float32{float32(0), float32(1), float32(-1), float32(0.5), float32(-0.5), float32(2.75), float32(-2.75), float32(100.999), float32(127), float32(-128), float32(-127.5), float32(1e18), float32(16777216), float32(1e10), float32(-1e10), float32(65535.9), float32(255.5), float32(4294967295), float32(1e-40)}
var fv_float32_uint = []float32{float32(0), float32(1), float32(0.5), float32(-0.5), float32(2.75), float32(100.999), float32(127), float32(1e18), float32(16777216), float32(1e10), float32(65535.9), float32(255.5), float32(4294967295), float32(1e-40)}
var fv_float32_uint8 = []float32{float32(0), float32(1), float32(0.5), float32(-0.5), float32(2.75), float32(100.999), float32(127), float32(127), float32(255.5), float32(1e-40)}
var fv_float32_uint16 = []float32{float32(0), float32(1), float32(0.5), float32(-0.5), float32(2.75), float32(100.999), float32(127), float32(32767), float32(65535.9), float32(255.5), float32(1e-40)}
var fv_float32_uint32 = []float32{float32(0), float32(1), float32(0.5), float32(-0.5), float32(2.75), float32(100.999), float32(127), float32(2147483647), float32(16777216), float32(65535.9), float32(255.5), float32(1e-40)}
var fv_float32_uint64 = []float32{float32(0), float32(1), float32(0.5), float32(-0.5), float32(2.75), float32(100.999), float32(127), float32(1e18), float32(16777216), float32(1e10), float32(65535.9), float32(255.5), float32(4294967295), float32(1e-40)}
var fv_float32_uintptr = []float32{float32(0), float32(1), float32(0.5), float32(-0.5), float32(2.75), float32(100.999), float32(127), float32(1e18), float32(16777216), float32(1e10), float32(65535.9), float32(255.5), float32(4294967295), float32(1e-40)}
var fv_float64_int = []float64{float64(0), float64(1), float64(-1), float64(0.5), float64(-0.5), float64(2.75), float64(-2.75), float64(100.999), float64(127), float64(-128), float64(-127.5), float64(1e18), float64(16777216), float64(1e10), float64(-1e10), float64(65535.9), float64(255.5), float64(4294967295), float64(1e-40)}
var fv_float64_int8 = []float64{float64(0), float64(1), float64(-1), float64(0.5), float64(-0.5), float64(2.75), float64(-2.75), float64(100.999), float64(127), float64(-128), float64(-127.5), float64(127), float64(1e-40)}
var fv_float64_int16 = []float64{float64(0), float64(1), float64(-1), float64(0.5), float64(-0.5), float64(2.75), float64(-2.75), float64(100.999), float64(127), float64(-128), float64(-127.5), float64(32767), float64(255.5), float64(1e-40)}
var fv_float64_int32 = []float64{float64(0), float64(1), float64(-1), float64(0.5), float64(-0.5), float64(2.75), float64(-2.75), float64(100.999), float64(127), float64(-128), float64(-127.5), float64(2147483647), float64(16777216), float64(65535.9), float64(255.5), float64(1e-40)}
var fv_float64_int64 = []float64{float64(0), float64(1), float64(-1), float64(0.5), float64(-0.5), float64(2.75), float64(-2.75), float64(100.999), float64(127), float64(-128), float64(-127.5), float64(1e18), float64(16777216), float64(1e10), float64(-1e10), float64(65535.9), float64(255.5), float64(4294967295), float64(1e-40)}
var fv_float64_uint = []float64{float64(0), float64(1), float64(0.5), float64(-0.5), float64(2.75), float64(100.999), float64(127), float64(1e18), float64(16777216), float64(1e10), float64(65535.9), float64(255.5), float64(4294967295), float64(1e-40)}
var fv_float64_uint8 = []float64{float64(0), float64(1), float64(0.5), float64(-0.5), float64(2.75), float64(100.999), float64(127), float64(127), float64(255.5), float64(1e-40)}
var fv_float64_uint16 = []float64{float64(0), float64(1), float64(0.5), float64(-0.5), float64(2.75), float64(100.999), float64(127), float64(32767), float64(65535.9), float64(255.5), float64(1e-40)}
var fv_float64_uint32 = []float64{float64(0), float64(1), float64(0.5), float64(-0.5), float64(2.75), float64(100.999), float64(127), float64(2147483647), float64(16777216), float64(65535.9), float64(255.5), float64(4294967295), float64(1e-40)}
var fv_float64_uint64 = []float64{float64(0), float64(1), float64(0.5), float64(-0.5), float64(2.75), float64(100.999), float64(127), float64(1e18), float64(16777216), float64(1e10), float64(65535.9), float64(255.5), float64(4294967295), float64(1e-40)}
var fv_float64_uintptr = []float64{float64(0), float64(1), float64(0.5), float64(-0.5), float64(2.75), float64(100.999), float64(127), float64(1e18), float64(16777216), float64(1e10), float64(65535.9), float64(255.5), float64(4294967295), float64(1e-40)}
var rv_int = []int{0, 65, 233, 19990, 1114111, 1114112, 55296, -1, 128, 255, 65533, 2147483648, 2147483647, 1099511627776}
var rv_int8 = []int8{0, 65, -1}
var rv_int16 = []int16{0, 65, 233, 19990, -1, 128, 255}
var rv_int32 = []int32{0, 65, 233, 19990, 1114111, 1114112, 55296, -1, 128, 255, 65533, 2147483647}
var rv_int64 = []int64{0, 65, 233, 19990, 1114111, 1114112, 55296, -1, 128, 255, 65533, 2147483648, 2147483647, 1099511627776}
var rv_uint = []uint{0, 65, 233, 19990, 1114111, 1114112, 55296, 128, 255, 65533, 2147483648, 2147483647, 1099511627776}
var rv_uint8 = []uint8{0, 65, 233, 128, 255}
var rv_uint16 = []uint16{0, 65, 233, 19990, 55296, 128, 255, 65533}
var rv_uint32 = []uint32{0, 65, 233, 19990, 1114111, 1114112, 55296, 128, 255, 65533, 2147483648, 2147483647}
var rv_uint64 = []uint64{0, 65, 233, 19990, 1114111, 1114112, 55296, 128, 255, 65533, 2147483648, 2147483647, 1099511627776}
var rv_uintptr = []uintptr{0, 65, 233, 19990, 1114111, 1114112, 55296, 128, 255, 65533, 2147483648, 2147483647, 1099511627776}
var sv_conv = []string{"", "a", "héllo", "\xff\xfe", "a\x00b", "世界", "\xf0\x9f\x98\x80", "\xed\xa0\x80"}

const kf5437 complex64 = (16777217.0000000001+1.000000059604644775390625001i)
func f5437(a complex64) complex64 {
	var r complex64
	r = kf5437 + a
	return r
}
const kf5438 complex64 = (2-16777219.0000000001i)
func f5438(a complex64) complex64 {
	var r complex64
	r = kf5438 + a
	return r
}
func f5436() {
	for _, a := range v_complex64 {
		obs("c(16777217.0000000001+1.000000059604644775390625001i)", a, f5437(a))
	}
	for _, a := range v_complex64 {
		obs("c(2-16777219.0000000001i)", a, f5438(a))
	}
}

func main() {
	runCell("C02/add/complex64/tconst.var/assign/tie", f5436)
}
