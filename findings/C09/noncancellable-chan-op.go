// C09-F2: evaluate the declarations with a plain Eval, then EvalWithContext("c := make(chan int); go RecvBlocker(c); for { host.Tick() }")
// and cancel: the goroutine parked in <-c never exits (chan receive), because recv was generated while
// Interpreter.cancelChan was still false. Same with Compile + ExecuteWithContext for code of an imported package.
package main

import "host"

func RecvBlocker(c chan int) {
	for {
		host.Tick()
		<-c
		host.Tick()
	}
}
