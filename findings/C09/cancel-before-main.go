// C09-F1: run with the verif hook freezing at operation k=1 (or with an already cancelled context):
// EvalWithContext returns "context canceled", yet main runs on and Tick keeps being called.
package main

import "host"

func main() {
	for {
		host.Tick()
	}
}
