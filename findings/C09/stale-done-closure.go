// C09-F3: define with EvalWithContext(background), then in a second EvalWithContext run
// "b := MkBlocker(make(chan int)); go b(); for { host.Tick() }" and cancel it: b's goroutine stays parked in select
// on the first evaluation's done channel.
package main

import "host"

func MkBlocker(c chan int) func() { return func() { for { host.Tick(); <-c } } }
