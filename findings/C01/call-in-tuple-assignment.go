// C01-F1: prints "13 10" under gc; yaegi stores the call result before reading the other operand.
package main

import "fmt"

func three() int { return 3 }

func main() {
	a, b := 10, 1
	b, a = a, three()+10
	fmt.Println(a, b)
}
