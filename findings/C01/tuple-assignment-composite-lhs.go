// C01-F2: gc prints "[1 9 3 4] {2}"; under yaegi a[1] keeps 2.
package main

import "fmt"

type S struct{ A int }

func main() {
	a := [4]int{1, 2, 3, 4}
	s := S{A: 9}
	l := []int{5, 6}
	a[1], s.A = s.A, len(l)
	fmt.Println(a, s)
}
