// C01-F3: conditions that are constant expressions (case false, case !true, if false {} else if true {}) take a wrong branch.
package main

import "fmt"

func main() {
	v := 13
	switch {
	case false:
	case !true:
		fmt.Println("wrong", v)
	default:
		fmt.Println("default", v)
	}
}
