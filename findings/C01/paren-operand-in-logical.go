package main

import "fmt"

func main() {
	r, i, q := true, 1, 4
	r = ((i) == q) && r // gc: false; yaegi: panic "reflect: call of reflect.Value.Bool on int Value"
	fmt.Println(r)
}
