// C01-F4: ranging over a string holding invalid UTF-8 (a slice cutting a multi-byte rune) yields other byte offsets than gc.
package main

import "fmt"

func main() {
	s := "héllo wörld"[:2] + "x" + "é"[:1] + "yz"
	for i, r := range s {
		fmt.Println(i, int(r))
	}
}
