// C10-F1: Eval this, then cancel any EvalWithContext("for {}"), then Eval("Clo(1)") => 0 instead of 101 (for ever).
package main

var Clo = func(x int) int { return x + 100 }
