// C10-F2: v, _ := i.Eval("Add"); add := v.Interface().(func(int, int) int); cancel an EvalWithContext("for {}");
// add(1, 2) => 0 until some further Eval has run.
package main

func Add(a, b int) int { return a + b }
