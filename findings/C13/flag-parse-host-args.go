// C13-F3: with Options.Args = []string{"prog", "-n", "7", "rest"} prints "0 [<host arguments>]" instead of "7 [rest]".
package main

import (
	"flag"
	"fmt"
)

func main() {
	n := flag.Int("n", 0, "")
	flag.Parse()
	fmt.Println(*n, flag.Args())
}
