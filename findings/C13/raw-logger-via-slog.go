// C13-F1: ends the host process (exit status 1) in restricted mode.
package main

import (
	"log/slog"
	"os"
)

func main() {
	slog.NewLogLogger(slog.NewTextHandler(os.Stderr, nil), slog.LevelInfo).Fatal("x")
}
