// C13-F2: with Options.Stderr = a buffer, "k" is written to the host's stderr instead of the buffer.
package main

import "log"

func main() { log.Default().Print("k") }
