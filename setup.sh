#!/bin/bash
# Offline setup: warm the Go build cache for the harness (plain and -race) so that the first check is not slow.
cd "$(dirname "$(readlink -f "$0")")"
export GOFLAGS=-mod=mod GOPROXY=off GOSUMDB=off GOTOOLCHAIN=local GO111MODULE=on
mkdir -p .work .cache/native evidence replays
( cd harness && go build -tags verif -o /dev/null ./cmd/vcheck ) || exit 1
( cd harness && go build -race -tags verif -o /dev/null ./cmd/vcheck ) || exit 1
echo setup ok
